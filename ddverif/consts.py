"""Resolve module-level constants (operator vocabularies) from source."""
import ast

from . import astutil as au


class ConstResolver:
    def __init__(self, program):
        self.program = program
        self.cache = dict()

    def module_assign(self, modname, name):
        u = self.program.units.get(modname)
        if u is None or u.tree is None:
            return None
        found = None
        for s in u.tree.body:
            if isinstance(s, ast.Assign):
                for t in s.targets:
                    if isinstance(t, ast.Name) and t.id == name:
                        found = s.value
            elif isinstance(s, ast.AnnAssign):
                if isinstance(s.target, ast.Name) and s.target.id == name \
                        and s.value is not None:
                    found = s.value
        return found

    def resolve(self, modname, chain):
        """Value of `chain` (list of names) seen from module `modname`."""
        key = (modname, tuple(chain))
        if key in self.cache:
            return self.cache[key]
        self.cache[key] = None   # recursion guard
        v = self._resolve(modname, chain)
        self.cache[key] = v
        return v

    def _resolve(self, modname, chain):
        # dd._abc.X / _dd_abc.X / _abc.X style references
        if len(chain) >= 2:
            last = chain[-1]
            head = chain[:-1]
            target = self.module_of_alias(modname, head)
            if target is not None:
                return self.resolve(target, [last])
            return None
        name = chain[0]
        e = self.module_assign(modname, name)
        if e is None:
            return None
        return self.value(modname, e)

    def module_of_alias(self, modname, head):
        dotted = '.'.join(head)
        if dotted in self.program.units:
            return dotted
        u = self.program.units.get(modname)
        if u is None or u.tree is None:
            return None
        for s in u.tree.body:
            if isinstance(s, ast.Import):
                for a in s.names:
                    if (a.asname or a.name) == dotted and \
                            a.name in self.program.units:
                        return a.name
            elif isinstance(s, ast.ImportFrom):
                for a in s.names:
                    full = f'{s.module}.{a.name}'
                    if (a.asname or a.name) == dotted and \
                            full in self.program.units:
                        return full
        # Cython: `import dd._abc as _dd_abc` is lowered to an assignment
        e = self.module_assign(modname, dotted)
        if isinstance(e, ast.Call) and au.call_name(e) == '__import__':
            m = e.args[0].value
            if m in self.program.units:
                return m
        known = {'_dd_abc': 'dd._abc', '_abc_dd': 'dd._abc'}
        return known.get(dotted)

    def value(self, modname, e):
        """Abstract value ('const', x) / ('dict', {...}) or None."""
        if isinstance(e, ast.Constant):
            return ('const', e.value)
        if isinstance(e, (ast.Tuple, ast.List)):
            vals = [self.value(modname, x) for x in e.elts]
            if all(v is not None and v[0] == 'const' for v in vals):
                return ('const', tuple(v[1] for v in vals))
            return None
        if isinstance(e, ast.Set):
            out = set()
            for x in e.elts:
                if isinstance(x, ast.Starred):
                    v = self.value(modname, x.value)
                    if v is None or v[0] != 'const':
                        return None
                    out |= set(v[1])
                else:
                    v = self.value(modname, x)
                    if v is None or v[0] != 'const':
                        return None
                    out.add(v[1])
            return ('const', frozenset(out))
        if isinstance(e, ast.Subscript):
            ch = au.chain(e.value)
            if ch and ch[-1] == 'Literal':
                sl = e.slice
                elts = sl.elts if isinstance(sl, ast.Tuple) else [sl]
                vals = []
                for x in elts:
                    if isinstance(x, ast.Constant):
                        vals.append(x.value)
                    else:
                        return None
                return ('const', tuple(vals))
            return None
        if isinstance(e, ast.BinOp) and isinstance(e.op, ast.BitOr):
            a = self.value(modname, e.left)
            b = self.value(modname, e.right)
            if a and b and a[0] == b[0] == 'const':
                return ('const', tuple(a[1]) + tuple(b[1]))
            return None
        if isinstance(e, (ast.Name, ast.Attribute)):
            ch = au.chain(e)
            if ch:
                return self.resolve(modname, ch)
            return None
        if isinstance(e, ast.Call):
            name = au.call_name(e)
            if name in ('_literals_of', 'get_args', 'set', 'frozenset',
                        'tuple', 'list') and len(e.args) == 1:
                v = self.value(modname, e.args[0])
                if v is not None and v[0] == 'const':
                    if name in ('tuple', 'list', 'get_args'):
                        return ('const', tuple(v[1]))
                    return ('const', frozenset(v[1]))
                return None
            if name == 'dict' and not e.args:
                d = dict()
                for k in e.keywords:
                    if k.arg is None:
                        return None
                    d[k.arg] = self.value(modname, k.value)
                    if d[k.arg] is None:
                        d[k.arg] = ('unknown', au.short(k.value))
                return ('dict', d)
            return None
        if isinstance(e, ast.Dict):
            d = dict()
            for k, v in zip(e.keys, e.values):
                if not isinstance(k, ast.Constant):
                    return None
                d[k.value] = self.value(modname, v) or (
                    'unknown', au.short(v))
            return ('dict', d)
        return None
