"""Results, findings, evidence and exit codes."""
import json
import os
import time

from .frontend import AnalysisError


HERE = os.path.dirname(os.path.dirname(os.path.abspath(__file__)))
KNOWN_FILE = os.path.join(HERE, 'known_findings.json')
EVIDENCE_DIR = os.path.join(HERE, 'evidence')


class Finding:
    """A definite counter-example construct."""

    def __init__(self, rule, sub, func, construct, message,
                 unit=None, line=None, path=None, stmts=None):
        self.rule = rule
        self.sub = sub
        self.func = func            # qualified name (or table name)
        self.construct = construct  # stable id of the construct, no lines
        self.message = message
        self.unit = unit
        self.line = line
        self.path = path
        self.stmts = stmts or []

    @property
    def key(self):
        return f'{self.rule}/{self.sub}/{self.func}/{self.construct}'

    def to_json(self):
        return dict(
            key=self.key, rule=self.rule, sub=self.sub,
            function=self.func, construct=self.construct,
            message=self.message, unit=self.unit, line=self.line,
            path=self.path, statements=self.stmts)

    def text(self):
        loc = f'{self.unit}:{self.line}' if self.unit else self.func
        s = f'{loc}: [{self.rule}/{self.sub}] {self.func}: {self.message}'
        if self.path:
            s += f'\n      path: {self.path}'
        return s


class Result:
    def __init__(self, prop, tier):
        self.prop = prop
        self.tier = tier
        self.t0 = time.time()
        self.instances = []     # dicts: rule, where, what, verdict, nontrivial
        self.findings = []
        self.notes = []
        self.assumptions = []
        self.counters = dict()
        self.rules_run = []
        self.unreviewed = []
        self.floors = []

    # -- recording
    def instance(self, rule, where, what, verdict='holds',
                 nontrivial=True, detail=None):
        d = dict(rule=rule, where=where, what=what, verdict=verdict,
                 nontrivial=bool(nontrivial))
        if detail is not None:
            d['detail'] = detail
        self.instances.append(d)
        return d

    def holds(self, rule, where, what, nontrivial=True, detail=None):
        return self.instance(rule, where, what, 'holds', nontrivial, detail)

    def undecided(self, rule, where, what, detail=None):
        print(f'UNDECIDED [{rule}] {where}: {what}'
              + (f' ({detail})' if detail else ''))
        return self.instance(rule, where, what, 'undecided', True, detail)

    def violation(self, rule, sub, func, construct, message, unit=None,
                  line=None, path=None, stmts=None):
        f = Finding(rule, sub, func, construct, message, unit, line,
                    path, stmts)
        # de-duplicate by key (several paths may hit one construct)
        for g in self.findings:
            if g.key == f.key:
                return g
        self.findings.append(f)
        self.instance(rule, func, f'{sub}: {construct}', 'violated', True,
                      message)
        return f

    def unreviewed_site(self, rule, where, what):
        self.unreviewed.append(dict(rule=rule, where=where, what=what))

    def count(self, name, n=1):
        self.counters[name] = self.counters.get(name, 0) + n

    def assume(self, text):
        if text not in self.assumptions:
            self.assumptions.append(text)

    def note(self, text):
        self.notes.append(text)

    def floor(self, rule, matched, expected):
        """A rule that matches fewer sites than confirmed by hand is not
        allowed to pass vacuously."""
        self.floors.append(dict(rule=rule, matched=matched, floor=expected))
        if matched < expected:
            raise AnalysisError(
                f'rule {rule} matched {matched} instance(s), fewer than the '
                f'{expected} confirmed on the reference tree: the anchors '
                'of this rule moved out of reach')


def load_known():
    try:
        with open(KNOWN_FILE) as f:
            d = json.load(f)
    except FileNotFoundError:
        return dict(known=[], fixed=[])
    d.setdefault('known', [])
    d.setdefault('fixed', [])
    return d


def finish(result, program, seed=0, repo_is_default=True):
    """Print the verdict, write evidence, return the exit code."""
    known = load_known()
    known_keys = {
        k['key']: k for k in known['known']
        if k.get('property') == result.prop}
    new = []
    listed = []
    for f in result.findings:
        if f.key in known_keys:
            listed.append(f)
        else:
            new.append(f)
    for f in listed:
        k = known_keys[f.key]
        print(f'KNOWN-FINDING: property={result.prop} '
              f'{k.get("what", f.message)} [{f.key}]')
    os.makedirs(EVIDENCE_DIR, exist_ok=True)
    replay_paths = []
    if new:
        vdir = os.path.join(EVIDENCE_DIR, 'violations')
        os.makedirs(vdir, exist_ok=True)
        for i, f in enumerate(new):
            p = os.path.join(vdir, f'{result.prop}-{i}.json')
            with open(p, 'w') as fd:
                json.dump(dict(property=result.prop, repo=program.repo,
                               finding=f.to_json()), fd, indent=1)
            replay_paths.append(p)
            print(f.text())
            print(f'VIOLATION property={result.prop} replay={p}')
    write_evidence(result, program, seed, len(new), listed)
    n_inst = len(result.instances)
    n_und = sum(1 for i in result.instances if i['verdict'] == 'undecided')
    print(f'{result.prop}: {n_inst} rule instances over '
          f'{len(result.rules_run)} rules; {len(new)} violation(s), '
          f'{len(listed)} known finding(s), {n_und} undecided, '
          f'{len(result.unreviewed)} unreviewed site(s); '
          f'{time.time() - result.t0:.2f}s')
    return 1 if new else 0


def write_evidence(result, program, seed, n_new, listed):
    from . import props
    out_dir = EVIDENCE_DIR
    if os.path.abspath(program.repo) != '/repo':
        # scratch trees (self-validation, seeded changes) never overwrite
        # the evidence of the repository itself
        out_dir = os.path.join(EVIDENCE_DIR, 'scratch')
        os.makedirs(out_dir, exist_ok=True)
    meta = props.PROPS[result.prop]
    insts = result.instances
    distinct = set()
    for i in insts:
        if i['nontrivial']:
            distinct.add((i['rule'], i['where'], i['what']))
    by_rule = dict()
    for i in insts:
        d = by_rule.setdefault(i['rule'], dict(
            instances=0, holds=0, violated=0, undecided=0))
        d['instances'] += 1
        d[i['verdict']] += 1
    samples = []
    seen_rules = set()
    for i in insts:
        if i['rule'] not in seen_rules or len(samples) < 12:
            seen_rules.add(i['rule'])
            samples.append({k: i[k] for k in (
                'rule', 'where', 'what', 'verdict')})
        if len(samples) >= 40:
            break
    ev = dict(
        property_id=result.prop,
        tier=result.tier,
        seed=seed,
        level='other',
        coverage=dict(
            explanation=meta['explanation'],
            evaluations=len(insts),
            distinct_nontrivial=len(distinct),
            rule=(
                'one evaluation = one (rule, function or table, construct) '
                'instance decided from the current source; an instance is '
                'non-trivial when the rule had a construct to decide '
                '(a lookup under abs(), a two-slot sink, an alias, a '
                'write, a path) as opposed to a presence check'),
            exhaustive=True,
            samples=samples,
            rules=by_rule,
            rules_run=result.rules_run,
            floors=result.floors,
            counters=result.counters,
            functions_analysed=sorted({i['where'] for i in insts}),
            paths_enumerated=result.counters.get('paths', 0),
            units=program.summary(),
            unreviewed_sites=result.unreviewed[:50],
            known_findings_present=[f.key for f in listed],
            not_decided=meta.get('not_decided', ''),
            notes=result.notes[:50]),
        assumptions=result.assumptions + [
            'AssertionError / assert are internal-invariant (abort) exits: '
            'path rules do not require cleanup on them',
            'nothing of the repository is imported or executed; verdicts '
            'are about the source text at the digests listed in '
            'coverage.units'],
        wall_s=round(time.time() - result.t0, 3),
        violations=n_new)
    p = os.path.join(out_dir, f'{result.prop}.json')
    with open(p, 'w') as fd:
        json.dump(ev, fd, indent=1, default=str)
    return p
