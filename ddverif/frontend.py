"""Front end: parse every unit of the repository from its *current* source.

Nothing is imported or executed.  Python units are parsed with `ast`, the
Cython units with the Cython compiler's parser and lowered to `ast`
(`cy2ast`).  `doc.md` is read as text.
"""
import ast
import hashlib
import os

from . import astutil as au


PY_UNITS = ['bdd', 'autoref', '_abc', '_utils', '_parser', '_copy',
            'mdd', 'dddmp']
CY_UNITS = ['cudd', 'cudd_zdd', 'sylvan', 'buddy']
PXD_UNITS = ['c_sylvan', 'buddy_']


class AnalysisError(Exception):
    """The analysis itself cannot run (vanished anchor, parse failure)."""


class Func:
    def __init__(self, node, unit, qualname, cls):
        self.node = node
        self.unit = unit
        self.qualname = qualname      # e.g. dd.bdd.BDD._ite
        self.cls = cls                # enclosing class name or None
        self.name = node.name
        self.decorators = []
        for d in node.decorator_list:
            c = au.chain(d.func if isinstance(d, ast.Call) else d)
            self.decorators.append(c[-1] if c else au.src(d))

    @property
    def params(self):
        a = self.node.args
        r = [x.arg for x in a.posonlyargs + a.args]
        return r

    @property
    def lineno(self):
        return self.node.lineno

    def where(self):
        return f'{self.unit.rel}:{self.node.lineno}'

    def __repr__(self):
        return f'<Func {self.qualname}>'


NORMALISE = os.environ.get('DDVERIF_NO_NORMALISE') is None


class Unit:
    def __init__(self, repo, rel, modname, kind):
        self.repo = repo
        self.rel = rel
        self.path = os.path.join(repo, rel)
        self.modname = modname
        self.kind = kind
        self.funcs = dict()       # qualname -> Func
        self.classes = dict()     # class name -> ClassDef
        self.tree = None
        self.c_protos = dict()
        self.unknown_nodes = 0
        try:
            with open(self.path, 'rb') as f:
                raw = f.read()
        except OSError as e:
            raise AnalysisError(f'cannot read unit {rel}: {e}')
        self.sha256 = hashlib.sha256(raw).hexdigest()
        self.text = raw.decode('utf8')
        if kind == 'py':
            try:
                self.tree = ast.parse(self.text, filename=rel)
            except SyntaxError as e:
                raise AnalysisError(f'cannot parse {rel}: {e}')
        elif kind in ('pyx', 'pxd'):
            from . import cy2ast
            try:
                lw = cy2ast.lower(self.path, modname)
            except Exception as e:
                raise AnalysisError(
                    f'cannot parse {rel} with the Cython parser: '
                    f'{type(e).__name__}: {e}')
            self.tree = lw.module
            self.c_protos = lw.c_protos
            self.unknown_nodes = sum(lw.unknown.values())
        self.normalised = dict()
        if self.tree is not None and kind == 'py' and NORMALISE:
            from . import normalise
            try:
                self.normalised = normalise.normalise_module(
                    self.tree, modname, normalise.load_inventory())
            except RecursionError:
                raise AnalysisError(f'cannot normalise {rel}')
        if self.tree is not None:
            au.set_parents(self.tree)
            self._index(self.tree, modname, None)

    def _index(self, node, prefix, cls):
        for child in ast.iter_child_nodes(node):
            if isinstance(child, (ast.FunctionDef, ast.AsyncFunctionDef)):
                q = f'{prefix}.{child.name}'
                if q in self.funcs:
                    # overloads / property setters: keep the last
                    # definition that has a real body
                    old = self.funcs[q]
                    if _is_stub(child) and not _is_stub(old.node):
                        continue
                f = Func(child, self, q, cls)
                child._func = f
                self.funcs[q] = f
                self._index(child, q, cls)
            elif isinstance(child, ast.ClassDef):
                q = f'{prefix}.{child.name}'
                self.classes[child.name] = child
                self._index(child, q, child.name)
            elif isinstance(child, (ast.If, ast.Try, ast.With, ast.For,
                                    ast.While, ast.Match, ast.match_case,
                                    ast.ExceptHandler)):
                self._index(child, prefix, cls)


def _is_stub(fn):
    body = [s for s in fn.body if not (
        isinstance(s, ast.Expr) and isinstance(s.value, ast.Constant)
        and isinstance(s.value.value, str))]
    return (len(body) == 1 and isinstance(body[0], ast.Expr)
            and isinstance(body[0].value, ast.Constant)
            and body[0].value.value is Ellipsis) or not body


class Program:
    """All units of one repository tree."""

    def __init__(self, repo, need_cython=False):
        self.repo = os.path.abspath(repo)
        self.units = dict()
        for m in PY_UNITS:
            self._add(f'dd/{m}.py', f'dd.{m}', 'py')
        self.has_cython = False
        if need_cython:
            self.load_cython()
        self._doc = None

    def _add(self, rel, modname, kind):
        self.units[modname] = Unit(self.repo, rel, modname, kind)

    def load_cython(self):
        if self.has_cython:
            return
        for m in CY_UNITS:
            self._add(f'dd/{m}.pyx', f'dd.{m}', 'pyx')
        for m in PXD_UNITS:
            self._add(f'dd/{m}.pxd', f'dd.{m}', 'pxd')
        self.has_cython = True

    @property
    def doc(self):
        if self._doc is None:
            u = Unit(self.repo, 'doc.md', 'doc', 'md')
            self.units['doc'] = u
            self._doc = u
        return self._doc

    def unit(self, modname):
        if modname not in self.units:
            raise AnalysisError(f'unit {modname} not loaded')
        return self.units[modname]

    def func(self, qualname, required=True):
        """Look up `dd.bdd.BDD._ite`; a vanished anchor is an error."""
        for modname, u in self.units.items():
            if qualname.startswith(modname + '.'):
                f = u.funcs.get(qualname)
                if f is not None:
                    return f
        if required:
            raise AnalysisError(f'anchor function vanished: {qualname}')
        return None

    def all_funcs(self, modnames=None):
        for modname, u in self.units.items():
            if modnames is not None and modname not in modnames:
                continue
            for f in u.funcs.values():
                yield f

    def methods(self, modname, cls):
        u = self.unit(modname)
        prefix = f'{modname}.{cls}.'
        return [f for q, f in u.funcs.items()
                if q.startswith(prefix) and '.' not in q[len(prefix):]]

    def summary(self):
        return [
            dict(unit=u.rel, sha256=u.sha256[:16], functions=len(u.funcs),
                 kind=u.kind)
            for u in self.units.values()]
