"""Acyclic path enumeration over `ast` statement lists.

A path is a list of items:

- ('stmt', node)              a simple statement executed
- ('test', expr, arm, node)   a branch decision (`arm` True/False) of an
                              `if`/`while`/ternary `node`
- ('guard', ifnode)           an `if` whose body only aborts (assertion);
                              it is not a branch point: the path continues
                              under the assumption that the test was false
- ('loop', node, n)           entry of a `for`/`while` taken `n` times (0/1)
- ('case', matchnode, i)      arm `i` of a `match`
- ('except', handler)         entry of an exception handler
- ('exit', node, kind)        end of path; kind in 'return', 'raise',
                              'abort', 'fall' (end of function body)

Conventions (DESIGN.md section 3): `raise AssertionError`/`assert` are abort
exits; loops are taken zero times and once (a loop whose body contains
`break` may additionally leave through the `break`); `try/finally` appends
the final block to every way out of the body; handlers are entered as
alternative paths from the start of the `try` body.
"""
import ast

from . import astutil as au


class PathExplosion(Exception):
    pass


class Enumerator:
    def __init__(self, limit=20000, loop_twice=False, fork_guards=False):
        self.limit = limit
        self.loop_twice = loop_twice
        self.fork_guards = fork_guards
        self.count = 0

    # each function returns a list of (items, outcome)
    # outcome in {'fall', 'break', 'continue', 'return', 'raise', 'abort'}
    def block(self, stmts):
        cur = [([], 'fall')]
        for s in stmts:
            if not any(o == 'fall' for _, o in cur):
                break
            nxt = []
            sp = None
            for items, out in cur:
                if out != 'fall':
                    nxt.append((items, out))
                    continue
                if sp is None:
                    sp = self.stmt(s)
                for i2, o2 in sp:
                    nxt.append((items + i2, o2))
            cur = nxt
            if len(cur) > self.limit:
                raise PathExplosion(len(cur))
        return cur

    def stmt(self, s):
        if isinstance(s, ast.Return):
            return [([('stmt', s), ('exit', s, 'return')], 'return')]
        if isinstance(s, ast.Raise):
            kind = 'abort' if au.raises_assertion(s) else 'raise'
            return [([('stmt', s), ('exit', s, kind)], kind)]
        if isinstance(s, ast.Assert):
            return [([('guard', s)], 'fall')]
        if isinstance(s, ast.Break):
            return [([], 'break')]
        if isinstance(s, ast.Continue):
            return [([], 'continue')]
        if isinstance(s, ast.If):
            return self.if_(s)
        if isinstance(s, (ast.For, ast.AsyncFor)):
            return self.loop(s, s.body, s.orelse)
        if isinstance(s, ast.While):
            return self.loop(s, s.body, s.orelse)
        if isinstance(s, ast.Try):
            return self.try_(s)
        if isinstance(s, (ast.With, ast.AsyncWith)):
            r = []
            for items, out in self.block(s.body):
                r.append(([('stmt', s)] + items, out))
            return r
        if isinstance(s, ast.Match):
            r = []
            for i, c in enumerate(s.cases):
                for items, out in self.block(c.body):
                    r.append(([('case', s, i)] + items, out))
            # no case matched
            irrefutable = any(
                isinstance(c.pattern, ast.MatchAs)
                and c.pattern.pattern is None and c.guard is None
                for c in s.cases)
            if not irrefutable:
                r.append(([('case', s, None)], 'fall'))
            return self.prune_aborts(r)
        if isinstance(s, (ast.FunctionDef, ast.AsyncFunctionDef,
                          ast.ClassDef)):
            return [([('stmt', s)], 'fall')]
        return [([('stmt', s)], 'fall')]

    def prune_aborts(self, r):
        """Drop alternatives that only abort, if another remains."""
        keep = [x for x in r if x[1] != 'abort']
        return keep if keep else r

    def if_(self, s):
        if (not self.fork_guards and au.only_abort(s.body)
                and not s.orelse):
            return [([('guard', s)], 'fall')]
        r = []
        for items, out in self.block(s.body):
            r.append(([('test', s.test, True, s)] + items, out))
        if s.orelse:
            for items, out in self.block(s.orelse):
                r.append(([('test', s.test, False, s)] + items, out))
        else:
            r.append(([('test', s.test, False, s)], 'fall'))
        if not self.fork_guards:
            # an arm that only aborts is an internal-invariant arm
            keep = [x for x in r if x[1] != 'abort']
            if keep and len(keep) < len(r):
                r = keep
        return r

    def loop(self, s, body, orelse):
        r = []
        else_paths = self.block(orelse) if orelse else [([], 'fall')]
        # zero iterations (impossible over a non-empty literal sequence)
        literal = isinstance(s, ast.For) and isinstance(
            s.iter, (ast.Tuple, ast.List)) and len(s.iter.elts) > 0
        if not literal:
            for ei, eo in else_paths:
                r.append(([('loop', s, 0)] + ei, eo))
        body_paths = self.block(body)
        has_break = any(o == 'break' for _, o in body_paths)
        iters = [body_paths]
        if self.loop_twice:
            twice = []
            for i1, o1 in body_paths:
                if o1 in ('fall', 'continue'):
                    for i2, o2 in body_paths:
                        twice.append((i1 + [('loop', s, 2)] + i2, o2))
            iters.append(twice)
        for bp in iters:
            for items, out in bp:
                head = [('loop', s, 1)] + items
                if out in ('fall', 'continue'):
                    for ei, eo in else_paths:
                        r.append((head + ei, eo))
                    if has_break and orelse:
                        # a later iteration may leave through `break`
                        r.append((head, 'fall'))
                elif out == 'break':
                    r.append((head, 'fall'))
                else:
                    r.append((head, out))
        return r

    def try_(self, s):
        r = []
        body = self.block(s.body)
        for items, out in body:
            if out == 'fall' and s.orelse:
                for oi, oo in self.block(s.orelse):
                    r.append((items + oi, oo))
            else:
                r.append((items, out))
        for h in s.handlers:
            for items, out in self.block(h.body):
                r.append(([('except', h)] + items, out))
        if s.finalbody:
            fin = self.block(s.finalbody)
            r2 = []
            for items, out in r:
                for fi, fo in fin:
                    # strip the 'exit' marker so it stays last
                    if items and items[-1][0] == 'exit' and fo == 'fall':
                        r2.append((items[:-1] + fi + [items[-1]], out))
                    else:
                        r2.append((items + fi, out if fo == 'fall' else fo))
            r = r2
        return r


def function_paths(func, limit=20000, loop_twice=False, fork_guards=False):
    """All paths through `func` (an `ast.FunctionDef`)."""
    en = Enumerator(limit, loop_twice, fork_guards)
    r = []
    for items, out in en.block(func.body):
        if out == 'fall':
            items = items + [('exit', func, 'fall')]
        r.append(items)
    return r


def block_paths(stmts, limit=20000, loop_twice=False, fork_guards=False):
    """Paths through a statement list; items plus outcome."""
    en = Enumerator(limit, loop_twice, fork_guards)
    return en.block(stmts)


def exit_kind(path):
    last = path[-1]
    if last[0] == 'exit':
        return last[2]
    return 'fall'


def describe(path, maxlen=12):
    """Human-readable decisions of a path (for reports)."""
    out = []
    for it in path:
        if it[0] == 'test':
            out.append(f"{'T' if it[2] else 'F'}:[{au.short(it[1], 40)}]"
                       f"@{getattr(it[3], 'lineno', '?')}")
        elif it[0] == 'loop':
            out.append(f"loop@{getattr(it[1], 'lineno', '?')}x{it[2]}")
        elif it[0] == 'case':
            out.append(f"case{it[2]}@{getattr(it[1], 'lineno', '?')}")
        elif it[0] == 'except':
            out.append(f"except@{getattr(it[1], 'lineno', '?')}")
        elif it[0] == 'exit':
            out.append(f"{it[2]}@{getattr(it[1], 'lineno', '?')}")
    if len(out) > maxlen:
        out = out[:maxlen - 2] + ['...'] + out[-1:]
    return ' '.join(out)
