"""A small abstract interpreter for straight-line dispatch code.

It evaluates a function body for *given abstract arguments* (operator
alias as a concrete string, operands as symbols) without running any
repository code.  Values:

- ('const', python_value)       strings, None, ints, bools, tuples, sets,
                                dicts of constants
- ('sym', name)                 an operand
- ('not', a) ('and', a, b) ('or', a, b) ('xor', a, b) ('equiv', a, b)
  ('imp', a, b) ('diff', a, b) ('ite', g, a, b)   Boolean structure
- ('Q', kind, function, variables)   a quantification; `variables` is
                                ('support', x) / ('cube', x) / x
- ('valid', a) ('eq', a, b) ('neq', a, b) ('band', x, y) ('bnot', x)
                                Python-level Boolean results of comparisons
- ('raise', ExcName)            the call raises
- ('unknown', text)
"""
import ast
import itertools

from . import astutil as au


UNKNOWN = ('unknown', '?')
TRUE = ('const', True)
FALSE = ('const', False)


class Raise(Exception):
    def __init__(self, name):
        self.name = name


class Return(Exception):
    def __init__(self, value):
        self.value = value


class Undecided(Exception):
    pass


def is_const(v):
    return v[0] == 'const'


def is_bexp(v):
    return v[0] in ('sym', 'not', 'and', 'or', 'xor', 'equiv', 'imp',
                    'diff', 'ite') or (
                        v[0] == 'const' and (
                            v[1] is True or v[1] is False
                            or (type(v[1]) is int and v[1] in (1, -1))))


def as_bexp(v, int_consts=True):
    """Coerce node-valued constants: 1 -> true, -1 -> false."""
    if v[0] == 'const' and type(v[1]) is int and int_consts:
        if v[1] == 1:
            return TRUE
        if v[1] == -1:
            return FALSE
    return v


def truth(v, val):
    """Evaluate Boolean structure `v` under valuation dict `val`."""
    k = v[0]
    if k == 'const':
        if v[1] is True or v[1] is False:
            return v[1]
        if type(v[1]) is int and v[1] in (1, -1):
            return v[1] == 1
        raise Undecided(f'non-Boolean constant {v[1]!r}')
    if k == 'sym':
        if v[1] not in val:
            raise Undecided(f'free symbol {v[1]}')
        return val[v[1]]
    if k == 'not':
        return not truth(v[1], val)
    if k == 'and':
        return truth(v[1], val) and truth(v[2], val)
    if k == 'or':
        return truth(v[1], val) or truth(v[2], val)
    if k == 'xor':
        return truth(v[1], val) != truth(v[2], val)
    if k == 'equiv':
        return truth(v[1], val) == truth(v[2], val)
    if k == 'imp':
        return (not truth(v[1], val)) or truth(v[2], val)
    if k == 'diff':
        return truth(v[1], val) and not truth(v[2], val)
    if k == 'ite':
        return truth(v[2], val) if truth(v[1], val) else truth(v[3], val)
    raise Undecided(f'not Boolean structure: {v[0]}')


def table(v, syms=('u', 'v', 'w')):
    """Truth table of `v` over `syms` as a tuple of bools."""
    rows = []
    for bits in itertools.product((False, True), repeat=len(syms)):
        rows.append(truth(v, dict(zip(syms, bits))))
    return tuple(rows)


def show(v):
    k = v[0]
    if k == 'const':
        return repr(v[1])
    if k == 'sym':
        return v[1]
    if k in ('unknown', 'raise'):
        return f'<{k}:{v[1]}>'
    return f"{k}({', '.join(show(x) if isinstance(x, tuple) else str(x) for x in v[1:])})"


class Evaluator:
    """Evaluate one function body.

    `prims`  : callee name -> handler(ev, call, args, kwargs) -> value
    `consts` : resolver for free names: name/chain -> value or None
    `inline` : resolver: (call, recv_value) -> (FunctionDef, bound_self) or
               None, for calls that are evaluated by descending into the
               callee (bounded depth)
    """

    def __init__(self, prims, consts=None, inline=None, depth=0):
        self.prims = prims
        self.consts = consts or (lambda chain: None)
        self.inline = inline
        self.depth = depth
        self.steps = 0
        # when the function under evaluation IS a validation (whether it
        # raises is the question), an undetermined test is not assumed
        # to pass
        self.strict = False

    # ---- function level
    def call_function(self, fn, argvals):
        """Evaluate `fn` (FunctionDef) with `argvals` name->value."""
        env = dict(argvals)
        # defaults
        a = fn.args
        params = a.posonlyargs + a.args
        for p, d in zip(params[len(params) - len(a.defaults):], a.defaults):
            if p.arg not in env:
                env[p.arg] = self.expr(d, env)
        for p in params:
            env.setdefault(p.arg, ('sym', p.arg))
        return self.run_top(list(fn.body), env, 0)

    def run_top(self, stmts, env, forks):
        """Top-level statements of a function.  An `if` whose test the
        abstract operands do not determine (a comparison of node numbers,
        say) forks the evaluation: the result is ('either', test, value
        when true, value when false), and has to be right both ways."""
        try:
            for k, s in enumerate(stmts):
                if isinstance(s, ast.If):
                    t = self.expr(s.test, env)
                    if not is_const(t) and not s.orelse and \
                            self.only_raises(stmts[k + 1:]) and \
                            not self.only_raises(s.body):
                        # `if ok: return ...` followed by nothing but a
                        # raise: the inverted form of a validation, which
                        # is assumed to pass
                        return self.run_top(list(s.body) + stmts[k + 1:],
                                            dict(env), forks)
                    if not is_const(t) and not self.only_raises(s.body):
                        if forks >= 3:
                            raise Undecided(
                                f'cannot decide test `{au.short(s.test)}`')
                        rest = stmts[k + 1:]
                        a = self.run_top(list(s.body) + rest, dict(env),
                                         forks + 1)
                        b = self.run_top(list(s.orelse) + rest, dict(env),
                                         forks + 1)
                        if a == b:
                            return a
                        return ('either', au.short(s.test, 50), a, b)
                self.stmt(s, env)
        except Return as r:
            return r.value
        except Raise as r:
            return ('raise', r.name)
        return ('const', None)

    def block(self, stmts, env):
        for s in stmts:
            self.stmt(s, env)

    def stmt(self, s, env):
        self.steps += 1
        if self.steps > 5000:
            raise Undecided('step limit')
        if isinstance(s, ast.Return):
            raise Return(self.expr(s.value, env)
                         if s.value is not None else ('const', None))
        if isinstance(s, ast.Raise):
            raise Raise(au.raised_name(s) or '?')
        if isinstance(s, ast.Assign):
            v = self.expr(s.value, env)
            for t in s.targets:
                self.bind(t, v, env)
            return
        if isinstance(s, ast.AnnAssign):
            if s.value is not None and isinstance(s.target, ast.Name):
                env[s.target.id] = self.expr(s.value, env)
            return
        if isinstance(s, ast.AugAssign):
            if isinstance(s.target, ast.Name):
                env[s.target.id] = UNKNOWN
            return
        if isinstance(s, ast.Expr):
            # validation helpers and bare declarations
            v = self.expr(s.value, env)
            if v[0] == 'raise':
                raise Raise(v[1])
            return
        if isinstance(s, ast.If):
            t = self.expr(s.test, env)
            if is_const(t):
                self.block(s.body if t[1] else s.orelse, env)
                return
            # not evaluable: a validation whose body only raises is
            # assumed to pass; anything else is out of reach
            if self.only_raises(s.body) and not s.orelse:
                return
            if self.only_raises(s.body) and s.orelse:
                self.block(s.orelse, env)
                return
            raise Undecided(f'cannot decide test `{au.short(s.test)}`')
        if isinstance(s, ast.Match):
            subj = self.expr(s.subject, env)
            for c in s.cases:
                m = self.match(c.pattern, subj, env)
                if m is None:
                    raise Undecided(
                        f'cannot decide match on `{au.short(s.subject)}`')
                if m:
                    self.block(c.body, env)
                    return
            return
        if isinstance(s, (ast.Pass, ast.FunctionDef, ast.Import,
                          ast.ImportFrom, ast.Assert)):
            if isinstance(s, ast.FunctionDef):
                env[s.name] = ('localfn', s)
            return
        if isinstance(s, ast.Try):
            # evaluate the body; handlers only if the body raises one of
            # the named exceptions
            try:
                self.block(s.body, env)
            except Raise as r:
                for h in s.handlers:
                    names = au.names_loaded(h.type) if h.type else set()
                    if not names or r.name in names:
                        self.block(h.body, env)
                        break
                else:
                    raise
            self.block(s.finalbody, env)
            return
        if isinstance(s, ast.With):
            self.block(s.body, env)
            return
        raise Undecided(f'statement kind {type(s).__name__}')

    def only_raises(self, stmts):
        if self.strict:
            return False
        return bool(stmts) and isinstance(stmts[-1], ast.Raise) and all(
            isinstance(x, (ast.Assign, ast.Expr)) for x in stmts[:-1])

    def match(self, pat, subj, env):
        """True / False / None (unknown)."""
        if isinstance(pat, ast.MatchAs) and pat.pattern is None:
            if pat.name:
                env[pat.name] = subj
            return True
        if isinstance(pat, ast.MatchOr):
            rs = [self.match(p, subj, env) for p in pat.patterns]
            if any(r is True for r in rs):
                return True
            if all(r is False for r in rs):
                return False
            return None
        if isinstance(pat, ast.MatchValue):
            v = self.expr(pat.value, env)
            if is_const(v) and is_const(subj):
                return v[1] == subj[1]
            if is_const(v) and subj[0] == 'sym':
                return False
            return None
        if isinstance(pat, ast.MatchSingleton):
            if is_const(subj):
                return subj[1] is pat.value
            if subj[0] in ('sym',) or is_bexp(subj):
                return False
            return None
        if isinstance(pat, ast.MatchClass):
            cname = au.chain(pat.cls)
            cname = cname[-1] if cname else '?'
            ty = self.type_of(subj)
            if ty is None:
                return None
            return ty == cname or (ty == 'bool' and cname == 'int')
        if isinstance(pat, ast.MatchSequence):
            if subj[0] == 'const' and isinstance(subj[1], tuple):
                if len(pat.patterns) != len(subj[1]):
                    return False
                for p, x in zip(pat.patterns, subj[1]):
                    if isinstance(p, ast.MatchAs) and p.name:
                        env[p.name] = x if isinstance(x, tuple) and x and \
                            isinstance(x[0], str) else ('const', x)
                return True
            if subj[0] == 'tuple':
                if len(pat.patterns) != len(subj[1]):
                    return False
                for p, x in zip(pat.patterns, subj[1]):
                    if isinstance(p, ast.MatchAs) and p.name:
                        env[p.name] = x
                return True
            return None
        return None

    def type_of(self, v):
        if v[0] == 'const':
            return type(v[1]).__name__
        if v[0] == 'typed':
            return v[1]
        return None

    def bind(self, target, v, env):
        if isinstance(target, ast.Name):
            env[target.id] = v
        elif isinstance(target, (ast.Tuple, ast.List)):
            if v[0] == 'tuple' and len(v[1]) == len(target.elts):
                for t, x in zip(target.elts, v[1]):
                    self.bind(t, x, env)
            elif v[0] == 'const' and isinstance(v[1], tuple) and len(
                    v[1]) == len(target.elts):
                for t, x in zip(target.elts, v[1]):
                    self.bind(t, ('const', x), env)
            else:
                for t in target.elts:
                    self.bind(t, UNKNOWN, env)
        # attribute / subscript stores do not affect the result

    # ---- expressions
    def expr(self, e, env):
        if e is None:
            return ('const', None)
        m = getattr(self, 'x_' + type(e).__name__, None)
        if m is None:
            return ('unknown', au.short(e, 40))
        return m(e, env)

    def x_Constant(self, e, env):
        return ('const', e.value)

    def x_Name(self, e, env):
        if e.id in env:
            return env[e.id]
        v = self.consts([e.id])
        if v is not None:
            return v
        return ('unknown', e.id)

    def x_Attribute(self, e, env):
        ch = au.chain(e)
        if ch is not None:
            v = self.consts(ch)
            if v is not None:
                return v
        base = self.expr(e.value, env)
        h = self.prims.get('.' + e.attr)
        if h is not None:
            return h(self, e, base)
        return ('unknown', au.short(e, 40))

    def x_Tuple(self, e, env):
        vals = [self.expr(x, env) for x in e.elts]
        if all(is_const(v) for v in vals):
            return ('const', tuple(v[1] for v in vals))
        return ('tuple', vals)

    x_List = x_Tuple

    def x_Set(self, e, env):
        vals = [self.expr(x, env) for x in e.elts]
        if all(is_const(v) for v in vals):
            return ('const', frozenset(v[1] for v in vals))
        return UNKNOWN

    def x_Dict(self, e, env):
        d = dict()
        for k, v in zip(e.keys, e.values):
            kk = self.expr(k, env) if k is not None else UNKNOWN
            if not is_const(kk):
                return UNKNOWN
            d[kk[1]] = self.expr(v, env)
        return ('dict', d)

    def x_Subscript(self, e, env):
        base = self.expr(e.value, env)
        idx = self.expr(e.slice, env)
        if base[0] == 'dict' and is_const(idx) and idx[1] in base[1]:
            return base[1][idx[1]]
        if base[0] == 'tuple' and is_const(idx) and type(idx[1]) is int:
            return base[1][idx[1]]
        return ('unknown', au.short(e, 40))

    def x_UnaryOp(self, e, env):
        v = self.expr(e.operand, env)
        if isinstance(e.op, ast.Not):
            if is_const(v):
                return ('const', not v[1])
            if v[0] in ('valid', 'eq', 'neq', 'band', 'bnot'):
                if v[0] == 'eq':
                    return ('neq', v[1], v[2])
                if v[0] == 'neq':
                    return ('eq', v[1], v[2])
                return ('bnot', v)
            return UNKNOWN
        if isinstance(e.op, ast.USub):
            if is_const(v) and type(v[1]) is int:
                return ('const', -v[1])
            if is_bexp(v):
                return ('not', v)
            return UNKNOWN
        if isinstance(e.op, ast.Invert):
            h = self.prims.get('~')
            if h is not None:
                return h(self, e, v)
            if is_bexp(v):
                return ('not', v)
            return UNKNOWN
        return UNKNOWN

    def x_BinOp(self, e, env):
        a = self.expr(e.left, env)
        b = self.expr(e.right, env)
        opn = type(e.op).__name__
        h = self.prims.get('binop:' + opn)
        if h is not None:
            return h(self, e, a, b)
        return UNKNOWN

    def x_BoolOp(self, e, env):
        vals = [self.expr(x, env) for x in e.values]
        is_and = isinstance(e.op, ast.And)
        # three-valued logic on constants
        if is_and:
            if any(is_const(v) and not v[1] for v in vals):
                return FALSE
            if all(is_const(v) for v in vals):
                return vals[-1]
        else:
            if any(is_const(v) and v[1] for v in vals):
                return next(v for v in vals if is_const(v) and v[1])
            if all(is_const(v) for v in vals):
                return vals[-1]
        rest = [v for v in vals if not is_const(v)]
        if all(v[0] in ('valid', 'eq', 'neq', 'band', 'bnot')
               for v in rest) and is_and and len(rest) == 2:
            return ('band', rest[0], rest[1])
        if len(rest) == 1 and is_and and all(
                is_const(v) and v[1] for v in vals if is_const(v)):
            return rest[0]
        return UNKNOWN

    def x_Compare(self, e, env):
        if len(e.ops) != 1:
            return UNKNOWN
        a = self.expr(e.left, env)
        b = self.expr(e.comparators[0], env)
        op = e.ops[0]
        if isinstance(op, (ast.Is, ast.IsNot)):
            r = self.identical(a, b)
            if r is None:
                return UNKNOWN
            return ('const', r if isinstance(op, ast.Is) else not r)
        if isinstance(op, (ast.In, ast.NotIn)):
            if is_const(a) and is_const(b) and isinstance(
                    b[1], (tuple, frozenset, set, list, dict, str)):
                try:
                    r = a[1] in b[1]
                except TypeError:
                    return UNKNOWN
                return ('const', r if isinstance(op, ast.In) else not r)
            if is_const(a) and b[0] == 'dict':
                r = a[1] in b[1]
                return ('const', r if isinstance(op, ast.In) else not r)
            return UNKNOWN
        if isinstance(op, (ast.Eq, ast.NotEq)):
            for x, y in ((a, b), (b, a)):
                if x[0] == 'absref' and is_const(y) and y[1] == 1:
                    r = ('isconst', x[1])
                    return r if isinstance(op, ast.Eq) else ('bnot', r)
            if is_const(a) and is_const(b):
                r = a[1] == b[1]
                return ('const', r if isinstance(op, ast.Eq) else not r)
            ea, eb = as_bexp(a), as_bexp(b)
            if is_bexp(ea) and is_bexp(eb):
                if eb == TRUE and isinstance(op, ast.Eq):
                    return ('valid', ea)
                if ea == TRUE and isinstance(op, ast.Eq):
                    return ('valid', eb)
                if isinstance(op, ast.Eq):
                    return ('eq', ea, eb)
                return ('neq', ea, eb)
            return UNKNOWN
        return UNKNOWN

    def identical(self, a, b):
        if is_const(a) and is_const(b):
            return a[1] is b[1] or (a[1] == b[1] and a[1] is None)
        none_a = is_const(a) and a[1] is None
        none_b = is_const(b) and b[1] is None
        if none_b and (a[0] == 'sym' or is_bexp(a)):
            return False
        if none_a and (b[0] == 'sym' or is_bexp(b)):
            return False
        return None

    def x_IfExp(self, e, env):
        t = self.expr(e.test, env)
        if is_const(t):
            return self.expr(e.body if t[1] else e.orelse, env)
        return UNKNOWN

    def x_JoinedStr(self, e, env):
        return ('unknown', 'fstring')

    def x_Call(self, e, env):
        name = au.call_name(e)
        if any(isinstance(a, ast.Starred) for a in e.args) or any(
                k.arg is None for k in e.keywords):
            # arguments unpacked from a container: not followed
            return ('unknown', f'call {name} with unpacked arguments')
        args = [self.expr(a, env) for a in e.args]
        kwargs = {k.arg: self.expr(k.value, env)
                  for k in e.keywords if k.arg}
        # local function defined in the body
        if isinstance(e.func, ast.Name) and env.get(
                e.func.id, ('x',))[0] == 'localfn':
            fn = env[e.func.id][1]
            return self.descend(fn, args, kwargs, None)
        if self.inline is not None:
            recv = None
            if isinstance(e.func, ast.Attribute):
                recv = self.expr(e.func.value, env)
            tgt = self.inline(e, recv)
            if tgt is not None:
                fn, selfval = tgt
                return self.descend(fn, args, kwargs, selfval)
        h = self.prims.get(name)
        if h is not None:
            return h(self, e, args, kwargs)
        if name == 'abs' and len(args) == 1 and is_bexp(as_bexp(args[0])):
            # the reference with its sign removed: only "is it a
            # terminal" can be asked of it
            return ('absref', as_bexp(args[0]))
        return ('unknown', f'call {name}')

    def descend(self, fn, args, kwargs, selfval):
        if self.depth >= 4:
            return ('unknown', f'inline depth at {fn.name}')
        sub = Evaluator(self.prims, self.consts, self.inline,
                        self.depth + 1)
        params = [p.arg for p in fn.args.posonlyargs + fn.args.args]
        argvals = dict()
        if selfval is not None and params and params[0] in ('self', 'cls'):
            argvals[params[0]] = selfval
            params = params[1:]
        for p, v in zip(params, args):
            argvals[p] = v
        for k, v in kwargs.items():
            argvals[k] = v
        return sub.call_function(fn, argvals)
