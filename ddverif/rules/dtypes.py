"""R-KEYS: identifier domains of the dictionaries that translate a DDDMP
file into a manager (dd.dddmp).

Every identifier in the loader belongs to one of a few domains - variable
name, variable ID, permutation ID (= level in the file), rank of a level
among the levels present (= level in the new manager), node number in the
file, reference in the new manager.  The loader is a chain of dictionary
comprehensions between these domains.  The rule infers, from the
comprehensions themselves, the (key domain -> value domain) of every
dictionary and reports each lookup `d[x]` / `d.get(x)` whose `x` is of
another domain than the keys of `d`: such a lookup raises KeyError for
some files and silently returns the entry of a different variable for
others.  Expressions the inference does not know get no type and
therefore no verdict.
"""
import ast

from .. import astutil as au
from ..frontend import AnalysisError


def t_map(k, v):
    return ('map', k, v)


def t_seq(t):
    return ('seq', t)


def show(t):
    if t is None:
        return '?'
    if isinstance(t, str):
        return t
    if t[0] == 'map':
        return f'{{{show(t[1])}: {show(t[2])}}}'
    if t[0] == 'seq':
        return f'[{show(t[1])}]'
    if t[0] == 'tuple':
        return '(' + ', '.join(show(x) for x in t[1:]) + ')'
    if t[0] in ('rank', 'idx'):
        return f'{t[0]}({show(t[1])})'
    return str(t)


class Infer:
    def __init__(self, env, equiv=()):
        self.env = dict(env)
        self.mismatch = []     # (node, container type, key type)
        self.lookups = 0
        self.equiv = [set(e) for e in equiv]

    def same(self, a, b):
        if a == b:
            return True
        return any(a in e and b in e for e in self.equiv)

    def name_key(self, e):
        ch = au.chain(e)
        return '.'.join(ch) if ch else None

    def elem(self, t):
        """Element type when iterating over a value of type `t`."""
        if t is None:
            return None
        if t[0] == 'seq':
            return t[1]
        if t[0] == 'map':
            return t[1]
        return None

    def bind(self, target, t):
        if isinstance(target, ast.Name):
            self.env[target.id] = t
        elif isinstance(target, (ast.Tuple, ast.List)):
            if t is not None and t[0] == 'tuple' and len(t) - 1 == len(
                    target.elts):
                for x, tt in zip(target.elts, t[1:]):
                    self.bind(x, tt)
            else:
                for x in target.elts:
                    self.bind(x, None)
        elif isinstance(target, ast.Attribute):
            k = self.name_key(target)
            if k:
                self.env[k] = t

    def lookup(self, node, cont, key):
        ct, kt = self.ty(cont), self.ty(key)
        if ct is not None and ct[0] == 'map':
            self.lookups += 1
            if kt is not None and ct[1] is not None and not self.same(
                    ct[1], kt):
                self.mismatch.append((node, ct, kt))
            return ct[2]
        if ct is not None and ct[0] == 'seq':
            return ct[1]
        return None

    def ty(self, e):
        if e is None:
            return None
        if isinstance(e, (ast.Name, ast.Attribute)):
            k = self.name_key(e)
            return self.env.get(k)
        if isinstance(e, ast.Subscript):
            return self.lookup(e, e.value, e.slice)
        if isinstance(e, ast.Tuple):
            return ('tuple',) + tuple(self.ty(x) for x in e.elts)
        if isinstance(e, ast.UnaryOp) and isinstance(e.op, ast.USub):
            return self.ty(e.operand)
        if isinstance(e, ast.Call):
            n = au.call_name(e)
            recv = e.func.value if isinstance(e.func, ast.Attribute) \
                else None
            if n == 'items' and recv is not None:
                t = self.ty(recv)
                if t and t[0] == 'map':
                    return t_seq(('tuple', t[1], t[2]))
                return None
            if n in ('keys',) and recv is not None:
                t = self.ty(recv)
                return t_seq(t[1]) if t and t[0] == 'map' else None
            if n in ('values',) and recv is not None:
                t = self.ty(recv)
                return t_seq(t[2]) if t and t[0] == 'map' else None
            if n == 'get' and recv is not None and e.args:
                return self.lookup(e, recv, e.args[0])
            if n in ('sorted', 'list', 'tuple', 'set', 'reversed',
                     'iter') and e.args:
                t = self.ty(e.args[0])
                el = self.elem(t)
                if el is None:
                    return None
                if n == 'sorted' and not e.keywords:
                    return ('seq', el, 'sorted')
                return t_seq(el)
            if n == 'enumerate' and e.args:
                t = self.ty(e.args[0])
                el = self.elem(t)
                if el is None:
                    return None
                srt = len(t) > 2 and t[2] == 'sorted'
                return t_seq(('tuple', ('rank' if srt else 'idx', el), el))
            if n == 'zip' and e.args:
                els = [self.elem(self.ty(a)) for a in e.args]
                return t_seq(('tuple',) + tuple(els))
            if n == 'abs' and e.args:
                return self.ty(e.args[0])
            if n == 'dict' and e.args:
                return self.ty(e.args[0])
            return None
        if isinstance(e, ast.DictComp):
            saved = dict(self.env)
            for g in e.generators:
                self.bind(g.target, self.elem(self.ty(g.iter)))
            t = t_map(self.ty(e.key), self.ty(e.value))
            self.env = saved
            return t
        if isinstance(e, (ast.ListComp, ast.SetComp, ast.GeneratorExp)):
            saved = dict(self.env)
            for g in e.generators:
                self.bind(g.target, self.elem(self.ty(g.iter)))
            t = t_seq(self.ty(e.elt))
            self.env = saved
            return t
        if isinstance(e, ast.Dict):
            return None
        return None

    def run(self, stmts):
        for s in stmts:
            if isinstance(s, ast.Assign) and len(s.targets) == 1:
                t = self.ty(s.value)
                tgt = s.targets[0]
                if isinstance(tgt, ast.Subscript):
                    continue
                self.bind(tgt, t)
            elif isinstance(s, ast.For):
                self.bind(s.target, self.elem(self.ty(s.iter)))
                self.run(s.body)
            elif isinstance(s, ast.If):
                self.ty(s.test)
                self.run(s.body)
                self.run(s.orelse)
            elif isinstance(s, ast.Expr):
                self.ty(s.value)
            # anything else: no effect on the types


# the DDDMP format, section "Header": what the info column of a node line
# holds for each value of .varinfo
INFO_DOMAIN = {0: 'VARID', 1: 'PERMID', 3: 'VAR'}
PARSER_SEEDS = {
    'self.var_ids': t_seq('VARID'),
    'self.permuted_var_ids': t_seq('PERMID'),
    'self.support_vars': t_seq('VAR'),
    'self.ordered_vars': t_seq('VAR'),
}
# .orderedvarnames lists all variables in the order of their levels: an
# index into it is a permutation ID
EQUIV = [{('idx', 'VAR'), 'PERMID'}]


def r_keys(P, R):
    # ---- dd.dddmp.load
    f = P.func('dd.dddmp.load')
    body = f.node.body
    seed = None
    for s in body:
        if isinstance(s, ast.Assign) and isinstance(
                s.targets[0], ast.Tuple) and len(
                    s.targets[0].elts) == 4 and isinstance(
                        s.value, ast.Call) and au.call_name(
                            s.value) == 'parse':
            seed = s
    if seed is None:
        raise AnalysisError(
            'R-KEYS: dd.dddmp.load no longer unpacks the four results of '
            'Parser.parse')
    inf = Infer(dict(), EQUIV)
    types = [t_map('NODE', ('tuple', 'PERMID', 'FILEREF', 'FILEREF')),
             'INT', t_map('VAR', 'PERMID'), t_seq('FILEREF')]
    for x, t in zip(seed.targets[0].elts, types):
        inf.bind(x, t)
    inf.run(body[body.index(seed) + 1:])
    for node, ct, kt in inf.mismatch:
        R.violation(
            'R-KEYS', 'key-domain', f.qualname, au.short(node, 30),
            f'`{au.short(node)}` looks up a {show(kt)} in a dictionary '
            f'whose keys are {show(ct[1])} (inferred type {show(ct)}): '
            'for a file whose levels have gaps (support variables only) '
            'the key is missing or belongs to another variable',
            unit=f.unit.rel, line=node.lineno)
    # (no floor: the loader model of rules/models.py decides load(); the
    # type inference is a second opinion where it reaches)
    if not inf.mismatch:
        R.holds('R-KEYS', f.qualname,
                f'{inf.lookups} dictionary lookups, each with a key of '
                'the domain of the dictionary\'s keys')
    # the level handed to find_or_add is of the domain of the new
    # manager's levels
    mgr = None
    for s in au.walk_no_defs(f.node):
        if isinstance(s, ast.Assign) and isinstance(
                s.value, ast.Call) and au.call_name(s.value) == 'BDD' \
                and s.value.args:
            mgr = s
    if mgr is not None:
        lt = inf.ty(mgr.value.args[0])
        for c in au.calls_in(f.node, 'find_or_add'):
            at = inf.ty(c.args[0]) if c.args else None
            if lt and lt[0] == 'map' and at is not None and lt[2] \
                    is not None:
                if inf.same(lt[2], at):
                    R.holds('R-KEYS', f.qualname,
                            f'`{au.short(c, 40)}`: level of domain '
                            f'{show(at)} = levels of the new manager')
                else:
                    R.violation(
                        'R-KEYS', 'level-domain', f.qualname,
                        'find_or_add',
                        f'`{au.short(c, 50)}` passes a {show(at)} as '
                        f'level; the manager was declared with levels of '
                        f'domain {show(lt[2])}', unit=f.unit.rel,
                        line=c.lineno)
    # ---- Parser._parse_header: the table from the info column to levels
    g = P.func('dd.dddmp.Parser._parse_header')
    n = 0
    au.set_parents(g.node)
    inf2 = Infer(PARSER_SEEDS, EQUIV)

    def arms(stmts):
        nonlocal n
        for s in stmts:
            if isinstance(s, ast.If):
                t = s.test
                vals = []
                for c in ast.walk(t):
                    if isinstance(c, ast.Compare) and len(
                            c.ops) == 1 and isinstance(
                                c.ops[0], ast.Eq) and au.const_int(
                                    c.comparators[0]) is not None and \
                            (isinstance(c.left, ast.Name)
                             or au.chain(c.left)):
                        vals.append(au.const_int(c.comparators[0]))
                sub = Infer(inf2.env, EQUIV)
                sub.run(s.body)
                for a in s.body:
                    if isinstance(a, ast.Assign) and au.chain(
                            a.targets[0]) == ['self', 'info2permid']:
                        mt = sub.env.get('self.info2permid')
                        for v in vals:
                            want = INFO_DOMAIN.get(v)
                            if want is None or mt is None or \
                                    mt[0] != 'map' or mt[1] is None:
                                continue
                            n += 1
                            if sub.same(mt[1], want):
                                R.holds(
                                    'R-KEYS', g.qualname,
                                    f'.varinfo {v}: info column '
                                    f'({want}) -> {show(mt)}')
                            else:
                                R.violation(
                                    'R-KEYS', 'varinfo-table',
                                    g.qualname, f'varinfo={v}',
                                    f'for .varinfo {v} the info column '
                                    f'of a node line holds a {want}, but '
                                    'the table it is looked up in is '
                                    f'{show(mt)} (`{au.short(a, 50)}`): '
                                    'nodes get the level of another '
                                    'variable, or the file is refused',
                                    unit=g.unit.rel, line=a.lineno)
                arms(s.orelse)
            elif isinstance(s, (ast.With, ast.For, ast.While, ast.Try)):
                arms(getattr(s, 'body', []))
    arms(g.node.body)
    # the levels returned to load(): variable -> permutation ID
    ret = [r for r in au.walk_no_defs(g.node) if isinstance(r, ast.Return)
           and isinstance(r.value, ast.Tuple) and r.value.elts]
    lv = ret[-1].value.elts[0] if ret else None
    if isinstance(lv, ast.Name):
        for blk in au.blocks_of(g.node):
            sub = Infer(PARSER_SEEDS, EQUIV)
            for s in blk:
                if isinstance(s, ast.Assign) and len(s.targets) == 1:
                    t = sub.ty(s.value)
                    sub.bind(s.targets[0], t)
                    if au.is_name(s.targets[0], lv.id) and t is not None \
                            and t[0] == 'map' and t[1] == 'VAR':
                        n += 1
                        if sub.same(t[2], 'PERMID'):
                            R.holds('R-KEYS', g.qualname,
                                    f'`{au.short(s, 40)}`: {show(t)}')
                        else:
                            R.violation(
                                'R-KEYS', 'levels-domain', g.qualname,
                                lv.id,
                                f'`{au.short(s, 60)}` maps variables to '
                                f'{show(t[2])}, not to permutation IDs '
                                '(the levels of the node lines)',
                                unit=g.unit.rel, line=s.lineno)
    # (no floor: the parser model of rules/models.py decides the tables;
    # the type inference is a second opinion where it reaches)
r_keys.NAME = 'R-KEYS'
