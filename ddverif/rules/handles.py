"""R-PAIR(b),(c): handle ownership and escape of raw nodes in dd.autoref."""
import ast

from .. import astutil as au
from .. import paths as pa
from ..callgraph import CallGraph
from ..frontend import AnalysisError

# calls on a dd.bdd manager (or module dd.bdd) that return node references
NODE_RETURNING = {
    'var', 'let', 'quantify', 'forall', 'exist', 'ite', 'find_or_add',
    'add_expr', 'apply', '_add_int', 'cube', 'copy', 'load', 'compose',
    'cofactor', 'rename', 'image', 'preimage', 'copy_bdd', 'succ',
    '_top_cofactor', 'reduction', '_load_pickle',
}
NODE_ATTRS = {'true', 'false'}
WRAPPERS = {'_wrap', 'Function', 'wrap'}


def count_calls(path, pred):
    n = 0
    for it in path:
        if it[0] == 'stmt':
            for c in au.calls_in(it[1]):
                if pred(c):
                    n += 1
    return n


def handle_ownership(P, R):
    init = P.func('dd.autoref.Function.__init__')
    dele = P.func('dd.autoref.Function.__del__')

    def is_inc(c):
        return au.call_name(c) == 'incref'

    def is_dec(c):
        return au.call_name(c) == 'decref'
    # constructor: exactly one count on every normal path, taken after the
    # acquisition and release: decided on a recording model manager
    from . import models
    models.handle_model(P, R)
    # copying a handle must not duplicate ownership
    cp = P.func('dd.autoref.Function.__copy__', required=False)
    if cp is None:
        R.violation(
            'R-PAIR', 'handle-copy', 'dd.autoref.Function', '__copy__',
            'Function acquires a reference in __init__ and releases it in '
            '__del__, but defines no __copy__: copy.copy(f) duplicates the '
            'handle without taking a reference, and dropping both copies '
            'releases the node twice (the second holder is left with a '
            'collectable node)', unit='dd/autoref.py',
            line=P.func('dd.autoref.Function.__init__').lineno)
    else:
        rets = [n for n in au.walk_no_defs(cp.node)
                if isinstance(n, ast.Return) and n.value is not None]
        ok = rets and all(
            au.is_name(r.value, 'self')     # one owner, no duplicate
            or (isinstance(r.value, ast.Call) and au.call_name(
                r.value) in ('Function', '_wrap', 'type'))
            or (isinstance(r.value, ast.Call) and isinstance(
                r.value.func, ast.Call))
            for r in rets)
        if ok:
            R.holds('R-PAIR', cp.qualname,
                    'a copy is a new handle built by the acquiring '
                    'constructor')
        else:
            R.violation(
                'R-PAIR', 'handle-copy', cp.qualname, '__copy__',
                '__copy__ does not build the copy through the acquiring '
                'constructor', unit=cp.unit.rel, line=cp.lineno)
    # no other method changes counts
    allowed = {'dd.autoref.Function.__init__', 'dd.autoref.Function.__del__',
               'dd.autoref.BDD.incref', 'dd.autoref.BDD.decref'}
    n = 0
    for f in P.all_funcs({'dd.autoref'}):
        for c in au.calls_in(f.node):
            if au.call_name(c) in ('incref', 'decref'):
                n += 1
                if f.qualname not in allowed:
                    R.violation(
                        'R-PAIR', 'stray-count', f.qualname,
                        au.call_name(c),
                        f'`{au.short(c)}` changes a reference count outside '
                        'the handle constructor / finaliser and the '
                        'explicit pass-throughs', unit=f.unit.rel,
                        line=c.lineno)
    R.holds('R-PAIR', 'dd.autoref', f'{n} count-changing call(s), all in '
            'the constructor, the finaliser and the two pass-throughs')
    # pass-throughs forward exactly the node of their argument
    for name in ('incref', 'decref'):
        f = P.func(f'dd.autoref.BDD.{name}')
        calls = [c for c in au.calls_in(f.node) if au.call_name(c) == name]
        prm = [x for x in f.params if x != 'self']
        if len(calls) == 1 and prm and au.call_recv(calls[0]) == [
                'self', '_bdd'] and len(calls[0].args) == 1 and au.src(
                    calls[0].args[0]).replace(' ', '') == f'{prm[0]}.node':
            R.holds('R-PAIR', f.qualname, 'forwards to the manager once')
        else:
            R.violation('R-PAIR', 'stray-count', f.qualname, name,
                        f'BDD.{name} is not a single forward of u.node',
                        unit=f.unit.rel, line=f.lineno)


def shutdown_check(P, R):
    from . import models
    models.shutdown_model(P, R)


def is_manager_recv(G, f, recv):
    t = G.type_of(f, recv, dict())
    return t == 'dd.bdd.BDD'


def raw_expr(G, f, e, raw_names):
    """Does expression `e` evaluate to (a container of) raw nodes?"""
    if isinstance(e, ast.Name):
        return e.id in raw_names
    if isinstance(e, ast.Call):
        name = au.call_name(e)
        if name in WRAPPERS or name == '_map_container':
            return False
        fn = e.func
        if isinstance(fn, ast.Attribute):
            ch = au.chain(fn.value)
            if ch == ['_bdd'] and name in NODE_RETURNING:
                return True
            if is_manager_recv(G, f, fn.value) and name in NODE_RETURNING:
                return True
        return False
    if isinstance(e, ast.Attribute):
        if e.attr in NODE_ATTRS and is_manager_recv(G, f, e.value):
            return True
        return False
    if isinstance(e, (ast.Tuple, ast.List)):
        return any(raw_expr(G, f, x, raw_names) for x in e.elts)
    if isinstance(e, ast.UnaryOp):
        return raw_expr(G, f, e.operand, raw_names)
    if isinstance(e, ast.IfExp):
        return raw_expr(G, f, e.body, raw_names) or raw_expr(
            G, f, e.orelse, raw_names)
    return False


def escape(P, R):
    """No public dd.autoref callable returns an unwrapped node."""
    G = CallGraph(P, ['dd.bdd', 'dd.autoref', 'dd._copy', 'dd._utils',
                      'dd._parser', 'dd._abc'])
    n_ret = 0
    n_wrapped = 0
    for f in sorted(P.all_funcs({'dd.autoref'}), key=lambda f: f.qualname):
        if f.qualname.count('.') > 3:
            continue
        for path in pa.function_paths(f.node):
            raw = set()
            for it in path:
                if it[0] != 'stmt':
                    continue
                s = it[1]
                if isinstance(s, ast.Assign):
                    is_raw = raw_expr(G, f, s.value, raw)
                    for t in s.targets:
                        if isinstance(t, ast.Name):
                            (raw.add if is_raw else raw.discard)(t.id)
                        elif isinstance(t, ast.Tuple):
                            # i, v, w = self._bdd.succ(...)
                            for x in t.elts:
                                if isinstance(x, ast.Name):
                                    (raw.add if is_raw
                                     else raw.discard)(x.id)
                        elif isinstance(t, ast.Attribute) and is_raw and \
                                au.chain(t) and au.chain(t)[0] == 'self' \
                                and f.cls == 'BDD':
                            R.violation(
                                'R-PAIR', 'raw-attribute', f.qualname,
                                t.attr, f'`{au.short(s)}` stores an '
                                'unreferenced node on the wrapper',
                                unit=f.unit.rel, line=s.lineno)
                if isinstance(s, ast.Return) and s.value is not None:
                    n_ret += 1
                    v = s.value
                    wrapped = any(
                        au.call_name(c) in WRAPPERS
                        or au.call_name(c) == '_map_container'
                        for c in ast.walk(v) if isinstance(c, ast.Call))
                    if wrapped:
                        n_wrapped += 1
                    leak = raw_expr(G, f, v, raw)
                    # `return i, wrap(v), wrap(w)`: the level is an int
                    if isinstance(v, ast.Tuple):
                        leak = any(
                            raw_expr(G, f, x, raw - {
                                n.id for n in [v.elts[0]]
                                if isinstance(n, ast.Name)})
                            for x in v.elts[1:])
                    if leak:
                        R.violation(
                            'R-PAIR', 'escape', f.qualname, 'return',
                            f'`{au.short(s, 70)}` returns a node of the '
                            'underlying manager without wrapping it in a '
                            'Function: nothing holds a reference and the '
                            'next collection can free it',
                            unit=f.unit.rel, line=s.lineno,
                            path=pa.describe(path))
    R.holds('R-PAIR', 'dd.autoref',
            f'{n_ret} return statements on paths examined, {n_wrapped} '
            'pass through _wrap / Function / _map_container, none returns '
            'a raw node')
    R.floor('R-PAIR wrapped returns in dd.autoref', n_wrapped, 20)
    wrap_target(P, R)
    parser_stack(P, R)


def wrap_target(P, R):
    # wrappers: the wrapping manager is the one that owns the node
    for q, want in (('dd.autoref.BDD.copy', 'other'),
                    ('dd.autoref.copy_bdd', 'target')):
        f = P.func(q)
        rets = [n for n in au.walk_no_defs(f.node)
                if isinstance(n, ast.Return) and isinstance(
                    n.value, ast.Call) and au.call_name(n.value) == '_wrap']
        ok = rets and all(au.call_recv(r.value) == [want] for r in rets)
        if ok:
            R.holds('R-DOMAIN', q, f'the copy is wrapped by the target '
                    f'manager `{want}`')
        else:
            R.violation(
                'R-DOMAIN', 'wrong-manager', q, '_wrap',
                f'the node created in the target manager `{want}` is '
                'wrapped by another manager', unit=f.unit.rel,
                line=f.lineno)


def r_wrap_target(P, R):
    wrap_target(P, R)
r_wrap_target.NAME = 'R-DOMAIN(copies wrapped by the target manager)'


def parser_stack(P, R):
    # the parser only ever sees the integer manager
    f = P.func('dd.autoref.BDD.add_expr')
    calls = [au.src(c).replace(' ', '') for c in au.calls_in(f.node)]
    if any(c.startswith('self._bdd.add_expr(') for c in calls) and not any(
            'add_expr(e,self)' in c or '_parser.' in c for c in calls):
        R.holds('R-PAIR', f.qualname, 'parses in the integer manager: the '
                'parser stack never holds Function objects')
    else:
        R.violation(
            'R-PAIR', 'parser-stack', f.qualname, 'add_expr',
            'dd.autoref hands itself to the parser: after a syntax error '
            'the cached LR stack keeps Function objects (and their '
            'references) alive', unit=f.unit.rel, line=f.lineno)



def r_parser(P, R):
    parser_stack(P, R)
    # the shared translator: bound to the manager of each call before the
    # grammar runs, dropped and restarted after a successful parse -
    # decided on the translator model
    from . import models
    models.translator_model(P, R)
r_parser.NAME = 'R-PAIR(parser state)'


def parser_binding(P, R):
    """The translator is one object shared by all managers and all calls
    (dd._parser caches it).  Whatever a call left in it - also a call that
    ended with an exception, which skips `_reset_state` - must not reach
    the next call: `parse` binds the manager it was given on every path
    before the grammar actions run, and reads nothing of the old state
    before that."""
    f = P.func('dd._parser._Translator.parse')
    g = P.func('dd._parser._Translator._reset_state')
    params = [a.arg for a in f.node.args.args if a.arg != 'self']
    state = set()
    for s in au.walk_no_defs(g.node):
        if isinstance(s, ast.Assign) and isinstance(
                s.value, ast.Constant) and s.value.value is None:
            ch = au.chain(s.targets[0])
            if ch and ch[0] == 'self' and len(ch) == 2:
                state.add(ch[1])
    if not state:
        raise AnalysisError(
            'R-PAIR/parser-binding: _reset_state drops no attribute')
    protected = any(
        isinstance(t, ast.Try) and any(
            au.call_name(c) == '_reset_state'
            for st in t.finalbody for c in au.calls_in(st))
        for t in au.walk_no_defs(f.node))
    n_paths = 0
    for path in pa.function_paths(f.node):
        n_paths += 1
        bound = set()
        for it in path:
            node = it[1] if it[0] in ('stmt', 'test') else None
            if node is None:
                continue
            is_bind = None
            if it[0] == 'stmt' and isinstance(node, ast.Assign):
                ch = au.chain(node.targets[0])
                if ch and ch[0] == 'self' and len(ch) == 2 and \
                        ch[1] in state and isinstance(
                            node.value, ast.Name) and \
                        node.value.id in params:
                    is_bind = ch[1]
            reads = set()
            scan = node.value if is_bind else node
            for x in ast.walk(scan):
                if isinstance(x, ast.Attribute) and isinstance(
                        x.ctx, ast.Load) and au.chain(x) and au.chain(
                            x)[:1] == ['self'] and x.attr in state and \
                        len(au.chain(x)) == 2:
                    reads.add(x.attr)
            stale = reads - bound
            if stale and not protected:
                a = sorted(stale)[0]
                R.violation(
                    'R-PAIR', 'parser-stale-state', f.qualname, a,
                    f'`{au.short(node, 60)}` reads `self.{a}` before '
                    'this call has bound it: the value is what the '
                    'previous call left behind, and a call that ended '
                    'with an exception (undeclared variable, request '
                    'for reordering) does not reset it - the cached '
                    'translator then works for, or refuses, the wrong '
                    'manager', unit=f.unit.rel, line=node.lineno)
            if is_bind:
                bound.add(is_bind)
            calls_super = any(
                au.call_name(c) == 'parse' for c in au.calls_in(node))
            if calls_super:
                missing = state - bound
                if missing:
                    R.violation(
                        'R-PAIR', 'parser-unbound', f.qualname,
                        sorted(missing)[0],
                        f'a path reaches `{au.short(node, 50)}` without '
                        f'binding `self.{sorted(missing)[0]}` to the '
                        'argument of this call: the grammar actions '
                        'build nodes in the manager of an earlier call',
                        unit=f.unit.rel, line=node.lineno,
                        path=pa.describe(path))
                break
    R.holds('R-PAIR', f.qualname,
            f'{n_paths} path(s): state {sorted(state)} is bound from the '
            'arguments before the grammar runs and not read before')



def operands_held(P, R):
    """A dd.autoref method keeps its arguments bound while the integer
    manager works.  The caller may pass temporaries (`bdd.let({x: f & g},
    u)`): in CPython >= 3.11 the arguments of a Python-to-Python call live
    in the callee's frame only, so rebinding or deleting a parameter drops
    the last reference, `Function.__del__` releases the node, and a
    manager call that reorders (sifting collects garbage) frees it while
    it is still an operand."""
    G = CallGraph(P)
    reordering = set()
    for f in P.methods('dd.bdd', 'BDD'):
        seen, todo = set(), [f.qualname]
        while todo:
            q = todo.pop()
            if q in seen:
                continue
            seen.add(q)
            g = P.func(q, required=False)
            if g is not None and (reord_decorated(g) or g.name in (
                    'collect_garbage', '_request_reordering')):
                reordering.add(f.name)
                break
            todo.extend(e.callee for e in G.out.get(q, []) if e.callee)
    R.count('manager methods that may reorder or collect',
            len(reordering))
    if len(reordering) < 5:
        raise AnalysisError(
            f'R-PAIR/operands-held: only {len(reordering)} decorated '
            'manager methods found')
    n = 0
    for f in sorted(P.all_funcs({'dd.autoref'}), key=lambda f: f.qualname):
        a = f.node.args
        params = {p.arg for p in a.posonlyargs + a.args + a.kwonlyargs}
        if a.vararg:
            params.add(a.vararg.arg)
        if a.kwarg:
            params.add(a.kwarg.arg)
        params.discard('self')
        calls = [c for c in au.calls_in(f.node)
                 if au.call_name(c) in reordering and (
                     au.call_recv(c) or [None])[-1] in ('_bdd', 'bdd')]
        if not calls or not params:
            continue
        n += 1
        last = max(c.lineno for c in calls)
        bad = None
        for s in au.walk_no_defs(f.node):
            tg = []
            if isinstance(s, ast.Assign):
                tg = s.targets
            elif isinstance(s, (ast.AugAssign, ast.AnnAssign)):
                tg = [s.target]
            elif isinstance(s, ast.Delete):
                tg = s.targets
            elif isinstance(s, (ast.For, ast.AsyncFor)):
                tg = [s.target]
            elif isinstance(s, ast.With):
                tg = [i.optional_vars for i in s.items if i.optional_vars]
            for t in tg:
                for x in ast.walk(t):
                    if isinstance(x, ast.Name) and x.id in params and \
                            isinstance(x.ctx, (ast.Store, ast.Del)) and \
                            s.lineno <= last:
                        bad = bad or (s, x.id)
        if bad:
            s, name = bad
            c = min(calls, key=lambda c: c.lineno)
            R.violation(
                'R-PAIR', 'operand-released-early', f.qualname, name,
                f'`{au.short(s, 60)}` rebinds the parameter `{name}` '
                f'before `{au.short(c, 40)}` has returned: if the caller '
                'passed a temporary, its Function objects are destroyed '
                'here, their nodes lose the reference that protects '
                'them, and a reordering inside the manager call collects '
                'nodes that are still operands', unit=f.unit.rel,
                line=s.lineno)
        else:
            R.holds('R-PAIR', f.qualname,
                    f'parameters {sorted(params)} stay bound across '
                    f'{len(calls)} reordering manager call(s)',
                    nontrivial=False)
    R.floor('R-PAIR operands held across reordering calls', n, 5)


def numbers_kept(P, R):
    """dd._copy works through the reference-counting interface.  A node
    number put aside in a container (`cache[k] = int(u)`) is not a
    reference: unless the same block takes an explicit count
    (`bdd.incref(u)`), the node may be collected, and its number given to
    another node, before the container is read again."""
    n = 0
    for f in sorted(P.all_funcs({'dd._copy'}), key=lambda f: f.qualname):
        for blk in au.blocks_of(f.node):
            for s in blk:
                if not (isinstance(s, ast.Assign) and isinstance(
                        s.targets[0], ast.Subscript)):
                    continue
                v = s.value
                if not (isinstance(v, ast.Call) and au.call_name(
                        v) == 'int' and len(v.args) == 1 and isinstance(
                            v.args[0], ast.Name)):
                    continue
                h = v.args[0].id
                cont = au.chain(s.targets[0].value)
                if not cont or cont[0] not in f.params:
                    continue
                n += 1
                kept = any(
                    au.call_name(c) == 'incref' and c.args and au.is_name(
                        c.args[0], h)
                    for t in blk for c in au.calls_in(t))
                if kept:
                    R.holds('R-PAIR', f.qualname,
                            f'`{au.short(s, 50)}` is paired with '
                            f'incref({h})')
                else:
                    R.violation(
                        'R-PAIR', 'number-without-reference', f.qualname,
                        au.short(s.targets[0].value, 30),
                        f'`{au.short(s, 60)}` keeps the number of node '
                        f'`{h}` but no reference to it: when `{h}` goes '
                        'out of scope the node can be collected (a '
                        'reordering in a later manager call does that) '
                        'and the number read back from the container '
                        'denotes a deleted or re-used node',
                        unit=f.unit.rel, line=s.lineno)
    R.floor('R-PAIR node numbers kept with a reference', n, 1)


def r_numbers(P, R):
    numbers_kept(P, R)
r_numbers.NAME = 'R-PAIR(node numbers kept with a reference)'


def reord_decorated(f):
    return '_try_to_reorder' in f.decorators


def r_handles(P, R):
    operands_held(P, R)
    numbers_kept(P, R)
    handle_ownership(P, R)
    shutdown_check(P, R)
    escape(P, R)
r_handles.NAME = 'R-PAIR(handles, escape)'
