"""R-SIGN: complement-sign accounting (DESIGN.md section 4).

A function that looks a node up by the absolute value of a *subject*
reference has to put the sign of the subject back into what it returns,
yields or emits, on every path on which the observed value derives from
the looked-up data.  The analysis is an information-flow argument along
enumerated paths: *derived* (from a stripped lookup) and *sign-dependent*
(from an un-stripped use of the subject, or control-dependent on a test of
its sign) are propagated through assignments.
"""
import ast

from .. import astutil as au
from .. import paths as pa
from ..frontend import AnalysisError


STRIP_ATTRS = {'low', 'high', 'level', 'var'}
STRIP_CALLS = {'abs', 'Cudd_Regular'}
MUTATORS = {'update', 'add', 'append', 'extend', 'setdefault', 'insert'}


class Ctx:
    def __init__(self, fn, subject, strip_helpers=()):
        self.fn = fn
        self.subject = subject
        self.strip_helpers = set(strip_helpers)


def local_strip_helpers(fn):
    """Local `def f(x): return str(abs(x))`-style helpers that strip."""
    out = set()
    for s in fn.body:
        if isinstance(s, ast.FunctionDef) and len(s.args.args) == 1:
            p = s.args.args[0].arg
            rets = [n for n in ast.walk(s) if isinstance(n, ast.Return)]
            if len(rets) == 1 and rets[0].value is not None:
                e = rets[0].value
                names = [n for n in ast.walk(e)
                         if isinstance(n, ast.Name) and n.id == p]
                if names and all(_under_strip(n, {p}, set()) for n in names):
                    out.add(s.name)
    return out


def _under_strip(name_node, unstripped, helpers):
    """Is this Name occurrence inside a strip form of itself?"""
    p = getattr(name_node, '_parent', None)
    if isinstance(p, ast.Call) and name_node in p.args:
        cn = au.call_name(p)
        if cn in STRIP_CALLS or cn in helpers:
            return True
        if cn == '_flip' and len(p.args) == 2 and all(
                isinstance(a, ast.Name) and a.id == name_node.id
                for a in p.args):
            return True
    if isinstance(p, ast.Attribute) and p.value is name_node and \
            p.attr in STRIP_ATTRS:
        return True
    return False


def _annotate(node):
    for n in ast.walk(node):
        for c in ast.iter_child_nodes(n):
            if not hasattr(c, '_parent'):
                c._parent = n


class Flow:
    """Forward state along one path."""

    def __init__(self, ctx):
        self.ctx = ctx
        self.unstripped = {ctx.subject}
        self.tainted = set()
        self.dep = set()
        self.dep_ifs = []
        self.fresh = set()      # names (re)assigned on this path
        self.weak_dep = set()   # containers made sign-dependent in place
        self.pure_strip = set()  # names bound to abs(subject) itself

    # --- expression predicates
    def has_strip(self, e):
        """`e` contains a stripped occurrence of the subject."""
        for n in ast.walk(e):
            if isinstance(n, ast.Name) and n.id in self.unstripped and \
                    _under_strip(n, self.unstripped, self.ctx.strip_helpers):
                return True
        return False

    def uses_unstripped(self, e):
        for n in ast.walk(e):
            if isinstance(n, ast.Name) and n.id in self.unstripped and \
                    not _under_strip(n, self.unstripped,
                                     self.ctx.strip_helpers):
                return True
        return False

    def uses(self, e, names):
        return any(isinstance(n, ast.Name) and n.id in names
                   for n in ast.walk(e))

    def is_tainted(self, e):
        return self.has_strip(e) or self.uses(e, self.tainted)

    def is_dep(self, e):
        return self.uses_unstripped(e) or self.uses(e, self.dep)

    def is_sign_test(self, e):
        """Does test `e` examine the sign of the subject (or of a
        sign-dependent variable)?"""
        for n in ast.walk(e):
            if isinstance(n, ast.Compare) and len(n.ops) == 1 and \
                    isinstance(n.ops[0], (ast.Lt, ast.Gt, ast.LtE, ast.GtE)):
                sides = [n.left, n.comparators[0]]
                for a, b in (sides, sides[::-1]):
                    if isinstance(a, ast.Name) and a.id in self.unstripped \
                            and au.const_int(b) == 0:
                        return True
            if isinstance(n, ast.Attribute) and n.attr == 'negated' and \
                    isinstance(n.value, ast.Name) and \
                    n.value.id in self.unstripped:
                return True
            if isinstance(n, ast.Call) and au.call_name(n) in (
                    'Cudd_IsComplement',) and n.args and isinstance(
                        n.args[0], ast.Name) and \
                    n.args[0].id in self.unstripped:
                return True
        # control dependence on a sign-dependent variable
        if self.uses(e, self.dep):
            return True
        return False

    def inside_dep_arm_node(self, node):
        return self.inside_dep_arm(node)

    def inside_dep_arm(self, node):
        p = node
        while p is not None:
            if p in self.dep_ifs:
                return True
            p = getattr(p, '_parent', None)
        return False

    # --- transfer
    def assign(self, targets, value):
        """targets: list of target exprs; value: expr or None."""
        if value is None:
            return
        # element-wise tuple assignment
        if len(targets) == 1 and isinstance(
                targets[0], (ast.Tuple, ast.List)) and isinstance(
                    value, (ast.Tuple, ast.List)) and len(
                        targets[0].elts) == len(value.elts):
            # evaluate all right sides in the old state first
            facts = [(self.is_tainted(v), self.is_dep(v), v)
                     for v in value.elts]
            for t, (ta, de, v) in zip(targets[0].elts, facts):
                self._store(t, ta, de, v)
            return
        ta, de = self.is_tainted(value), self.is_dep(value)
        for t in targets:
            self._store(t, ta, de, value)

    def _store(self, target, tainted, dep, value):
        if isinstance(target, ast.Name):
            names = [target.id]
            weak = False
        elif isinstance(target, (ast.Tuple, ast.List)):
            names = sorted(au.target_names(target)) or [
                n.id for n in ast.walk(target) if isinstance(n, ast.Name)]
            weak = False
        elif isinstance(target, ast.Starred):
            return self._store(target.value, tainted, dep, value)
        else:
            # x[k] = v / x.a = v : weak update of the container
            base = target
            while isinstance(base, (ast.Subscript, ast.Attribute)):
                base = base.value
            if not isinstance(base, ast.Name):
                return
            names = [base.id]
            weak = True
        for nm in names:
            alias = isinstance(value, ast.Name) and \
                value.id in self.unstripped
            if not weak and nm == self.ctx.subject and not any(
                    isinstance(n, ast.Name) and n.id == nm
                    for n in ast.walk(value)):
                # the subject is (re)bound from other data: a fresh,
                # un-stripped reference
                self.unstripped.add(nm)
                self.tainted.discard(nm)
                self.dep.discard(nm)
                continue
            if weak:
                if tainted:
                    self.tainted.add(nm)
                if dep or any(self.inside_dep_arm_node(target)
                              for _ in (0,)):
                    self.dep.add(nm)
                    self.weak_dep.add(nm)
                continue
            self.fresh.add(nm)
            self.weak_dep.discard(nm)
            if alias:
                self.unstripped.add(nm)
            elif nm in self.unstripped:
                self.unstripped.discard(nm)
            (self.tainted.add if tainted else self.tainted.discard)(nm)
            (self.dep.add if dep else self.dep.discard)(nm)
            (self.pure_strip.add if self._is_pure_strip(value)
             else self.pure_strip.discard)(nm)

    def _is_pure_strip(self, value):
        """`abs(u)` / a local strip helper of the subject itself (not
        something looked up with it)."""
        if isinstance(value, ast.Name):
            return value.id in self.pure_strip
        if isinstance(value, ast.Call) and len(value.args) == 1 and \
                not value.keywords and isinstance(value.args[0], ast.Name):
            cn = au.call_name(value)
            return (cn in STRIP_CALLS or cn in self.ctx.strip_helpers) \
                and (value.args[0].id in self.unstripped
                     or value.args[0].id in self.pure_strip)
        return False

    def stmt(self, s):
        if isinstance(s, ast.Assign):
            self.assign(s.targets, s.value)
        elif isinstance(s, ast.AnnAssign):
            self.assign([s.target], s.value)
        elif isinstance(s, ast.AugAssign):
            ta = self.is_tainted(s.value) or self.is_tainted(s.target)
            de = self.is_dep(s.value) or self.is_dep(s.target)
            for nm in [n.id for n in ast.walk(s.target)
                       if isinstance(n, ast.Name)][:1]:
                if ta:
                    self.tainted.add(nm)
                if de:
                    self.dep.add(nm)
        elif isinstance(s, ast.Expr) and isinstance(s.value, ast.Call):
            c = s.value
            if isinstance(c.func, ast.Attribute) and \
                    c.func.attr in MUTATORS and isinstance(
                        c.func.value, ast.Name):
                nm = c.func.value.id
                argexprs = list(c.args) + [k.value for k in c.keywords]
                if any(self.is_tainted(a) for a in argexprs):
                    self.tainted.add(nm)
                if any(self.is_dep(a) for a in argexprs) or \
                        self.inside_dep_arm(s):
                    self.dep.add(nm)
                    self.weak_dep.add(nm)
        elif isinstance(s, (ast.With,)):
            for it in s.items:
                if it.optional_vars is not None:
                    self.assign([it.optional_vars], it.context_expr)

    def enter_test(self, expr, ifnode):
        if self.is_sign_test(expr):
            self.dep_ifs.append(ifnode)
            assigned = set()
            body = getattr(ifnode, 'body', [])
            orelse = getattr(ifnode, 'orelse', [])
            if isinstance(body, list):
                for st in body + (orelse if isinstance(orelse, list)
                                  else []):
                    for n in au.walk_no_defs(st):
                        if isinstance(n, (ast.Assign, ast.AugAssign,
                                          ast.AnnAssign, ast.For)):
                            assigned |= au.assigned_names(n)
                            if isinstance(n, ast.Assign):
                                for t in n.targets:
                                    b = t
                                    while isinstance(b, (ast.Subscript,
                                                         ast.Attribute)):
                                        b = b.value
                                    if isinstance(b, ast.Name):
                                        assigned.add(b.id)
                        if isinstance(n, ast.Call) and isinstance(
                                n.func, ast.Attribute) and \
                                n.func.attr in MUTATORS and isinstance(
                                    n.func.value, ast.Name):
                            assigned.add(n.func.value.id)
                            self.weak_dep.add(n.func.value.id)
                        if isinstance(n, ast.Assign):
                            for t in n.targets:
                                if isinstance(t, ast.Subscript) and \
                                        isinstance(t.value, ast.Name):
                                    self.weak_dep.add(t.value.id)
            self.dep |= assigned


def expr_sign_dependent(flow, e):
    """Value `e` depends on the sign of the subject."""
    if flow.is_dep(e):
        return True
    for n in ast.walk(e):
        if isinstance(n, ast.IfExp) and flow.is_sign_test(n.test):
            return True
    return False


def check_function(R, func, subject, mode='return', emit=(),
                   scope=None, rule='R-SIGN', graphs=('g',)):
    """Decide one instance.  Returns the number of observed paths.

    mode 'return': observations are return / yield values;
    mode 'emit'  : observations are calls named in `emit`.
    `scope`      : statement list to analyse instead of the whole body
                   (a loop body, for loop-subject instances).
    """
    fn = func.node
    _annotate(fn)
    helpers = local_strip_helpers(fn)
    ctx = Ctx(fn, subject, helpers)
    try:
        if scope is None:
            plist = pa.function_paths(fn)
        else:
            plist = []
            for items, out in pa.block_paths(scope):
                plist.append(items + [('exit', fn, out)])
    except pa.PathExplosion:
        R.undecided(rule, func.qualname, f'subject {subject}',
                    'path explosion')
        return 0
    R.count('paths', len(plist))
    observed = 0
    bad = []
    stale = []
    signed_id = []
    bad_store = []
    raw_decision = []
    unsigned_id = []
    stores = 0
    memo_params = set(func.params) - {subject, 'self'}
    for path in plist:
        flow = Flow(ctx)
        for it in path:
            kind = it[0]
            if kind == 'test':
                if mode == 'emit':
                    for n2 in ast.walk(it[1]):
                        if isinstance(n2, ast.Compare) and len(
                                n2.ops) == 1 and isinstance(
                                    n2.ops[0], (ast.In, ast.NotIn)) and \
                                isinstance(n2.comparators[0], ast.Name) \
                                and n2.comparators[0].id in graphs and \
                                isinstance(n2.left, ast.Name) and \
                                flow.uses_unstripped(n2.left):
                            signed_id.append((path, n2))
                if mode == 'return' and not flow.is_sign_test(it[1]):
                    for n2 in ast.walk(it[1]):
                        if not (isinstance(n2, ast.Compare) and len(
                                n2.ops) == 1 and isinstance(
                                    n2.ops[0], (ast.Eq, ast.NotEq, ast.Is,
                                                ast.IsNot))):
                            continue
                        a, b = n2.left, n2.comparators[0]
                        for x, y in ((a, b), (b, a)):
                            if isinstance(x, ast.Name) and \
                                    x.id in flow.tainted and \
                                    x.id not in flow.dep and \
                                    x.id not in flow.pure_strip and \
                                    au.const_int(y) in (1, -1):
                                raw_decision.append((path, n2, x.id))
                flow.enter_test(it[1], it[3])
            elif kind == 'loop':
                node = it[1]
                if isinstance(node, ast.For) and it[2] >= 1:
                    flow.assign([node.target], node.iter)
                elif isinstance(node, ast.While):
                    flow.enter_test(node.test, node)
            elif kind == 'stmt':
                s = it[1]
                if mode == 'emit':
                    for c in au.calls_in(s):
                        # (name, i): argument i is the identity of what
                        # is emitted and must itself carry the sign
                        for spec in emit:
                            if isinstance(spec, tuple) and au.call_name(
                                    c) == spec[0] and len(
                                        c.args) > spec[1]:
                                a = c.args[spec[1]]
                                if flow.is_tainted(a) or \
                                        flow.uses_unstripped(a) or \
                                        flow.uses(a, flow.dep):
                                    observed += 1
                                if flow.is_tainted(a) and not \
                                        expr_sign_dependent(flow, a):
                                    unsigned_id.append((path, c, a))
                        if au.call_name(c) in emit:
                            argexprs = list(c.args) + [
                                k.value for k in c.keywords]
                            if any(flow.is_tainted(a) for a in argexprs):
                                observed += 1
                                ok = any(expr_sign_dependent(flow, a)
                                         for a in argexprs) or \
                                    flow.inside_dep_arm(s)
                                if not ok:
                                    bad.append((path, c))
                                carriers = {
                                    n.id for a in argexprs
                                    for n in ast.walk(a)
                                    if isinstance(n, ast.Name)
                                    and n.id in flow.weak_dep
                                    and n.id not in flow.fresh}
                                if carriers and scope is not None:
                                    stale.append((path, c, carriers))
                if mode == 'return':
                    # yields
                    for n in au.walk_no_defs(s):
                        if isinstance(n, (ast.Yield, ast.YieldFrom)) and n.value is not None:
                            if flow.is_tainted(n.value):
                                observed += 1
                                ok = expr_sign_dependent(flow, n.value) or \
                                    flow.inside_dep_arm(s)
                                if not ok:
                                    bad.append((path, n))
                    if isinstance(s, ast.Return) and s.value is not None:
                        if flow.is_tainted(s.value):
                            observed += 1
                            ok = expr_sign_dependent(flow, s.value) or \
                                flow.inside_dep_arm(s)
                            if not ok:
                                bad.append((path, s))
                if mode == 'return' and isinstance(s, ast.Assign) and \
                        len(s.targets) == 1 and isinstance(
                            s.targets[0], ast.Subscript) and isinstance(
                                s.targets[0].value, ast.Name) and \
                        s.targets[0].value.id in memo_params:
                    key = s.targets[0].slice
                    val = s.value
                    stores += 1
                    if flow.uses_unstripped(key):
                        if flow.is_tainted(val) and not (
                                expr_sign_dependent(flow, val)
                                or flow.inside_dep_arm(s)):
                            bad_store.append((
                                path, s,
                                'is stored under the signed key '
                                f'`{au.short(key)}` before the complement '
                                f'of `{subject}` is applied'))
                    elif flow.is_tainted(key):
                        if expr_sign_dependent(flow, val):
                            bad_store.append((
                                path, s,
                                'is stored under the sign-free key '
                                f'`{au.short(key)}` after the complement '
                                f'of `{subject}` was applied'))
                flow.stmt(s)
    if stale:
        path, node, carriers = stale[0]
        R.violation(
            rule, 'loop-carried', func.qualname, ','.join(sorted(carriers)),
            f'`{au.short(node, 60)}` takes the complement mark from '
            f'{sorted(carriers)}, which is created outside the loop and '
            'only updated when a reference is complemented: after one '
            'complemented reference every later one is marked too',
            unit=func.unit.rel, line=node.lineno, path=pa.describe(path))
    if unsigned_id:
        path, node, a = unsigned_id[0]
        R.violation(
            rule, 'unsigned-identity', func.qualname, au.short(a, 30),
            f'`{au.short(node, 60)}`: the name `{au.short(a, 30)}` under '
            f'which the reference `{subject}` is drawn is computed from '
            f'abs({subject}) only, so a function and its negation, both '
            'given as roots, are drawn as ONE external reference (the '
            'second overwrites the label of the first and adds a second, '
            'contradictory edge)', unit=func.unit.rel, line=node.lineno,
            path=pa.describe(path))
    if raw_decision:
        path, node, name = raw_decision[0]
        R.violation(
            rule, 'decision-before-sign', func.qualname, name,
            f'`{au.short(node)}` compares the stored successor `{name}` '
            f'of abs({subject}) with a terminal before the complement of '
            f'`{subject}` has been pushed into it: for a complemented '
            f'`{subject}` the successor is the other terminal, so the '
            'shortcut fires for the wrong constant', unit=func.unit.rel,
            line=node.lineno, path=pa.describe(path))
    if signed_id:
        path, node = signed_id[0]
        R.violation(
            rule, 'signed-identity', func.qualname, au.short(node, 40),
            f'`{au.short(node)}` tests the signed reference against the '
            'graph, whose nodes are unsigned: a complemented successor is '
            'never found and is expanded again (duplicate edges)',
            unit=func.unit.rel, line=node.lineno, path=pa.describe(path))
    if bad_store:
        path, node, why = bad_store[0]
        R.violation(
            rule, 'memo-sign', func.qualname, f'{subject}',
            f'memo entry `{au.short(node, 60)}`: the result {why}; a later '
            'hit with the other sign returns the wrong polarity',
            unit=func.unit.rel, line=node.lineno, path=pa.describe(path),
            stmts=[au.short(node, 120)])
    elif stores:
        R.holds(rule, func.qualname,
                f'memo stores of `{subject}`-keyed results are made on the '
                f'right side of the sign fix-up ({stores} store(s) on '
                'paths)')
    what = (f'subject `{subject}`: {observed} observation(s) of '
            f'looked-up data on {len(plist)} path(s)')
    if bad:
        path, node = bad[0]
        R.violation(
            rule, 'sign-lost', func.qualname,
            f'{subject}',
            f'the value `{au.short(node, 70)}` derives from a lookup under '
            f'abs({subject}) but does not depend on the sign of '
            f'`{subject}` on this path ({len(bad)} such path(s)): a '
            'complemented reference is treated like a regular one',
            unit=func.unit.rel, line=getattr(node, 'lineno', func.lineno),
            path=pa.describe(path),
            stmts=[au.short(node, 120)])
    elif observed == 0:
        R.undecided(rule, func.qualname, f'subject `{subject}`',
                    'no observation derives from a stripped lookup')
    else:
        R.holds(rule, func.qualname, what)
    return observed


# ------------------------------------------------------------------ instances
# (qualname, subject, mode, emit, scope selector)
def loop_over(fn, target_has, nth=0):
    """Body of the `nth` `for` loop whose target binds `target_has`."""
    loops = [n for n in au.walk_no_defs(fn)
             if isinstance(n, ast.For) and target_has in au.target_names(
                 n.target)]
    loops.sort(key=lambda n: n.lineno)
    if nth < len(loops):
        return loops[nth].body
    return None


PARAM_INSTANCES = {
    'C01': [('dd.bdd.BDD._top_cofactor', 'u')],
    # every route by which a function can be built
    'C02': [('dd.bdd.BDD._top_cofactor', 'u'),
            ('dd.bdd.BDD._cofactor', 'u'), ('dd.bdd.BDD._compose', 'f'),
            ('dd.bdd.BDD._vector_compose', 'f'),
            ('dd.bdd.BDD._quantify', 'u'), ('dd.bdd._copy_bdd', 'u'),
            ('dd.bdd.BDD._load', 'u')],
    'C03': [('dd.bdd.BDD._quantify', 'u'),
            ('dd.bdd.BDD._top_cofactor', 'u')],
    'C04': [('dd.bdd.BDD._cofactor', 'u'), ('dd.bdd.BDD._compose', 'f'),
            ('dd.bdd.BDD._vector_compose', 'f'), ('dd.bdd._copy_bdd', 'u'),
            ('dd.bdd.BDD._top_cofactor', 'u')],
    'C05': [('dd.bdd.BDD._to_expr', 'u')],
    'C10': [('dd.bdd.BDD._sat_len', 'u'), ('dd.bdd.BDD._sat_iter', 'u')],
    'C11': [('dd.bdd._copy_bdd', 'u'), ('dd._copy._copy_bdd', 'u')],
    'C12': [('dd.bdd.BDD._load', 'u'), ('dd.bdd.BDD.load.map_node', 'u'),
            ('dd._copy._dump_bdd', 'u'), ('dd._copy._node_from_int', 'uid'),
            ('dd._copy._node_to_int', 'u')],
    'C13': [('dd.bdd.BDD._top_cofactor', 'u')],
    'C15': [('dd.mdd.MDD._top_cofactor', 'u')],
}
# loop-subject instances: (qualname, selector, emit calls[, 'optional'])
# A selector finds the loop *structurally* (never by the names of locals)
# and returns (loop body, subject name) or None.
def _fors(fn):
    return sorted((n for n in au.walk_no_defs(fn) if isinstance(n, ast.For)),
                  key=lambda n: n.lineno)


def _iter_resolved(fn, it):
    """The iterable of a `for`, with a plain local name resolved to the
    expression it was assigned from."""
    if isinstance(it, ast.Name):
        defs = au.assignments_to(fn, it.id)
        if len(defs) == 1:
            return defs[0].value
    return it


def _triple_unpack(stmts):
    """First `a, b, c = <x>._succ[...]` below `stmts` -> the Assign."""
    for st in stmts:
        for n in au.walk_no_defs(st):
            if isinstance(n, ast.Assign) and isinstance(
                    n.targets[0], ast.Tuple) and len(
                        n.targets[0].elts) == 3 and isinstance(
                            n.value, ast.Subscript):
                ch = au.chain(n.value.value)
                if ch and ch[-1] == '_succ':
                    return n
    return None


def sel_levels_loop(fn):
    """`for u, i, v, w in <...levels(...)>` -> subject = low successor."""
    for lp in _fors(fn):
        it = _iter_resolved(fn, lp.iter)
        if isinstance(it, ast.Call) and au.call_name(it) == 'levels' and \
                isinstance(lp.target, ast.Tuple) and len(
                    lp.target.elts) == 4 and isinstance(
                        lp.target.elts[2], ast.Name):
            return lp.body, lp.target.elts[2].id
    return None


def sel_attr_loop(attr):
    """`for x in self.<attr>` -> subject = x."""
    def sel(fn):
        for lp in _fors(fn):
            ch = au.chain(lp.iter)
            if ch and ch[-1] == attr and isinstance(lp.target, ast.Name):
                return lp.body, lp.target.id
        return None
    return sel


def sel_items_triple(fn):
    """`for u, (k, v, w) in <table>.items()` -> subject = v."""
    for lp in _fors(fn):
        t = lp.target
        if isinstance(lp.iter, ast.Call) and au.call_name(
                lp.iter) == 'items' and isinstance(t, ast.Tuple) and len(
                    t.elts) == 2 and isinstance(
                        t.elts[1], ast.Tuple) and len(
                            t.elts[1].elts) == 3 and isinstance(
                                t.elts[1].elts[1], ast.Name):
            return lp.body, t.elts[1].elts[1].id
    return None


def sel_roots_add(fn):
    """top-level `for r in <roots>` whose body adds to `<mgr>.roots`."""
    for lp in _fors(fn):
        if lp in fn.body and isinstance(lp.target, ast.Name) and any(
                au.call_name(c) in ('add', 'update') and au.call_recv(
                    c) and au.call_recv(c)[-1] == 'roots'
                for c in au.calls_in(lp)):
            return lp.body, lp.target.id
    return None


def sel_param_loop_triple(param):
    """`for x in <param>` (outermost) whose body unpacks a successor
    triple -> subject = the low successor of that triple."""
    def sel(fn):
        for lp in _fors(fn):
            if au.is_name(lp.iter, param):
                tu = _triple_unpack(lp.body)
                if tu is not None and isinstance(
                        tu.targets[0].elts[1], ast.Name):
                    return lp.body, tu.targets[0].elts[1].id
        return None
    return sel


def sel_triple_loop_with(call):
    """The loop whose body unpacks a successor triple and calls `call`
    -> subject = the low successor."""
    def sel(fn):
        for lp in _fors(fn):
            if lp not in fn.body:
                continue
            tu = _triple_unpack(lp.body)
            if tu is not None and any(au.call_name(c) == call
                                      for c in au.calls_in(lp)) and \
                    isinstance(tu.targets[0].elts[1], ast.Name):
                return lp.body, tu.targets[0].elts[1].id
        return None
    return sel


def sel_param_loop(param, nth=-1):
    """`for x in <param>` (the nth such loop) -> subject = x."""
    def sel(fn):
        loops = [lp for lp in _fors(fn) if au.is_name(lp.iter, param)
                 and isinstance(lp.target, ast.Name)]
        if loops:
            lp = loops[nth]
            return lp.body, lp.target.id
        return None
    return sel


LOOP_INSTANCES = {
    'C02': [('dd.bdd.BDD.reduction', sel_levels_loop, ('find_or_add',)),
            ('dd.bdd.BDD.reduction', sel_attr_loop('roots'), ('add',))],
    'C16': [('dd.dddmp.load', sel_items_triple, ('find_or_add',)),
            ('dd.dddmp.load', sel_roots_add, ('add', 'update'),
             'optional')],
    'C18': [('dd.bdd.to_nx', sel_param_loop_triple('roots'),
             ('add_edge',)),
            ('dd.bdd._to_dot', sel_triple_loop_with('add_edge'),
             ('add_edge',)),
            ('dd.bdd._to_dot', sel_param_loop('roots'), ('add_edge',)),
            ('dd.bdd._to_dot', sel_param_loop('roots'),
             (('add_node', 0),))],
}
EXEMPT = {
    # result is independent of the sign of the reference
    'support', '_support', 'descendants', '_descendants', 'is_essential',
    '_low_high', '_swap_cofactor', '_levels', 'levels', '_top_var',
    'level_of', 'ref', 'incref', 'decref', '__contains__',
    # documented rectified views (sign exposed by `negated`)
    'succ', 'low', 'high', 'var', 'level', '__len__',
    # writers keyed by node (sign-free by construction)
    'find_or_add', 'collect_garbage', 'swap', 'is_unused',
    # only the level of the node is read under abs()
    '_ite', 'ite', 'count', '_image',
    # MDD printer (not part of any property)
    'to_expr',
}


def r_sign(P, R):
    pid = R.prop
    n = 0
    want = 0
    for q, subj in PARAM_INSTANCES.get(pid, []):
        f = P.func(q)
        want += 1
        if subj not in f.params:
            raise AnalysisError(
                f'{q} no longer has the subject parameter `{subj}`')
        if check_function(R, f, subj) > 0:
            n += 1
    # further subjects of the same functions: any other parameter whose
    # successors are read (not only its level) under abs()
    listed = set(PARAM_INSTANCES.get(pid, []))
    for q in sorted({q for q, _ in listed}):
        f = P.func(q)
        for s in au.walk_no_defs(f.node):
            if not (isinstance(s, ast.Assign) and isinstance(
                    s.targets[0], ast.Tuple) and len(
                        s.targets[0].elts) == 3 and isinstance(
                            s.value, ast.Subscript)):
                continue
            ch = au.chain(s.value.value)
            subj = au.is_abs_of(s.value.slice)
            if not ch or ch[-1] != '_succ' or subj is None or \
                    subj not in f.params or (q, subj) in listed:
                continue
            named = [x for x in s.targets[0].elts[1:]
                     if not (isinstance(x, ast.Name) and x.id == '_')]
            if named:
                listed.add((q, subj))
                check_function(R, f, subj)
    for q, selector, emit, *opt in LOOP_INSTANCES.get(pid, []):
        f = P.func(q)
        found = selector(f.node)
        if found is None and opt:
            # the translation loop is checked by R-DOMAIN when absent
            continue
        want += 1
        if found is None:
            raise AnalysisError(
                f'{q}: the loop over successor references '
                f'({selector.__name__}) was not found')
        body, subj = found
        if check_function(R, f, subj, mode='emit', emit=emit,
                          scope=body) > 0:
            n += 1
    if pid == 'C16':
        # (the loader model of rules/models.py decides what load() makes
        # of the signs; this rule is a second opinion there)
        want = min(want, 1)
    R.floor(f'R-SIGN instances for {pid}', n, want)
    if pid in ('C04', 'C11', 'C16', 'C02'):
        check_flip(P, R)
    if pid == 'C15':
        check_comprehension(
            P, R, 'dd.mdd.bdd_to_mdd', 'z')
    if pid == 'C18':
        check_negated(P, R)
        check_rectified(P, R)
    discover(P, R)
r_sign.NAME = 'R-SIGN'


def check_flip(P, R):
    """`_flip(r, u)`: -r exactly when u is negative."""
    for q in ('dd.bdd._flip', 'dd._copy._flip'):
        if q.startswith('dd._copy') and R.prop not in ('C11', 'C12'):
            continue
        f = P.func(q)
        params = f.params
        rets = [n for n in ast.walk(f.node) if isinstance(n, ast.Return)]
        ok = False
        if len(params) == 2 and len(rets) == 1 and isinstance(
                rets[0].value, ast.IfExp):
            e = rets[0].value
            r, u = params
            t = au.src(e.test).replace(' ', '')
            neg_test = t in (f'{u}<0', f'{u}.negated', f'0>{u}')
            pos_test = t in (f'{u}>0', f'0<{u}', f'not{u}.negated')

            def is_neg(x):
                return isinstance(x, ast.UnaryOp) and isinstance(
                    x.op, (ast.USub, ast.Invert)) and au.is_name(
                        x.operand, r)
            if neg_test:
                ok = is_neg(e.body) and au.is_name(e.orelse, r)
            elif pos_test:
                ok = is_neg(e.orelse) and au.is_name(e.body, r)
            else:
                R.undecided('R-SIGN', q, 'flip helper',
                            'unrecognised form')
                continue
        elif len(rets) != 1 or not isinstance(rets[0].value, ast.IfExp):
            R.undecided('R-SIGN', q, 'flip helper', 'unrecognised form')
            continue
        if ok:
            R.holds('R-SIGN', q, 'negates its first argument exactly when '
                    'the second is complemented')
        else:
            R.violation(
                'R-SIGN', 'flip', q, 'return',
                f'`{au.short(rets[0].value)}` does not negate '
                f'`{params[0]}` exactly when `{params[1]}` is complemented',
                unit=f.unit.rel, line=f.lineno)


def check_comprehension(P, R, q, subject):
    """A comprehension over child references that looks each one up under
    abs() must re-apply the sign in its element expression."""
    f = P.func(q)
    _annotate(f.node)
    n = 0
    for c in ast.walk(f.node):
        if isinstance(c, (ast.ListComp, ast.SetComp, ast.GeneratorExp)):
            tnames = set()
            for g in c.generators:
                tnames |= au.target_names(g.target)
            for z in tnames:
                ctx = Ctx(f.node, z)
                flow = Flow(ctx)
                if not flow.has_strip(c.elt):
                    continue
                n += 1
                if expr_sign_dependent(flow, c.elt):
                    R.holds('R-SIGN', q,
                            f'comprehension over `{z}`: element depends on '
                            f'its sign')
                else:
                    R.violation(
                        'R-SIGN', 'sign-lost', q, f'comprehension:{z}',
                        f'`{au.short(c.elt)}` looks `{z}` up under abs() '
                        'and drops its sign', unit=f.unit.rel,
                        line=c.lineno)
    R.floor(f'R-SIGN comprehension in {q}', n, 1)


def check_negated(P, R):
    """`Function.negated` must be the sign test itself."""
    f = P.func('dd.autoref.Function.negated')
    rets = [n for n in ast.walk(f.node) if isinstance(n, ast.Return)]
    ok = False
    if len(rets) == 1 and isinstance(rets[0].value, ast.Compare) and len(
            rets[0].value.ops) == 1:
        c = rets[0].value
        l, r = au.src(c.left).replace(' ', ''), au.src(
            c.comparators[0]).replace(' ', '')
        ok = (l == 'self.node' and r == '0' and isinstance(
            c.ops[0], ast.Lt)) or (l == '0' and r == 'self.node'
                                   and isinstance(c.ops[0], ast.Gt))
    elif len(rets) != 1 or not isinstance(rets[0].value, ast.Compare):
        R.undecided('R-SIGN', f.qualname, 'negated', 'unrecognised form')
        return
    if ok:
        R.holds('R-SIGN', f.qualname, 'negated == (node < 0)')
    else:
        R.violation('R-SIGN', 'negated', f.qualname, 'return',
                    '`negated` is not the sign test of the node',
                    unit=f.unit.rel, line=f.lineno)


RECTIFIED = ['dd.autoref.BDD.succ', 'dd.bdd.BDD.succ',
             'dd.autoref.Function.low', 'dd.autoref.Function.high',
             'dd.autoref.Function.level', 'dd.autoref.Function.var']


def check_rectified(P, R):
    """The documented rectified views (`succ`, `low`, `high`, ...) return
    the stored successors of abs(u); the sign of u is exposed only by
    `negated`.  A view that also pushes the sign down makes a traversal
    that applies `negated` itself complement twice."""
    for q in RECTIFIED:
        f = P.func(q)
        _annotate(f.node)
        subj = [p for p in f.params if p != 'self']
        names = set(subj) | {'self'}
        hits = []
        for n in au.walk_no_defs(f.node):
            if isinstance(n, ast.Attribute) and n.attr == 'negated' and \
                    isinstance(n.value, ast.Name) and n.value.id in names:
                hits.append(n)
            if isinstance(n, ast.Compare) and len(n.ops) == 1 and \
                    isinstance(n.ops[0], (ast.Lt, ast.Gt)) and \
                    au.const_int(n.comparators[0]) == 0:
                t = au.src(n.left).replace(' ', '')
                if t in ('self.node', 'u.node') or t in subj:
                    hits.append(n)
        # the signed reference handed to a callee that may look at it
        for c in au.calls_in(f.node):
            if au.call_name(c) in ('abs', 'ValueError', 'isinstance',
                                   'AssertionError', 'repr', 'str') or \
                    au.call_name(c) in {x.rsplit('.', 1)[1]
                                        for x in RECTIFIED}:
                # (delegation to another rectified view is fine)
                continue
            for a in list(c.args) + [k.value for k in c.keywords]:
                t = au.src(a).replace(' ', '')
                if t in ('self.node', 'u.node') or (
                        t in subj and au.call_name(c) != '_wrap'):
                    hits.append(c)
        if hits:
            R.violation(
                'R-SIGN', 'rectified-view-signed', q, 'sign',
                f'`{au.short(hits[0])}`: this view is documented to '
                'return the successors of the rectified node (the sign '
                'is exposed by `negated`); making it depend on the sign '
                'of the reference breaks traversals that expand with '
                'low/high/succ and then apply `negated`',
                unit=f.unit.rel, line=hits[0].lineno)
        else:
            R.holds('R-SIGN', q, 'rectified view: independent of the '
                    'sign of the reference')


def discover(P, R):
    """Print lookups under abs() of a parameter in functions that are
    neither instances nor exempt (never alarms)."""
    known = set()
    for lst in PARAM_INSTANCES.values():
        known |= {q for q, _ in lst}
    for lst in LOOP_INSTANCES.values():
        known |= {x[0] for x in lst}
    mods = {'dd.bdd', 'dd.autoref', 'dd._copy', 'dd.mdd', 'dd.dddmp'}
    for f in P.all_funcs(mods):
        if f.qualname in known or f.name in EXEMPT:
            continue
        params = set(f.params)
        for n in au.walk_no_defs(f.node):
            if isinstance(n, ast.Subscript):
                a = au.is_abs_of(n.slice)
                if a and a in params:
                    R.unreviewed_site(
                        'R-SIGN', f.qualname,
                        f'lookup `{au.short(n)}` under abs({a})')
                    break
