"""R-GRAMMAR: lexer, precedence, productions and the documented grammar.

The lexer is *reconstructed from the source* (regex docstrings and string
rules of `dd._parser.Lexer`, PLY's ordering rule: function rules in order
of definition, then string rules by decreasing pattern length, all compiled
with re.VERBOSE) and every spelling is lexed against the reconstruction.
Nothing of dd or PLY is imported.
"""
import ast
import re

from .. import astutil as au
from .. import minieval as me
from ..frontend import AnalysisError
from . import optab

# property statement: relative precedence, lowest to highest
REF_PRECEDENCE = [':', '<=>', '=>', '-', '#', '\\/', '/\\', '~']
COMMENT_MEANING = [
    ('universal quantification', 'forall'),
    ('existential quantification', 'exists'),
    ('renaming', 'rename'),
    ('negation of `<=>`', 'xor'),
    ('negation', 'not'),
    ('conjunction', 'and'),
    ('exclusive disjunction', 'xor'),
    ('disjunction', 'or'),
    ('implication', 'implies'),
    ('equivalence', 'equiv'),
    ('ternary conditional', 'ite'),
    ('xor', 'xor'),
]


def greedy_before_literal(pattern):
    """Greedy unbounded repetitions that are followed, in the same
    sequence, by a literal: [description, ...] (regex syntax tree)."""
    import re._parser as rp
    import re._constants as rc
    try:
        tree = rp.parse(pattern, re.VERBOSE)
    except re.error as e:
        raise AnalysisError(f'lexer pattern does not parse: {e}')
    out = []

    def seq(items):
        items = list(items)
        for k, (op, av) in enumerate(items):
            if op is rc.MAX_REPEAT and av[1] == rc.MAXREPEAT:
                wide = any(o in (rc.ANY, rc.IN, rc.NOT_LITERAL)
                           for o, _ in av[2])
                nested = any(o is rc.SUBPATTERN for o, _ in av[2])
                if (wide or nested) and any(
                        o is rc.LITERAL for o, _ in items[k + 1:]):
                    out.append('a `*`/`+` over a character class')
            if op in (rc.MAX_REPEAT, rc.MIN_REPEAT):
                seq(av[2])
            elif op is rc.SUBPATTERN:
                seq(av[3])
            elif op is rc.BRANCH:
                for b in av[1]:
                    seq(b)
    seq(tree)
    return out


# ------------------------------------------------------------ lexer (source)
class LexRule:
    def __init__(self, name, pattern, line, is_func, value=None,
                 reserved=False, skip=False):
        self.name = name
        self.pattern = pattern
        self.line = line
        self.is_func = is_func
        self.value = value        # canonical value or None (= matched text)
        self.reserved = reserved  # type looked up in `reserved`
        self.skip = skip          # rule returns None (comment, newline)
        self.rx = re.compile(pattern, re.VERBOSE)


class SourceLexer:
    def __init__(self, P):
        u = P.unit('dd._parser')
        cls = u.classes.get('Lexer')
        if cls is None:
            raise AnalysisError('dd._parser.Lexer vanished')
        self.rules = []
        self.reserved = dict()
        self.ignore = ' \t'
        self.token_lists = dict()
        for n in cls.body:
            if isinstance(n, ast.FunctionDef) and n.name.startswith('t_'):
                doc = ast.get_docstring(n, clean=False)
                if doc is None:
                    continue
                value = None
                reserved = False
                rets = [x for x in ast.walk(n) if isinstance(x, ast.Return)]
                skip = not rets or all(
                    r.value is None or (isinstance(r.value, ast.Constant)
                                        and r.value.value is None)
                    for r in rets)
                for x in ast.walk(n):
                    if isinstance(x, ast.Assign) and isinstance(
                            x.targets[0], ast.Attribute):
                        if x.targets[0].attr == 'value' and isinstance(
                                x.value, ast.Constant):
                            value = x.value.value
                        if x.targets[0].attr == 'type':
                            reserved = True
                self.rules.append(LexRule(
                    n.name[2:], doc, n.lineno, True, value, reserved, skip))
            elif isinstance(n, ast.Assign) and isinstance(
                    n.targets[0], ast.Name) and n.targets[0].id.startswith(
                        't_'):
                name = n.targets[0].id[2:]
                if name == 'ignore':
                    continue
                if isinstance(n.value, ast.Constant) and isinstance(
                        n.value.value, str):
                    self.rules.append(LexRule(
                        name, n.value.value, n.lineno, False))
            elif isinstance(n, ast.FunctionDef) and n.name == '__init__':
                for x in ast.walk(n):
                    if isinstance(x, ast.Assign) and au.chain(
                            x.targets[0]) == ['self', 'reserved'] and \
                            isinstance(x.value, ast.Dict):
                        for k, v in zip(x.value.keys, x.value.values):
                            self.reserved[k.value] = v.value
                    if isinstance(x, ast.Assign) and isinstance(
                            x.value, ast.List) and isinstance(
                                x.targets[0], ast.Attribute):
                        self.token_lists[x.targets[0].attr] = [
                            e.value for e in x.value.elts
                            if isinstance(e, ast.Constant)]
        funcs = sorted([r for r in self.rules if r.is_func],
                       key=lambda r: r.line)
        strs = sorted([r for r in self.rules if not r.is_func],
                      key=lambda r: -len(r.pattern))
        self.order = funcs + strs
        if len(self.order) < 15:
            raise AnalysisError(
                f'only {len(self.order)} lexer rules found in '
                'dd._parser.Lexer')

    def lex(self, text):
        """-> list of (type, value) or ('ERROR', rest)."""
        out = []
        i = 0
        while i < len(text):
            if text[i] in self.ignore:
                i += 1
                continue
            for r in self.order:
                m = r.rx.match(text, i)
                if m and m.end() > i:
                    tok = m.group(0)
                    if not r.skip:
                        typ = r.name
                        val = r.value if r.value is not None else tok
                        if r.reserved:
                            typ = self.reserved.get(tok, r.name)
                        out.append((typ, val))
                    i = m.end()
                    break
            else:
                out.append(('ERROR', text[i:]))
                return out
        return out

    def alternatives(self, rule):
        """Literal alternatives of an operator rule's pattern."""
        pat = re.sub(r'\s+', '', rule.pattern)     # re.VERBOSE
        alts = []
        cur = ''
        i = 0
        while i < len(pat):
            c = pat[i]
            if c == '\\' and i + 1 < len(pat):
                nxt = pat[i + 1]
                if nxt.isalnum():
                    return None      # a class such as \d
                cur += nxt
                i += 2
                continue
            if c == '|':
                alts.append(cur)
                cur = ''
            elif c in '.^$*+?{}[]()':
                return None
            else:
                cur += c
            i += 1
        alts.append(cur)
        if any(not a for a in alts):
            return None
        return alts


# -------------------------------------------------------- documentation side
class DocGrammar:
    def __init__(self, P):
        text = P.doc.text
        m = re.search(r'```tla\n-+ MODULE dd_expression_grammar(.*?)```',
                      text, re.S)
        if not m:
            raise AnalysisError(
                'doc.md: grammar module dd_expression_grammar not found')
        self.block = m.group(1)
        self.line0 = text[:m.start()].count('\n') + 1
        self.tokens = dict()
        for name, body in re.findall(
                r'/\\ L\.(\w+) = (tok\("(?:[^"\\]|\\.)*"\)|Tok\(\{.*?\}\))',
                self.block, re.S):
            sp = [self.unescape(s) for s in re.findall(
                r'"((?:[^"\\]|\\.)*)"', body)]
            self.tokens[name] = sp
        if len(self.tokens) < 20:
            raise AnalysisError('doc.md: lexer grammar not recognised')
        # productions of G.expr with their comments
        self.meaning = dict()   # doc token name -> connective
        seg = self.block[self.block.index('/\\ G.expr ='):]
        seg = seg[:seg.index('/\\ G.names')]
        for alt, comment in re.findall(
                r'\|\s*((?:[GL]\.\w+\s*&?\s*)+)\s*(\(\*.*?\*\))?', seg, re.S):
            syms = re.findall(r'[GL]\.(\w+)', alt)
            ops = [s for s in syms if s not in (
                'expr', 'names', 'pairs', 'COLON', 'COMMA', 'LPAREN',
                'RPAREN', 'NAME', 'INTEGER')]
            if not ops or not comment:
                continue
            c = ' '.join(comment.split())
            for key, conn in COMMENT_MEANING:
                if key in c:
                    self.meaning.setdefault(ops[0], conn)
                    break
        # precedence bullets
        m = re.search(r'The token precedence \(lowest to highest\)(.*?)\n\n'
                      r'The meaning', text, re.S)
        if not m:
            raise AnalysisError('doc.md: precedence list not found')
        self.precedence = []
        for line in m.group(1).splitlines():
            line = line.strip()
            if not line.startswith('- '):
                continue
            syms = re.findall(r'`([^`]*)`', line)
            spell = []
            for s in syms:
                spell.extend(x.strip() for x in s.split(', ') if x.strip())
            assoc = None
            ma = re.search(r'\((left|right)\)', line)
            if ma:
                assoc = ma.group(1)
            unary = 'unary minus' in line
            self.precedence.append((spell, assoc, unary))

    @staticmethod
    def unescape(s):
        return s.replace('\\\\', '\\').replace('\\"', '"')


# ----------------------------------------------------------------- the rule
TOKEN_CONNECTIVE = {'AND': 'and', 'OR': 'or', 'NOT': 'not', 'XOR': 'xor',
                    'IMPLIES': 'implies', 'EQUIV': 'equiv', 'MINUS': 'diff',
                    'FORALL': 'forall', 'EXISTS': 'exists', 'ITE': 'ite'}
DOC_TOKEN_TYPE = {
    'A': 'FORALL', 'E': 'EXISTS', 'S': 'RENAME', 'COLON': 'COLON',
    'COMMA': 'COMMA', 'NOT': 'NOT', 'AND': 'AND', 'OR': 'OR',
    'IMPLIES': 'IMPLIES', 'IFF': 'EQUIV', 'EQ': 'EQUALS', 'NEQ': 'XOR',
    'EXCLAMATION': 'NOT', 'ET': 'AND', 'PIPE': 'OR', 'RARROW': 'IMPLIES',
    'LR_ARROW': 'EQUIV', 'CIRCUMFLEX': 'XOR', 'SLASH': 'DIV', 'AT': 'AT',
    'LPAREN': 'LPAREN', 'RPAREN': 'RPAREN', 'FALSE': 'FALSE',
    'TRUE': 'TRUE', 'ITE': 'ITE'}


def r_grammar(P, R):
    lexer = SourceLexer(P)
    doc = DocGrammar(P)
    ctx = optab.Ctx(P)
    unit = 'dd/_parser.py'
    n = 0
    # (1) every alternative listed in a lexer rule lexes to that rule
    for r in lexer.order:
        if r.skip or r.name in ('NAME', 'NUMBER'):
            continue
        alts = lexer.alternatives(r)
        if alts is None:
            R.undecided('R-GRAMMAR', f'dd._parser.Lexer.t_{r.name}',
                        'alternatives', 'pattern is not a list of literals')
            continue
        for s in alts:
            got = lexer.lex(s)
            n += 1
            if got == [(r.name, r.value if r.value is not None else s)]:
                R.holds('R-GRAMMAR', f'dd._parser.Lexer.t_{r.name}',
                        f'{s!r} lexes to {got[0]}')
            else:
                R.violation(
                    'R-GRAMMAR', 'shadowed', f'dd._parser.Lexer.t_{r.name}',
                    repr(s), f'the spelling {s!r} of token {r.name} is '
                    f'lexed as {got}: another rule takes it first (PLY '
                    'order: function rules by line, then string rules by '
                    'decreasing pattern length)', unit=unit, line=r.line)
    # (2) canonical value of every operator token is in the connective
    #     class of the token (through the interpretation of BDD.apply)
    for r in lexer.order:
        conn = TOKEN_CONNECTIVE.get(r.name)
        if conn is None or r.skip:
            continue
        alts = lexer.alternatives(r) or []
        values = {r.value} if r.value is not None else set(alts)
        if r.name == 'ITE':
            values = {'ite'}
        for val in sorted(values):
            n += 1
            where = f'dd._parser.Lexer.t_{r.name}'
            group = optab.ALIAS_GROUP.get(val)
            try:
                got = optab.classify(optab.eval_apply(
                    ctx, 'dd.bdd', 'BDD', val)) if conn not in (
                        'forall', 'exists') else None
            except me.Undecided as e:
                R.undecided('R-GRAMMAR', where, f'value {val!r}', str(e))
                continue
            if conn in ('forall', 'exists'):
                # handled by _Translator._apply, checked below
                if group == conn:
                    R.holds('R-GRAMMAR', where,
                            f'value {val!r} names the {conn} quantifier')
                else:
                    R.violation(
                        'R-GRAMMAR', 'token-value', where, repr(val),
                        f'token {r.name} carries {val!r}, which is not a '
                        f'spelling of {conn}', unit=unit, line=r.line)
                continue
            want = optab.expected(next(iter(optab.REFERENCE[conn])))
            if got == want:
                R.holds('R-GRAMMAR', where,
                        f'value {val!r} -> BDD.apply -> {conn}')
            else:
                R.violation(
                    'R-GRAMMAR', 'token-value', where, repr(val),
                    f'token {r.name} hands the operator {val!r} to '
                    f'BDD.apply, which computes {optab.render(got)}; the '
                    f'token stands for {conn} '
                    f'({optab.render(want)})', unit=unit, line=r.line)
    # (3) every documented spelling lexes to the documented token, and that
    #     token has the documented meaning
    for dname, spellings in sorted(doc.tokens.items()):
        if dname in ('NAME', 'INTEGER', 'COMMA'):
            continue
        want_type = DOC_TOKEN_TYPE.get(dname)
        for s in spellings:
            n += 1
            got = lexer.lex(s)
            where = 'doc.md'
            if want_type is None:
                R.unreviewed_site('R-GRAMMAR', where,
                                  f'documented token {dname} {s!r}')
                continue
            ok = len(got) == 1 and got[0][0] == want_type
            if not ok:
                R.violation(
                    'R-GRAMMAR', 'doc-spelling', where, s,
                    f'the documented spelling {s!r} (token L.{dname}) is '
                    f'lexed as {got} instead of a single {want_type} '
                    'token: the documented grammar and the lexer disagree',
                    unit='doc.md', line=doc.line0)
                continue
            meaning = doc.meaning.get(dname)
            conn = TOKEN_CONNECTIVE.get(want_type)
            if meaning and conn and meaning not in (conn, 'rename'):
                R.violation(
                    'R-GRAMMAR', 'doc-meaning', where, s,
                    f'{s!r} is documented as {meaning} but its token '
                    f'{want_type} is {conn}', unit='doc.md',
                    line=doc.line0)
            else:
                R.holds('R-GRAMMAR', where,
                        f'{s!r} -> {want_type}'
                        + (f' ({meaning})' if meaning else ''))
    # names with the documented symbol classes
    name_ok = lexer.lex("x_1'") == [('NAME', "x_1'")]
    dot = lexer.lex('x.y')
    n += 2
    if name_ok:
        R.holds('R-GRAMMAR', 'doc.md', "identifier x_1' is one NAME")
    else:
        R.violation('R-GRAMMAR', 'doc-spelling', 'doc.md', 'NAME',
                    "identifiers with digits, _ and ' are not lexed as one "
                    'NAME', unit=unit)
    # an identifier that begins with a keyword is still one identifier
    # (PLY tries function rules in the order they are defined: a rule for
    # a keyword placed before the rule for names splits `item` into
    # `ite` + `m`)
    words = set(lexer.reserved)
    for r in lexer.rules:
        for a in (lexer.alternatives(r) or []):
            if a.replace('_', 'a').isalnum() and not a[0].isdigit():
                words.add(a)
        w = re.sub(r'\s+', '', r.pattern)
        if w.replace('_', 'a').isalnum() and not w[0].isdigit():
            words.add(w)
    bad_words = []
    for w in sorted(words):
        for suffix in ('m', '_1', "'", '8'):
            name = w + suffix
            if name in lexer.reserved:
                continue
            n += 1
            if lexer.lex(name) != [('NAME', name)]:
                bad_words.append((w, name, lexer.lex(name)))
                break
    if bad_words:
        w, name, got = bad_words[0]
        R.violation(
            'R-GRAMMAR', 'keyword-prefix', 'dd._parser.Lexer', w,
            f'the identifier {name!r} is lexed as {got}: a rule for the '
            f'keyword {w!r} is tried before the rule for names, so every '
            'name that begins with it is split (PLY tries function rules '
            'in definition order)', unit=unit)
    else:
        R.holds('R-GRAMMAR', 'dd._parser.Lexer',
                f'identifiers that begin with one of the {len(words)} '
                'keywords are lexed as one NAME')
    if 'DOT ==' in doc.block and 'DOT' in doc.block[
            doc.block.index('symbol =='):doc.block.index('tail ==')]:
        if dot == [('NAME', 'x.y')]:
            R.holds('R-GRAMMAR', 'doc.md', 'identifier x.y is one NAME')
        else:
            R.violation(
                'R-GRAMMAR', 'doc-spelling', 'doc.md', 'NAME-dot',
                "the documented grammar allows '.' inside names, but "
                f"'x.y' is lexed as {dot}", unit='doc.md', line=doc.line0)
    # reserved words: constant tokens map to the attribute of their name
    for sp, typ in sorted(lexer.reserved.items()):
        if typ in ('TRUE', 'FALSE'):
            n += 1
            if sp.lower() == typ.lower():
                R.holds('R-GRAMMAR', 'dd._parser.Lexer',
                        f'reserved {sp!r} -> {typ}')
            else:
                R.violation(
                    'R-GRAMMAR', 'reserved', 'dd._parser.Lexer', sp,
                    f'the constant {sp!r} is lexed as {typ}', unit=unit)
    # comments are skipped
    for text in ('x \\* comment', '(* c *) x', 'x (* multi\nline *)',
                 '(* a *) x (* b *)', '(* a *) x (* b\nc *)',
                 '(* a\n*) x (* b *)', '(* a ) * ( *) x'):
        got = [t for t in lexer.lex(text)]
        n += 1
        if got == [('NAME', 'x')]:
            R.holds('R-GRAMMAR', 'dd._parser.Lexer',
                    f'comment skipped in {text!r}', nontrivial=False)
        else:
            R.violation('R-GRAMMAR', 'comments', 'dd._parser.Lexer',
                        text[:12], f'{text!r} is lexed as {got}: comments '
                        'are not skipped', unit=unit)
    # a delimited skip rule ends at the FIRST closing delimiter
    for r in lexer.order:
        if not r.skip:
            continue
        for where in greedy_before_literal(r.pattern):
            R.violation(
                'R-GRAMMAR', 'greedy-comment', 'dd._parser.Lexer', r.name,
                f'rule t_{r.name} skips text with a greedy repetition '
                f'({where}) followed by a closing delimiter: the match '
                'runs to the LAST delimiter in reach, so everything '
                'between two comments is skipped with them', unit=unit,
                line=r.line)
    # node references
    got = lexer.lex('@-12')
    if got == [('AT', '@'), ('MINUS', '-'), ('NUMBER', '12')]:
        R.holds('R-GRAMMAR', 'dd._parser.Lexer', '@-12 -> AT MINUS NUMBER')
    else:
        R.violation('R-GRAMMAR', 'node-ref', 'dd._parser.Lexer', '@-12',
                    f'`@-12` is lexed as {got}', unit=unit)
    R.floor('R-GRAMMAR spellings lexed', n, 50)
    precedence(P, R, lexer, doc)
    productions(P, R)
    translator(P, R)
    printer_tokens(P, R, lexer)
r_grammar.NAME = 'R-GRAMMAR'


def precedence(P, R, lexer, doc):
    f = P.func('dd._parser.Parser.__init__')
    tup = None
    for n in ast.walk(f.node):
        if isinstance(n, ast.Assign) and au.chain(n.targets[0]) == [
                'self', 'precedence'] and isinstance(n.value, ast.Tuple):
            tup = n.value
    if tup is None:
        raise AnalysisError('dd._parser.Parser: precedence tuple vanished')
    code = []
    for e in tup.elts:
        vals = [x.value for x in e.elts]
        code.append((vals[0], vals[1:]))
    flat = [t for _, ts in code for t in ts]
    # documented list -> token names through the lexer
    docp = []
    for spell, assoc, unary in doc.precedence:
        if unary:
            docp.append((assoc, ['UMINUS']))
            continue
        types = []
        for s in spell:
            got = lexer.lex(s)
            if len(got) == 1:
                if got[0][0] not in types:
                    types.append(got[0][0])
        docp.append((assoc, types))
    doc_flat = [t for _, ts in docp for t in ts]
    if flat == doc_flat:
        R.holds('R-GRAMMAR', f.qualname,
                f'precedence order equals the documented list: {flat}')
    else:
        R.violation(
            'R-GRAMMAR', 'precedence', f.qualname, 'order',
            f'the precedence tuple (lowest to highest) {flat} differs '
            f'from the documented list {doc_flat}: formulas without '
            'parentheses are grouped differently than documented',
            unit=f.unit.rel, line=tup.lineno)
    for (assoc, ts), (dassoc, dts) in zip(code, docp):
        if dassoc and assoc != dassoc:
            R.violation(
                'R-GRAMMAR', 'precedence', f.qualname, f'assoc:{ts}',
                f'{ts} is {assoc}-associative in the parser and '
                f'{dassoc}-associative in the documentation',
                unit=f.unit.rel, line=tup.lineno)
    # relative order stated in the property
    pos = dict()
    for s in REF_PRECEDENCE:
        got = lexer.lex(s)
        if len(got) == 1 and got[0][0] in flat:
            pos[s] = flat.index(got[0][0])
    seq = [pos.get(s) for s in REF_PRECEDENCE]
    if None not in seq and seq == sorted(seq) and len(set(seq)) == len(seq):
        R.holds('R-GRAMMAR', f.qualname, 'relative precedence : < <=> < => '
                '< - < # < \\/ < /\\ < ~ holds')
    else:
        R.violation(
            'R-GRAMMAR', 'precedence', f.qualname, 'reference',
            f'the precedence of {REF_PRECEDENCE} (lowest to highest) is '
            f'{seq} in the parser', unit=f.unit.rel, line=tup.lineno)
    # left associativity of the binary operators
    for assoc, ts in code:
        for t in ts:
            if t in ('COLON', 'EQUIV', 'IMPLIES', 'MINUS', 'XOR', 'OR',
                     'AND') and assoc != 'left':
                R.violation(
                    'R-GRAMMAR', 'precedence', f.qualname, f'assoc:{t}',
                    f'{t} is {assoc}-associative; the documented grammar '
                    'is left-associative', unit=f.unit.rel,
                    line=tup.lineno)
    # a production takes the precedence of its last operator token; a
    # `%prec T` that gives it the precedence of another token of the
    # language departs from the documented list (a `%prec` with a name
    # that is no token, as for unary minus, is the documented exception)
    level = {t: k for k, (_, ts) in enumerate(code) for t in ts}
    real = {r.name for r in lexer.rules} | set(lexer.reserved.values())
    u = P.unit('dd._parser')
    n_prod = 0
    for st in (u.classes.get('Parser').body if u.classes.get('Parser')
               else []):
        if not (isinstance(st, ast.FunctionDef)
                and st.name.startswith('p_') and st.body
                and isinstance(st.body[0], ast.Expr)):
            continue
        try:
            text = ast.literal_eval(st.body[0].value)
        except Exception:
            continue
        if not isinstance(text, str):
            continue
        for alt in re.split(r'\|', text.split(':', 1)[-1]):
            n_prod += 1
            m = re.search(r'%prec\s+(\w+)', alt)
            if not m:
                continue
            tok = m.group(1)
            symbols = re.sub(r'%prec\s+\w+', '', alt).split()
            default = [x for x in symbols if x in level]
            if tok in real and tok in level and (
                    not default or level[default[-1]] != level[tok]):
                R.violation(
                    'R-GRAMMAR', 'precedence',
                    f'dd._parser.Parser.{st.name}', f'%prec:{tok}',
                    f'production `{" ".join(symbols)}` is given the '
                    f'precedence of {tok} by %prec; its own last operator '
                    f'token is {default[-1] if default else None}, so the '
                    'expression no longer groups as the documented '
                    'precedence list says', unit=u.rel, line=st.lineno)
    R.holds('R-GRAMMAR', 'dd._parser.Parser',
            f'{n_prod} productions: no %prec gives a production the '
            'precedence of another token of the language')
    # every binary operator of p_binary has a precedence
    pb = P.func('dd._parser.Parser.p_binary')
    d = ast.get_docstring(pb.node) or ''
    ops = set(re.findall(r'expr (\w+) expr', d))
    missing = ops - set(flat)
    if missing:
        R.violation('R-GRAMMAR', 'precedence', pb.qualname, 'missing',
                    f'binary operator token(s) {sorted(missing)} have no '
                    'precedence entry', unit=pb.unit.rel, line=pb.lineno)
    else:
        R.holds('R-GRAMMAR', pb.qualname,
                f'all {len(ops)} binary operator tokens have a precedence')


def production_rhs(fn):
    """[(lhs, [symbols])] from the docstring (or the leading string
    expression) of a p_ function."""
    doc = None
    first = fn.body[0] if fn.body else None
    if isinstance(first, ast.Expr):
        try:
            doc = ast.literal_eval(first.value)
        except Exception:
            doc = None
    if not isinstance(doc, str):
        return []
    doc = re.sub(r'%prec\s+\w+', '', doc)
    out = []
    lhs = None
    for part in re.split(r'\|', doc):
        if ':' in part:
            lhs, part = part.split(':', 1)
            lhs = lhs.strip()
        out.append((lhs, part.split()))
    return out


def productions(P, R):
    """Actions pass (operator, operands) from the right positions."""
    checks = {
        'p_unary': 'apply', 'p_binary': 'apply',
        'p_ternary_conditional': 'apply', 'p_quantifier': 'apply',
        'p_rename': 'apply', 'p_paren': 'copy', 'p_node': 'copy',
    }
    terminals_op = {'NOT', 'AND', 'OR', 'XOR', 'IMPLIES', 'EQUIV',
                    'EQUALS', 'MINUS', 'ITE', 'EXISTS', 'FORALL', 'RENAME'}
    nonterm = {'expr', 'names', 'subs', 'number'}
    n = 0
    for name, kind in checks.items():
        f = P.func(f'dd._parser.Parser.{name}')
        prods = production_rhs(f.node)
        if not prods:
            raise AnalysisError(f'{f.qualname}: production not found')
        for lhs, rhs in prods:
            n += 1
            op_idx = [i + 1 for i, s in enumerate(rhs)
                      if s in terminals_op]
            arg_idx = [i + 1 for i, s in enumerate(rhs) if s in nonterm]
            if kind == 'apply':
                calls = [c for c in au.calls_in(f.node, '_apply')]
                if len(calls) != 1:
                    R.undecided('R-GRAMMAR', f.qualname, 'action',
                                'no single _apply call')
                    continue
                got = []
                for a in calls[0].args:
                    if isinstance(a, ast.Subscript) and au.is_name(
                            a.value, 'p'):
                        got.append(au.const_int(a.slice))
                    else:
                        got.append(None)
                want = op_idx[:1] + arg_idx
                if got == want:
                    R.holds('R-GRAMMAR', f.qualname,
                            f'`{" ".join(rhs)}`: _apply(p{want})')
                else:
                    R.violation(
                        'R-GRAMMAR', 'action', f.qualname,
                        ' '.join(rhs),
                        f'production `{lhs} : {" ".join(rhs)}` calls '
                        f'_apply with positions {got}; the operator is at '
                        f'{op_idx[:1]} and the operands at {arg_idx} (in '
                        'this order)', unit=f.unit.rel, line=f.lineno)
            else:
                st = [s for s in f.node.body if isinstance(s, ast.Assign)]
                ok = st and au.src(st[-1]).replace(
                    ' ', '') == f'p[0]=p[{arg_idx[0]}]'
                if ok:
                    R.holds('R-GRAMMAR', f.qualname,
                            f'`{" ".join(rhs)}`: p[0] = p[{arg_idx[0]}]')
                else:
                    R.violation(
                        'R-GRAMMAR', 'action', f.qualname, ' '.join(rhs),
                        f'production `{" ".join(rhs)}` does not pass its '
                        'sub-expression on', unit=f.unit.rel,
                        line=f.lineno)
    # substitution pair: `name DIV name` is new / old -> (old, new)
    f = P.func('dd._parser.Parser.p_substitution')
    pname = f.params[1] if len(f.params) > 1 else 'p'
    env = dict()
    result = None
    for st in f.node.body:
        if not (isinstance(st, ast.Assign) and len(st.targets) == 1):
            continue
        t, v = st.targets[0], st.value

        def pidx(e):
            if isinstance(e, ast.Subscript) and au.is_name(e.value, pname):
                return au.const_int(e.slice)
            if isinstance(e, ast.Name):
                return env.get(e.id)
            return None
        if isinstance(t, ast.Name):
            env[t.id] = pidx(v)
        elif isinstance(t, ast.Subscript) and au.is_name(
                t.value, pname) and au.const_int(t.slice) == 0 and \
                isinstance(v, ast.Tuple):
            result = tuple(pidx(e) for e in v.elts)
    if result == (3, 1):
        R.holds('R-GRAMMAR', f.qualname, '`new / old` -> (old, new)')
    elif result is None or None in result:
        R.undecided('R-GRAMMAR', f.qualname, 'substitution pair',
                    'unrecognised')
    else:
        R.violation('R-GRAMMAR', 'action', f.qualname, 'name DIV name',
                    '`\\S new / old` no longer yields the pair '
                    '(old, new)', unit=f.unit.rel, line=f.lineno)
    R.floor('R-GRAMMAR productions checked', n, 14)


def _arm_env(stmts, upto, opname, varargs):
    """Symbolic values of the locals of one arm of _Translator._apply."""
    env = dict()
    for st in stmts:
        if st is upto:
            break
        if not (isinstance(st, ast.Assign) and len(st.targets) == 1):
            continue
        t, v = st.targets[0], st.value
        if isinstance(t, ast.Tuple) and au.is_name(v, varargs):
            for k, e in enumerate(t.elts):
                if isinstance(e, ast.Name):
                    env[e.id] = ('opnd', k)
            continue
        if not isinstance(t, ast.Name):
            continue
        val = ('?', au.short(v, 30))
        if isinstance(v, (ast.SetComp, ast.ListComp)) and len(
                v.generators) == 1:
            g = v.generators[0]
            if isinstance(g.iter, ast.Name) and g.iter.id in env and \
                    isinstance(v.elt, ast.Attribute) and \
                    v.elt.attr == 'value' and isinstance(
                        g.target, ast.Name) and au.is_name(
                            v.elt.value, g.target.id):
                val = ('values', env[g.iter.id])
        elif isinstance(v, ast.Compare) and len(v.ops) == 1 and \
                isinstance(v.ops[0], ast.Eq):
            sides = [v.left, v.comparators[0]]
            if any(au.is_name(x, opname) for x in sides):
                c = [x.value for x in sides if isinstance(x, ast.Constant)]
                if c:
                    val = ('is-op', c[0])
        elif isinstance(v, ast.DictComp) and len(v.generators) == 1:
            g = v.generators[0]
            if isinstance(g.iter, ast.Name) and g.iter.id in env and \
                    isinstance(g.target, ast.Tuple) and len(
                        g.target.elts) == 2 and all(
                            isinstance(e, ast.Name)
                            for e in g.target.elts):
                names = [e.id for e in g.target.elts]

                def pos(e):
                    if isinstance(e, ast.Attribute) and e.attr == \
                            'value' and isinstance(e.value, ast.Name) \
                            and e.value.id in names:
                        return names.index(e.value.id)
                    return None
                val = ('pairs', env[g.iter.id], (pos(v.key), pos(v.value)))
        env[t.id] = val
    return env


def _enclosing_block(fn, call):
    """Innermost statement list (and statement) that contains `call`."""
    best = (None, None)
    size = None
    for blk in au.blocks_of(fn):
        for st in blk:
            if any(x is call for x in ast.walk(st)):
                span = (st.end_lineno or st.lineno) - st.lineno
                if size is None or span < size:
                    best, size = (blk, st), span
    return best


def translator(P, R):
    """_Translator._apply: operand roles of quantifiers and renaming.
    The locals of each arm are resolved symbolically (operand positions,
    `.value` of the names, `operator == const`, {old: new} over the
    pairs), so the rule does not depend on what they are called."""
    f = P.func('dd._parser._Translator._apply')
    fn = f.node
    opname = f.params[1] if len(f.params) > 1 else 'operator'
    varargs = fn.args.vararg.arg if fn.args.vararg else None
    if varargs is None:
        raise AnalysisError('_Translator._apply no longer takes *operands')
    problems = []
    undecided = []
    calls = {au.call_name(c): c for c in au.calls_in(fn)
             if au.call_recv(c) == ['self', '_bdd']}

    def resolve(e, env):
        if isinstance(e, ast.Name):
            return env.get(e.id, ('name', e.id))
        return ('?', au.short(e, 30))
    q = calls.get('quantify')
    if q is None:
        problems.append('quantifiers are no longer sent to quantify()')
    else:
        blk, st = _enclosing_block(fn, q)
        env = _arm_env(blk or [], st, opname, varargs)
        args = [resolve(a, env) for a in q.args]
        kws = {k.arg: resolve(k.value, env) for k in q.keywords}
        fa = kws.get('forall', args[2] if len(args) > 2 else None)
        if len(args) < 2 or args[0] != ('opnd', 1) or args[1] != (
                'values', ('opnd', 0)):
            if any(a[0] == '?' for a in args[:2]):
                undecided.append(f'operands of `{au.short(q, 40)}`')
            else:
                problems.append(
                    f'`{au.short(q, 50)}` does not pass (second operand, '
                    'names of the first operand): the production is '
                    '`\\A names : expr`')
        if fa is None or fa[0] != 'is-op':
            undecided.append('`forall` argument not recognised')
        elif fa[1] != '\\A':
            problems.append(
                f'`forall` is true for the operator {fa[1]!r} instead of '
                '"\\A"')
    r = calls.get('rename')
    if r is None:
        problems.append('renaming is no longer sent to rename()')
    else:
        blk, st = _enclosing_block(fn, r)
        env = _arm_env(blk or [], st, opname, varargs)
        args = [resolve(a, env) for a in r.args]
        if len(args) < 2 or args[0] != ('opnd', 1):
            problems.append(
                f'`{au.short(r, 50)}` does not rename the second operand '
                '(the production is `\\S subs : expr`)')
        elif args[1][0] != 'pairs' or args[1][1] != ('opnd', 0):
            undecided.append('renaming map not recognised')
        elif args[1][2] == (1, 0):
            problems.append(
                'the renaming maps new -> old instead of old -> new '
                '(the pairs are (old, new))')
        elif args[1][2] != (0, 1):
            undecided.append('renaming map not recognised')
    a = calls.get('apply')
    if a is None or len(a.args) != 2 or not au.is_name(
            a.args[0], opname) or not (isinstance(
                a.args[1], ast.Starred) and au.is_name(
                    a.args[1].value, varargs)):
        problems.append('other operators are not sent to '
                        'apply(operator, *operands)')
    if problems:
        R.violation('R-GRAMMAR', 'translator', f.qualname, '_apply',
                    '; '.join(problems), unit=f.unit.rel, line=f.lineno)
    elif undecided:
        R.undecided('R-GRAMMAR', f.qualname, '_apply',
                    '; '.join(undecided))
    else:
        R.holds('R-GRAMMAR', f.qualname,
                '\\A/\\E -> quantify(expr, names, forall=(op == \\A)); '
                '\\S -> rename(expr, {old: new}); rest -> apply')
    # Parser._apply (syntax tree): \S operands reordered to (expr, subs)
    # constants and node references
    g = P.func('dd._parser._Translator._add_bool')
    t = au.src(g.node).replace(' ', '')
    if 'value=bool_literal.lower()' in t and \
            'returngetattr(self._bdd,value)' in t:
        R.holds('R-GRAMMAR', g.qualname, 'TRUE/FALSE -> bdd.true/false')
    else:
        R.undecided('R-GRAMMAR', g.qualname, '_add_bool', 'unrecognised')
    h = P.func('dd.bdd.BDD._add_int')
    t = au.src(h.node).replace(' ', '')
    if 'ifinotinself:' in t and 'returni' in t:
        R.holds('R-GRAMMAR', h.qualname, '@n: membership checked, the '
                'reference (with its sign) returned')
    else:
        R.violation('R-GRAMMAR', 'node-ref', h.qualname, '_add_int',
                    '@n no longer checks membership / returns the signed '
                    'reference', unit=h.unit.rel, line=h.lineno)


def printer_tokens(P, R, lexer):
    """Every constant fragment emitted by to_expr lexes to the intended
    token."""
    f = P.func('dd.bdd.BDD._to_expr')
    frags = []
    for n in au.walk_no_defs(f.node):
        if isinstance(n, ast.Return) and isinstance(
                n.value, ast.Constant) and isinstance(n.value.value, str):
            frags.append(n.value.value)
        if isinstance(n, ast.JoinedStr):
            for v in n.values:
                if isinstance(v, ast.Constant):
                    frags.append(v.value)
    allowed = {'TRUE', 'FALSE', 'ITE', 'NOT', 'LPAREN', 'RPAREN', 'COMMA'}
    bad = []
    n = 0
    want_first = {'TRUE': 'TRUE', 'FALSE': 'FALSE'}
    for fr in frags:
        toks = lexer.lex(fr)
        n += 1
        types = {t for t, _ in toks}
        if not types <= allowed:
            bad.append((fr, toks))
        if fr in want_first and toks != [(want_first[fr], fr)]:
            bad.append((fr, toks))
    if bad:
        R.violation(
            'R-FORMAT', 'printer-tokens', f.qualname, repr(bad[0][0]),
            f'to_expr emits {bad[0][0]!r}, which the lexer reads as '
            f'{bad[0][1]}: add_expr(to_expr(u)) is not u',
            unit=f.unit.rel, line=f.lineno)
    else:
        R.holds('R-FORMAT', f.qualname,
                f'{n} emitted fragment(s) lex to TRUE/FALSE/ite/~/(/)/,')
    R.floor('R-FORMAT printer fragments', n, 4)
