"""R-FORMAT (writer/reader agreement), R-BOUND, R-DISPATCH."""
import ast
import re

from .. import astutil as au
from ..frontend import AnalysisError


def dict_call_keys(fn, var=None):
    """Keys of the dictionary handed to `pickle.dump(<d>, ...)`, built by
    `<d> = dict(k=v, ...)` or `<d> = {'k': v, ...}` (or written in the
    call itself) -> {key: value expr}."""
    def keys_of(v):
        if isinstance(v, ast.Call) and au.call_name(v) == 'dict' and \
                not v.args:
            return {k.arg: k.value for k in v.keywords if k.arg}
        if isinstance(v, ast.Dict) and v.keys and all(
                isinstance(k, ast.Constant) and isinstance(k.value, str)
                for k in v.keys):
            return {k.value: x for k, x in zip(v.keys, v.values)}
        return None
    if var is None:
        for c in au.calls_in(fn, 'dump'):
            if c.args and isinstance(c.args[0], ast.Name):
                var = c.args[0].id
            elif c.args and keys_of(c.args[0]) is not None:
                return keys_of(c.args[0])
    for n in au.walk_no_defs(fn):
        if isinstance(n, ast.Assign) and var and au.is_name(
                n.targets[0], var) and keys_of(n.value) is not None:
            return keys_of(n.value)
    return None


def loaded_name(fn):
    """Name bound to the result of `pickle.load(...)`."""
    for n in au.walk_no_defs(fn):
        if isinstance(n, ast.Assign) and isinstance(
                n.value, ast.Call) and au.call_name(
                    n.value) == 'load' and isinstance(
                        n.targets[0], ast.Name):
            return n.targets[0].id
    return None


def subscript_keys(fn, var=None):
    """Constant keys read as `<d>['key']` from the loaded dictionary."""
    if var is None:
        var = loaded_name(fn)
    out = dict()
    for n in au.walk_no_defs(fn):
        if isinstance(n, ast.Subscript) and var and au.is_name(
                n.value, var) and isinstance(n.slice, ast.Constant):
            out.setdefault(n.slice.value, n)
    return out


def r_format(P, R):
    pickle_keys(P, R)
    optionality(P, R)
    json_fields(P, R)
    whole_dump(P, R)
    json_ids(P, R)
r_format.NAME = 'R-FORMAT'


def whole_dump(P, R):
    """A pickle dump without named roots stores every node of the
    manager: on the `roots is None` arm the dumped collection is the
    successor table itself."""
    f = P.func('dd.bdd.BDD._dump_bdd')
    roots = [p for p in f.params if p != 'self'][0]
    arm = None
    for s in f.node.body:
        if isinstance(s, ast.If) and isinstance(
                s.test, ast.Compare) and au.is_name(
                    s.test.left, roots) and isinstance(
                        s.test.ops[0], (ast.Is, ast.IsNot)):
            arm = s.body if isinstance(s.test.ops[0], ast.Is) else s.orelse
    if not arm:
        R.undecided('R-FORMAT', f.qualname, 'dump without roots',
                    'no `roots is None` arm')
        return
    vals = [s.value for s in arm if isinstance(s, ast.Assign)]
    if len(vals) != 1:
        R.undecided('R-FORMAT', f.qualname, 'dump without roots',
                    'arm not a single assignment')
        return
    v = vals[0]
    inner = v
    while isinstance(inner, ast.Call) and au.call_name(inner) in (
            'list', 'set', 'dict', 'tuple', 'keys', 'sorted', 'iter'):
        if inner.args:
            inner = inner.args[0]
        elif isinstance(inner.func, ast.Attribute):
            inner = inner.func.value
        else:
            break
    ch = au.chain(inner)
    if ch and ch[0] == 'self' and ch[-1] in ('_succ', '_ref'):
        R.holds('R-FORMAT', f.qualname,
                f'without roots the dump stores all of `{".".join(ch)}`')
    elif isinstance(inner, (ast.ListComp, ast.SetComp, ast.DictComp,
                            ast.GeneratorExp)) and any(
                                g.ifs for g in inner.generators):
        R.violation(
            'R-FORMAT', 'whole-dump-filtered', f.qualname, 'nodes',
            f'without roots `{au.short(v, 60)}` leaves nodes out of the '
            'dump: the file no longer holds every node of the manager '
            '(a node that is in the table but has no reference at the '
            'moment is lost, although it may be the only copy of a '
            'result the user still names by number)', unit=f.unit.rel,
            line=v.lineno)
    else:
        R.undecided('R-FORMAT', f.qualname, 'dump without roots',
                    f'`{au.short(v, 40)}` not recognised')


def pickle_keys(P, R):
    pairs = [('dd.bdd.BDD._dump_bdd', 'dd.bdd.BDD._load_pickle'),
             ('dd.bdd.BDD._dump_manager', 'dd.bdd.BDD._load_manager')]
    for wq, rq in pairs:
        w, r = P.func(wq), P.func(rq)
        wk = dict_call_keys(w.node)
        rk = subscript_keys(r.node)
        if wk is None or not rk:
            raise AnalysisError(
                f'{wq} / {rq}: the pickled dictionary is no longer built '
                'by dict(...) and read by d[...]')
        missing = set(rk) - set(wk)
        unread = set(wk) - set(rk)
        if missing:
            R.violation(
                'R-FORMAT', 'pickle-keys', rq, ','.join(sorted(missing)),
                f'the reader uses key(s) {sorted(missing)} that the writer '
                f'{wq} does not store ({sorted(wk)})', unit=r.unit.rel,
                line=r.lineno)
        elif unread:
            R.violation(
                'R-FORMAT', 'pickle-keys', rq, ','.join(sorted(unread)),
                f'the writer {wq} stores {sorted(unread)} but the reader '
                'ignores it: that part of the dump is not restored',
                unit=r.unit.rel, line=r.lineno)
        else:
            R.holds('R-FORMAT', rq, f'reads exactly the keys {sorted(wk)} '
                    f'written by {wq}')
    # what each key holds
    w = P.func('dd.bdd.BDD._dump_bdd')
    wk = dict_call_keys(w.node)
    exp = {'vars': 'self.vars', 'roots': 'roots'}
    for k, want in exp.items():
        got = au.src(wk[k]).replace(' ', '') if k in wk else None
        if got == want:
            R.holds('R-FORMAT', w.qualname, f'{k} = {want}',
                    nontrivial=False)
        else:
            R.violation('R-FORMAT', 'pickle-content', w.qualname, k,
                        f'key `{k}` holds `{got}` instead of `{want}`',
                        unit=w.unit.rel, line=w.lineno)
    # the node table of the dump, and what load() makes of it: decided on
    # the round-trip model
    from . import models
    models.pickle_roundtrip_model(P, R)
    # whole-manager dump: every persistent table is stored and restored
    wm = P.func('dd.bdd.BDD._dump_manager')
    rm = P.func('dd.bdd.BDD._load_manager')
    wk = dict_call_keys(wm.node)
    attr_of = {k: au.src(v).replace(' ', '') for k, v in wk.items()}
    need = {'self.vars', 'self.max_nodes', 'self.roots', 'self._pred',
            'self._succ', 'self._ref', 'self._min_free'}
    missing = need - set(attr_of.values())
    if missing:
        R.violation('R-FORMAT', 'manager-state', wm.qualname,
                    ','.join(sorted(missing)),
                    f'the whole-manager dump omits {sorted(missing)}',
                    unit=wm.unit.rel, line=wm.lineno)
    else:
        R.holds('R-FORMAT', wm.qualname, 'stores all persistent tables')
    restored = dict()
    dname = loaded_name(rm.node)
    for n in au.walk_no_defs(rm.node):
        if isinstance(n, ast.Assign) and isinstance(
                n.targets[0], ast.Attribute) and isinstance(
                    n.targets[0].value, ast.Name) and isinstance(
                        n.value, ast.Subscript) and dname and au.is_name(
                            n.value.value, dname):
            restored['self.' + n.targets[0].attr] = n.value.slice.value
    bad = []
    for k, a in attr_of.items():
        if a == 'self.vars':
            continue     # passed to the constructor
        if restored.get(a) != k:
            bad.append(f'{a} <- d[{restored.get(a)!r}] (written as {k!r})')
    if bad:
        R.violation('R-FORMAT', 'manager-state', rm.qualname, 'restore',
                    'the whole-manager loader restores '
                    + '; '.join(bad), unit=rm.unit.rel, line=rm.lineno)
    else:
        R.holds('R-FORMAT', rm.qualname, 'each table is restored from the '
                'key it was written under')


def optionality(P, R):
    """A field the writer may store as None is None-tested by the reader
    before it is iterated (F8)."""
    w = P.func('dd.bdd.BDD._dump_bdd')
    # does the writer have an `is None` arm on `roots` and store it as is?
    none_arm = any(
        isinstance(n, ast.If) and au.src(n.test).replace(
            ' ', '') == 'rootsisNone' for n in au.walk_no_defs(w.node))
    wk = dict_call_keys(w.node)
    stores_raw = wk is not None and au.is_name(wk.get('roots'), 'roots')
    if not (none_arm and stores_raw):
        R.holds('R-FORMAT', w.qualname,
                'roots is never stored as None', nontrivial=False)
        return
    # reader: d['roots'] flows out of _load_pickle into load
    ld = P.func('dd.bdd.BDD.load')
    # name bound to the second component of _load_pickle's result
    rname = None
    for n in au.walk_no_defs(ld.node):
        if isinstance(n, ast.Assign) and isinstance(
                n.value, ast.Call) and au.call_name(
                    n.value) == '_load_pickle' and isinstance(
                        n.targets[0], ast.Tuple) and len(
                            n.targets[0].elts) == 2:
            rname = n.targets[0].elts[1].id
    if rname is None:
        raise AnalysisError('dd.bdd.BDD.load no longer unpacks '
                            '_load_pickle()')
    guarded = False
    first_iter = None
    for n in sorted((x for x in au.walk_no_defs(ld.node)
                     if hasattr(x, 'lineno')), key=lambda x: x.lineno):
        if isinstance(n, ast.If):
            t = au.src(n.test).replace(' ', '')
            if t in (f'{rname}isNone', f'not{rname}',
                     f'{rname}isnotNone'):
                if first_iter is None:
                    guarded = True
        if isinstance(n, ast.Call) and au.call_name(n) in (
                '_map_container', 'map', 'list', 'set') and any(
                    au.is_name(a, rname) for a in n.args):
            if first_iter is None:
                first_iter = n
    if guarded:
        R.holds('R-FORMAT', ld.qualname,
                f'`{rname}` (stored as None by a root-less dump) is '
                'None-tested before it is iterated')
    else:
        R.violation(
            'R-FORMAT', 'optional-field', ld.qualname, 'roots',
            'a pickle written without naming roots stores roots=None, but '
            f'load() iterates `{rname}` without a None test '
            f'(`{au.short(first_iter) if first_iter else "?"}`): loading '
            'a whole-manager dump of nodes raises TypeError',
            unit=ld.unit.rel,
            line=first_iter.lineno if first_iter else ld.lineno)


def json_fields(P, R):
    w = P.func('dd._copy._dump_bdd_info')
    rd = P.func('dd._copy._store_line')
    text = ''
    for n in ast.walk(w.node):
        if isinstance(n, ast.Constant) and isinstance(n.value, str):
            text += n.value
    written = set(re.findall(r'"([a-z_]+)":', text))
    read = set()
    for c in au.calls_in(rd.node, 'get'):
        if c.args and isinstance(c.args[0], ast.Constant) and au.is_name(
                c.func.value, 'd'):
            read.add(c.args[0].value)
    if written and written == read:
        R.holds('R-FORMAT', rd.qualname,
                f'JSON header fields {sorted(written)} written == read')
    else:
        R.violation(
            'R-FORMAT', 'json-fields', rd.qualname, 'header',
            f'JSON header fields written {sorted(written)} differ from '
            f'those read {sorted(read)}', unit=rd.unit.rel,
            line=rd.lineno)
    # terminal encoding
    dw = P.func('dd._copy._dump_bdd')
    enc = dict()
    for n in au.walk_no_defs(dw.node):
        if isinstance(n, ast.If) and len(n.body) == 1 and isinstance(
                n.body[0], ast.Return) and isinstance(
                    n.body[0].value, ast.Constant):
            t = au.src(n.test).replace(' ', '')
            if t.endswith('.true'):
                enc[True] = n.body[0].value.value.strip('"')
            elif t.endswith('.false'):
                enc[False] = n.body[0].value.value.strip('"')
    dd = P.func('dd._copy._decode_node')
    if set(enc) != {True, False}:
        raise AnalysisError(
            'dd._copy._dump_bdd: the encoding of the terminals is no '
            'longer `if u == ....true: return "T"` / `....false`')
    # the decoder is run on the two codes and on node numbers
    from .. import interp
    prm = dd.params[0]
    dec = dict()
    try:
        for code in (enc[True], enc[False], '7', '-7', '12'):
            out, _ = interp.run_function(dd.node, {prm: code}, {})
            dec[code] = out[1] if out[0] == 'return' else out
    except interp.Unknown as e:
        R.undecided('R-FORMAT', dd.qualname, 'terminal decoding', str(e))
        dec = None
    if dec is None:
        pass
    elif dec.get(enc[True]) == 1 and dec.get(enc[False]) == -1 and \
            dec.get('7') == 7 and dec.get('-7') == -7 and \
            dec.get('12') == 12:
        R.holds('R-FORMAT', dd.qualname,
                f'terminals: true -> "{enc[True]}" -> 1, false -> '
                f'"{enc[False]}" -> -1; numbers decode to themselves')
    else:
        R.violation(
            'R-FORMAT', 'json-terminals', dd.qualname, 'T/F',
            f'JSON terminal encoding {enc} is not decoded back to '
            f'(1, -1), or node numbers not to themselves: {dec}',
            unit=dd.unit.rel, line=dd.lineno)
    # the level stored with a node is the node's own level; the reader
    # maps it to a variable by the table written in the header
    mk = P.func('dd._copy._make_node')
    lookups = [n for n in au.walk_no_defs(mk.node)
               if isinstance(n, ast.Subscript) and isinstance(
                   n.value, ast.Subscript) and au.is_name(
                       n.value.value, 'context')]
    keys = {n.value.slice.value: au.src(n.slice) for n in lookups
            if isinstance(n.value.slice, ast.Constant)}
    if keys.get('var_at_level') == 'level':
        R.holds('R-FORMAT', mk.qualname, 'node level -> variable through '
                'the header table of the same file')
    elif 'level_of_var' in keys and 'var_at_level' not in keys:
        R.violation('R-FORMAT', 'json-fields', mk.qualname, 'level',
                    'the stored level of a node is looked up in the '
                    'name -> level table instead of the level -> name '
                    'table', unit=mk.unit.rel, line=mk.lineno)
    else:
        # the level decoded by the RECEIVING manager?
        mgr = [p for p in mk.params][1:2]
        by_target = [c for c in au.calls_in(mk.node)
                     if au.call_name(c) in ('var_at_level',)
                     and mgr and au.call_recv(c) == mgr]
        if by_target:
            R.violation(
                'R-FORMAT', 'json-fields', mk.qualname, 'var_at_level',
                f'`{au.short(by_target[0])}` translates the level stored '
                'in the FILE with the level table of the receiving '
                'manager: right only while the manager has the order of '
                'the file (a different order, or a reordering in the '
                'middle of the load, labels the nodes with other '
                'variables)', unit=mk.unit.rel, line=by_target[0].lineno)
        else:
            R.undecided('R-FORMAT', mk.qualname, 'level -> variable',
                        'unrecognised form')
    inv = None
    for n in au.walk_no_defs(rd.node):
        if isinstance(n, ast.Assign) and isinstance(
                n.targets[0], ast.Subscript) and au.is_name(
                    n.targets[0].value, 'context') and isinstance(
                        n.targets[0].slice, ast.Constant) and \
                n.targets[0].slice.value == 'var_at_level':
            inv = n.value
    if isinstance(inv, ast.DictComp) and isinstance(
            inv.generators[0].target, ast.Tuple):
        a, b = [au.src(e) for e in inv.generators[0].target.elts]
        if (au.src(inv.key), au.src(inv.value)) == (b, a):
            R.holds('R-FORMAT', rd.qualname, 'var_at_level is the inverse '
                    'of level_of_var')
        else:
            R.violation('R-FORMAT', 'json-fields', rd.qualname,
                        'var_at_level', 'var_at_level is not the inverse '
                        'of the level_of_var header', unit=rd.unit.rel,
                        line=rd.lineno)
    elif inv is not None and 'bdd' in au.names_loaded(inv):
        R.violation(
            'R-FORMAT', 'json-fields', rd.qualname, 'var_at_level',
            f'`{au.short(inv, 70)}`: the table that decodes the levels '
            'stored with the nodes of the file is computed from the '
            'receiving manager, not from the level_of_var header of the '
            'file: when the manager orders the variables differently the '
            'nodes are built on other variables', unit=rd.unit.rel,
            line=inv.lineno)
    else:
        R.undecided('R-FORMAT', rd.qualname, 'var_at_level',
                    'unrecognised form')


# ------------------------------------------------------------------ R-BOUND
def r_bound(P, R):
    """add_var / _check_var / _next_free_level / _init_terminal, decided by
    interpreting them over small managers (rules/models.py)."""
    from . import models
    models.add_var_model(P, R)
r_bound.NAME = 'R-BOUND'


# --------------------------------------------------------------- R-DISPATCH
def r_dispatch(P, R):
    f = P.func('dd.bdd.BDD.let')
    order = []
    for n in sorted((x for x in au.walk_no_defs(f.node)
                     if isinstance(x, ast.Call)),
                    key=lambda c: (c.lineno, c.col_offset)):
        if au.call_name(n) == 'isinstance' and len(n.args) == 2:
            order.append(au.src(n.args[1]))
    calls = [au.call_name(c) for c in sorted(
        au.calls_in(f.node), key=lambda c: (c.lineno, c.col_offset))
        if au.call_recv(c) == ['self']]
    if order[:2] == ['bool', 'int']:
        R.holds('R-DISPATCH', f.qualname, 'bool is tested before int '
                '(bool is a subclass of int)')
    else:
        R.violation(
            'R-DISPATCH', 'order', f.qualname, 'isinstance',
            f'the type tests run in the order {order}: Boolean values are '
            'instances of int, so testing int first sends a cofactor '
            'request to compose (True would be read as node 1)',
            unit=f.unit.rel, line=f.lineno)
    # each arm calls the operation of its kind
    arms = dict()
    for n in au.walk_no_defs(f.node):
        if isinstance(n, ast.If) and isinstance(n.test, ast.Call) and \
                au.call_name(n.test) == 'isinstance':
            kind = au.src(n.test.args[1])
            for s in n.body:
                for c in au.calls_in(s):
                    if au.call_recv(c) == ['self']:
                        arms[kind] = au.call_name(c)
    want = {'bool': 'cofactor', 'int': 'compose'}
    last = [c for c in calls if c == 'rename']
    if all(arms.get(k) == v for k, v in want.items()) and last:
        R.holds('R-DISPATCH', f.qualname, 'bool -> cofactor, int -> '
                'compose, names -> rename')
    else:
        R.violation(
            'R-DISPATCH', 'arms', f.qualname, 'let',
            f'let dispatches {arms} (expected {want}, then rename)',
            unit=f.unit.rel, line=f.lineno)
    # the argument order of the delegations: (u, d)
    for c in au.calls_in(f.node):
        if au.call_recv(c) == ['self'] and au.call_name(c) in (
                'cofactor', 'compose', 'rename'):
            a = [au.alias_of(f.node, x.id) if isinstance(x, ast.Name)
                 else au.src(x) for x in c.args]
            params = [x for x in f.params if x != 'self']
            if a != [params[1], params[0]]:
                R.violation(
                    'R-DISPATCH', 'arguments', f.qualname,
                    au.call_name(c),
                    f'`{au.short(c)}` does not pass (u, definitions)',
                    unit=f.unit.rel, line=c.lineno)
    # dd.autoref.let converts Function values to nodes, nothing else
    g = P.func('dd.autoref.BDD.let')
    fwd = [c for c in au.calls_in(g.node, 'let')
           if au.call_recv(c) == ['self', '_bdd']]
    node_conv = any(
        isinstance(n, ast.Attribute) and n.attr == 'node'
        for c in fwd for n in ast.walk(c))
    cases = [au.src(c.pattern).replace(' ', '')
             for m in au.walk_no_defs(g.node) if isinstance(m, ast.Match)
             for c in m.cases]
    if fwd and node_conv and any('Function()' in c for c in cases) and \
            any('str()' in c and 'bool()' in c for c in cases):
        R.holds('R-DISPATCH', g.qualname, 'names and Booleans pass '
                'through, Functions are converted to nodes')
    elif not fwd:
        R.violation('R-DISPATCH', 'autoref', g.qualname, 'let',
                    'dd.autoref.BDD.let no longer forwards to the let of '
                    'the underlying manager', unit=g.unit.rel,
                    line=g.lineno)
    else:
        R.undecided('R-DISPATCH', g.qualname, 'let', 'unrecognised form')
    # the manager's let() decides by the type of the FIRST value what all
    # values are: a helper that converts Function values must turn every
    # one of them into the same kind of thing (its node), not some of
    # them into Booleans
    for h in [x for x in ast.walk(g.node) if isinstance(
            x, ast.FunctionDef) and x is not g.node]:
        rets = [r for r in ast.walk(h) if isinstance(r, ast.Return)
                and r.value is not None]
        kinds = set()
        for r in rets:
            v = r.value
            if isinstance(v, ast.Attribute) and v.attr == 'node':
                kinds.add('node')
            elif isinstance(v, (ast.Compare, ast.BoolOp)) or (
                    isinstance(v, ast.Constant) and isinstance(
                        v.value, bool)) or (isinstance(
                            v, ast.Call) and au.call_name(v) == 'bool'):
                kinds.add('bool')
            else:
                kinds.add('other')
        if 'node' in kinds and 'bool' in kinds:
            bad = [r for r in rets if not (isinstance(
                r.value, ast.Attribute) and r.value.attr == 'node')][0]
            R.violation(
                'R-DISPATCH', 'mixed-kinds', g.qualname, h.name,
                f'the helper `{h.name}` returns a node for some Function '
                f'values and a Boolean for others (`{au.short(bad, 40)}`'
                '): the manager decides by the first value whether ALL '
                'values are Booleans (cofactor) or nodes (compose), so a '
                'mixed dictionary is handled as the wrong kind - nodes '
                'read as True, or False used as a node',
                unit=g.unit.rel, line=bad.lineno)
        elif kinds == {'node'}:
            R.holds('R-DISPATCH', g.qualname,
                    f'`{h.name}` converts every Function to its node')
r_dispatch.NAME = 'R-DISPATCH'


def json_ids(P, R):
    """Two numberings meet in the JSON loader: the node ids of the FILE
    and the node numbers of the receiving MANAGER.  The memo (`cache`)
    maps the first to the second.  `bdd._add_int(n)` takes a manager
    number: its argument has to come out of the memo, never be a file id
    (a key of the memo, a field of a record)."""
    n = 0
    for f in sorted(P.all_funcs({'dd._copy'}), key=lambda f: f.qualname):
        for c in au.calls_in(f.node, '_add_int'):
            if not c.args:
                continue
            n += 1
            a = c.args[0]
            src = a
            if isinstance(a, ast.Name):
                defs = au.assignments_to(f.node, a.id)
                if len(defs) == 1:
                    src = defs[0].value
            from_memo = isinstance(src, ast.Subscript) and isinstance(
                src.value, ast.Name) and src.value.id in f.params
            if from_memo:
                R.holds('R-FORMAT', f.qualname,
                        f'`{au.short(c, 40)}`: manager number read from '
                        f'the memo `{src.value.id}`')
            else:
                R.violation(
                    'R-FORMAT', 'file-id-as-node', f.qualname,
                    au.short(a, 30),
                    f'`{au.short(c, 50)}` makes a reference from '
                    f'`{au.short(src, 40)}`, which is not a number taken '
                    'out of the loader\'s memo: a node id of the file is '
                    'used as a node number of the manager (right only '
                    'when a file is loaded into the manager it was '
                    'dumped from)', unit=f.unit.rel, line=c.lineno)
    R.floor('R-FORMAT _add_int sites in dd._copy', n, 1)
