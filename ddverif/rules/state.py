"""R-NORM, R-PAIR(a), R-WRITERS, R-INVMAP: node-table state rules."""
import ast

from .. import astutil as au
from .. import paths as pa
from ..frontend import AnalysisError

TABLES = {'_succ', '_pred', '_ref', '_min_free', 'vars', '_level_to_var'}
MUTATING = {'pop', 'popitem', 'clear', 'update', 'setdefault', 'add',
            'remove', 'discard', 'append', 'extend', 'insert',
            'difference_update', 'intersection_update',
            'symmetric_difference_update', '__setitem__', '__delitem__'}


def stmt_items(path):
    return [it[1] for it in path if it[0] == 'stmt']


def is_call_stmt(s, name, recv=None):
    """`[x =] recv.name(...)` statement -> the Call or None."""
    for c in au.calls_in(s):
        if au.call_name(c) == name and (
                recv is None or au.call_recv(c) == recv):
            return c
    return None


def sub_store(s, base):
    """`self.<base>[K] = V` -> (K, V) or None."""
    if isinstance(s, ast.Assign) and len(s.targets) == 1:
        t = s.targets[0]
        if isinstance(t, ast.Subscript) and au.chain(t.value) == [
                'self', base]:
            return t.slice, s.value
    return None


# ------------------------------------------------------------------- R-NORM
def r_norm(P, R):
    """The normal form kept by find_or_add: decided by interpreting it
    for every valid request on small managers (rules/models.py)."""
    from . import models
    n = models.find_or_add_model(
        P, R, 'dd.mdd.MDD' if R.prop == 'C15' else 'dd.bdd.BDD')
    if R.prop == 'C15':
        models.mdd_cofactor_model(P, R)
        models.mdd_operations_model(P, R)
    if n is not None:
        R.floor('R-NORM requests of find_or_add', n, 100)
r_norm.NAME = 'R-NORM'


# ------------------------------------------------------------------ R-PAIR(a)
def calls_on_path(path, name, after=None, before=None):
    """Calls `self.name(arg)` on the path between two statement nodes."""
    out = []
    active = after is None
    for it in path:
        if it[0] != 'stmt':
            continue
        s = it[1]
        if s is after:
            active = True
            continue
        if s is before:
            break
        if active:
            for c in au.calls_in(s):
                if au.call_name(c) == name and au.call_recv(c) == ['self']:
                    out.append(c)
    return out


def arg_names(calls):
    r = set()
    for c in calls:
        for a in c.args:
            nm = a.id if isinstance(a, ast.Name) else au.is_abs_of(a)
            if not nm:
                continue
            r.add(nm)
            # `for c in (v, w): self.decref(c)`: one call per element of
            # a tuple / list literal (a set literal de-duplicates and is
            # not expanded)
            p = getattr(c, '_parent', None)
            while p is not None and not (isinstance(
                    p, ast.For) and au.is_name(p.target, nm)):
                p = getattr(p, '_parent', None)
            if p is not None and isinstance(p.iter, (ast.Tuple, ast.List)):
                for e in p.iter.elts:
                    en = e.id if isinstance(e, ast.Name) else \
                        au.is_abs_of(e)
                    if en:
                        r.add(en)
    return r


def pair_find_or_add(P, R, q):
    """A new node starts with count zero and takes one reference on each
    successor: part of the find_or_add model."""
    from . import models
    models.find_or_add_model(P, R, q.rsplit('.', 1)[0])


def pair_counters(P, R, cls='dd.bdd.BDD'):
    """incref adds one; decref subtracts one only when positive: decided
    on the small model (rules/models.py)."""
    from . import models
    models.counters_model(P, R, cls)


def pair_collect(P, R, q):
    """collect_garbage: each removed node releases both children and the
    children that drop to zero are queued."""
    f = P.func(q)
    fn = f.node
    loops = [n for n in au.walk_no_defs(fn) if isinstance(n, ast.While)]
    if len(loops) != 1:
        raise AnalysisError(f'{q}: expected one work-list loop')
    loop = loops[0]
    # the work list is the collection the `while` loop drains
    wl = loop.test.id if isinstance(loop.test, ast.Name) else None
    n = 0
    for items, out in pa.block_paths(loop.body):
        if out not in ('fall', 'continue'):
            continue
        path = items
        pop = None
        kids = []
        for it in path:
            if it[0] == 'stmt' and isinstance(it[1], ast.Assign) and \
                    isinstance(it[1].value, ast.Call) and au.call_name(
                        it[1].value) == 'pop' and au.chain(
                            it[1].value.func.value) == ['self', '_succ']:
                pop = it[1]
        if pop is None:
            R.violation(
                'R-PAIR', 'collect', q, 'pop',
                'an iteration of the sweep does not remove the node from '
                'the node table', unit=f.unit.rel, line=loop.lineno)
            continue
        n += 1
        t = pop.targets[0]
        mdd = False
        if isinstance(t, ast.Tuple) and len(t.elts) == 3:
            kids = [e.id for e in t.elts[1:] if isinstance(e, ast.Name)]
        else:
            mdd = True
        stmts = stmt_items(path)
        # companions
        others = {'_pred': False, '_ref': False}
        for s in stmts:
            for c in au.calls_in(s, 'pop'):
                ch = au.chain(c.func.value)
                if ch and ch[0] == 'self' and ch[-1] in others:
                    others[ch[-1]] = True
        for k, v in others.items():
            if not v:
                R.violation(
                    'R-PAIR', 'collect', q, k,
                    f'a removed node keeps its entry in {k}',
                    unit=f.unit.rel, line=pop.lineno)
        if mdd:
            loops2 = [it[1] for it in path if it[0] == 'loop'
                      and isinstance(it[1], ast.For)]
            ok = any(
                any(au.call_name(c) == 'decref' for c in au.calls_in(lp))
                and any(au.call_name(c) == 'add' and au.call_recv(c) == [
                    wl] for c in au.calls_in(lp))
                for lp in loops2)
            if ok:
                R.holds('R-PAIR', q, 'every successor of a removed node is '
                        'released and queued when its count drops to zero')
            else:
                R.violation(
                    'R-PAIR', 'collect', q, 'decref',
                    'successors of a removed MDD node are not all released '
                    'and queued', unit=f.unit.rel, line=pop.lineno)
            continue
        decs = arg_names(calls_on_path(path, 'decref', after=pop))
        missing = [k for k in kids if k not in decs]
        if missing:
            R.violation(
                'R-PAIR', 'collect', q, 'decref',
                f'a removed node does not release its child(ren) '
                f'{missing}: their counts stay too high and they are never '
                'collected', unit=f.unit.rel, line=pop.lineno,
                path=pa.describe(path))
            continue
        # enqueue: an `if` on the child's count that adds it to the queue
        for k in kids:
            ok = False
            for n2 in au.walk_no_defs(loop):
                if isinstance(n2, ast.If) and n2.lineno > pop.lineno:
                    tsrc = au.src(n2.test).replace(' ', '')
                    if (f'self._ref[abs({k})]' in tsrc
                            or f'self._ref[{k}]' in tsrc):
                        adds = [c for b in n2.body
                                for c in au.calls_in(b, 'add')]
                        if any(k in au.names_loaded(c) for c in adds):
                            ok = True
            if not ok:
                R.violation(
                    'R-PAIR', 'collect', q, f'enqueue:{k}',
                    f'child `{k}` of a removed node is not queued when its '
                    'count drops to zero: the cascade stops early',
                    unit=f.unit.rel, line=pop.lineno)
        R.holds('R-PAIR', q, 'every removed node releases both children '
                'and queues those that drop to zero')
    R.floor(f'R-PAIR sweep paths of {q}', n, 1)
    # the queue is seeded only with zero-count nodes
    # every assignment that fills the work list before the loop filters
    # on a zero count: `filter(<pred reading _ref>, ...)`, or a
    # comprehension with `if not self.ref(u)` / `if not self._ref[...]`
    def reads_count(e):
        t = au.src(e).replace(' ', '')
        return 'self._ref[' in t or 'self.ref(' in t
    zero_preds = set()
    for d in ast.walk(fn):
        if isinstance(d, ast.FunctionDef) and d is not fn:
            rets = [x for x in ast.walk(d) if isinstance(x, ast.Return)]
            if rets and all(isinstance(r.value, ast.UnaryOp) and isinstance(
                    r.value.op, ast.Not) and reads_count(r.value.operand)
                    for r in rets):
                zero_preds.add(d.name)
    seeded = False
    for n2 in au.walk_no_defs(fn):
        if isinstance(n2, ast.Call) and au.call_name(n2) == 'filter' and \
                n2.args and isinstance(n2.args[0], ast.Name) and \
                n2.args[0].id in zero_preds:
            seeded = True
        if isinstance(n2, (ast.SetComp, ast.ListComp, ast.GeneratorExp)):
            for g in n2.generators:
                for c in g.ifs:
                    if isinstance(c, ast.UnaryOp) and isinstance(
                            c.op, ast.Not) and reads_count(c.operand):
                        seeded = True
    if seeded:
        R.holds('R-PAIR', q, 'the work list is seeded with zero-count '
                'nodes only')
    else:
        R.violation(
            'R-PAIR', 'collect', q, 'seed',
            'the work list is not filtered to zero-count nodes: referenced '
            'nodes can be deleted', unit=f.unit.rel, line=fn.lineno)


def pair_swap(P, R):
    f = P.func('dd.bdd.BDD.swap')
    fn = f.node
    q = f.qualname
    au.set_parents(fn)
    loops = [n for n in fn.body if isinstance(n, ast.For)]
    n = 0
    rewrites = 0
    garbage_sets = set()
    for lp in loops:
        stores = [s for s in au.walk_no_defs(lp) if sub_store(s, '_succ')]
        if not stores:
            continue
        # old children: names bound by the loop target `u, (v, w)`
        old = []
        if isinstance(lp.target, ast.Tuple) and len(
                lp.target.elts) == 2 and isinstance(
                    lp.target.elts[1], ast.Tuple):
            old = [e.id for e in lp.target.elts[1].elts
                   if isinstance(e, ast.Name)]
            node = lp.target.elts[0].id if isinstance(
                lp.target.elts[0], ast.Name) else None
        else:
            continue
        for items, out in pa.block_paths(lp.body):
            path = items
            st = [s for s in stmt_items(path) if sub_store(s, '_succ')]
            if not st:
                continue
            n += 1
            store = st[-1]
            key, val = sub_store(store, '_succ')
            if not au.is_name(key, node):
                R.violation(
                    'R-PAIR', 'identity', q, 'store',
                    f'`{au.short(store)}` does not rewrite the node taken '
                    f'from the level (`{node}`): node identity is lost',
                    unit=f.unit.rel, line=store.lineno)
            tup = val
            if isinstance(val, ast.Name):
                defs = [s for s in stmt_items(path) if isinstance(
                    s, ast.Assign) and au.is_name(s.targets[0], val.id)]
                tup = defs[-1].value if defs else None
            if not isinstance(tup, ast.Tuple) or len(tup.elts) != 3:
                R.undecided('R-PAIR', q, 'stored triple', 'unrecognised')
                continue
            kids = [au.src(e) for e in tup.elts[1:]]
            # have the old children been reassigned on this path?
            reassigned = set()
            for s in stmt_items(path):
                if s is store:
                    break
                reassigned |= au.assigned_names(s) & set(old)
            if kids == old and not reassigned:
                # level-only relabel: no edge changes
                incs = arg_names(calls_on_path(path, 'incref'))
                decs = arg_names(calls_on_path(path, 'decref'))
                if incs or decs:
                    R.violation(
                        'R-PAIR', 'relabel', q, 'count',
                        'a level-only relabel changes reference counts',
                        unit=f.unit.rel, line=store.lineno)
                else:
                    R.holds('R-PAIR', q, f'loop at line {lp.lineno}: '
                            'level-only relabel, counts untouched',
                            nontrivial=False)
                continue
            rewrites += 1
            decs = arg_names(calls_on_path(path, 'decref', before=store))
            incs = arg_names(calls_on_path(path, 'incref', after=store))
            miss_d = [k for k in old if k not in decs]
            miss_i = [k for k in kids if k not in incs]
            gar = set()
            for s in stmt_items(path):
                for c in au.calls_in(s, 'add'):
                    rc = au.call_recv(c)
                    if rc and len(rc) == 1 and c.args:
                        nm = au.is_abs_of(c.args[0]) or (
                            c.args[0].id if isinstance(
                                c.args[0], ast.Name) else None)
                        if nm in old:
                            gar.add(nm)
                            garbage_sets.add(rc[0])
            miss_g = [k for k in old if k not in gar]
            if miss_d:
                R.violation(
                    'R-PAIR', 'swap-release', q, 'decref',
                    f'the rewritten node keeps counts on its old '
                    f'child(ren) {miss_d}', unit=f.unit.rel,
                    line=store.lineno, path=pa.describe(path))
            if miss_i:
                R.violation(
                    'R-PAIR', 'swap-acquire', q, 'incref',
                    f'the rewritten node takes no count on its new '
                    f'child(ren) {miss_i}: they can be collected while '
                    'referenced', unit=f.unit.rel, line=store.lineno,
                    path=pa.describe(path))
            if miss_g:
                R.violation(
                    'R-PAIR', 'swap-garbage', q, 'garbage',
                    f'old child(ren) {miss_g} are not handed to the rooted '
                    'collection', unit=f.unit.rel, line=store.lineno)
            if not (miss_d or miss_i or miss_g):
                R.holds('R-PAIR', q, f'loop at line {lp.lineno}: old '
                        'children released and queued, new children '
                        'acquired')
    # the rooted collection is run on the set that received the children
    cg = [c for s in fn.body for c in au.calls_in(s, 'collect_garbage')
          if c.args]
    if garbage_sets and not any(
            isinstance(c.args[0], ast.Name) and c.args[0].id in garbage_sets
            for c in cg):
        R.violation(
            'R-PAIR', 'swap-garbage', q, 'collect',
            f'swap does not collect the released children '
            f'({sorted(garbage_sets)})', unit=f.unit.rel, line=fn.lineno)
    R.floor('R-PAIR store paths in swap', n, 3)
    R.floor('R-PAIR rewriting paths in swap', rewrites, 1)


def r_pair(P, R):
    if R.prop == 'C15':
        pair_find_or_add(P, R, 'dd.mdd.MDD.find_or_add')
        pair_collect(P, R, 'dd.mdd.MDD.collect_garbage')
        mdd_counters(P, R)
        return
    if R.prop in ('C06', 'C02'):
        pair_find_or_add(P, R, 'dd.bdd.BDD.find_or_add')
    if R.prop == 'C06':
        pair_counters(P, R)
        pair_collect(P, R, 'dd.bdd.BDD.collect_garbage')
    if R.prop in ('C06', 'C07', 'C08'):
        pair_swap(P, R)
r_pair.NAME = 'R-PAIR(node tables)'


def mdd_counters(P, R):
    from . import models
    models.counters_model(P, R, 'dd.mdd.MDD')


# ----------------------------------------------------------------- R-WRITERS
ALLOWED_WRITERS = {
    'dd.bdd.BDD.__init__', 'dd.bdd.BDD.__copy__',
    'dd.bdd.BDD._init_terminal', 'dd.bdd.BDD.incref', 'dd.bdd.BDD.decref',
    'dd.bdd.BDD.add_var', 'dd.bdd.BDD.undeclare_vars',
    'dd.bdd.BDD.find_or_add', 'dd.bdd.BDD.collect_garbage',
    'dd.bdd.BDD.update_predecessors', 'dd.bdd.BDD.swap',
    'dd.bdd.BDD._load_manager',
    # the MDD manager owns tables of the same names
    'dd.mdd.MDD.__init__', 'dd.mdd.MDD.incref', 'dd.mdd.MDD.decref',
    'dd.mdd.MDD.find_or_add', 'dd.mdd.MDD.collect_garbage',
    'dd.mdd.MDD.var_at_level',
    # aliases the manager's `vars` dict on the wrapper (no table write)
    'dd.autoref.BDD.__init__',
}


def table_writes(fn):
    """(node, table, how) for every write to a table attribute."""
    out = []
    for n in au.walk_no_defs(fn):
        targets = []
        if isinstance(n, ast.Assign):
            targets = n.targets
        elif isinstance(n, (ast.AugAssign, ast.AnnAssign)):
            targets = [n.target]
        elif isinstance(n, ast.Delete):
            targets = n.targets
        for t in targets:
            for x in ([t] if not isinstance(t, ast.Tuple) else t.elts):
                base = x
                how = 'rebind'
                if isinstance(x, ast.Subscript):
                    base = x.value
                    how = 'item'
                if isinstance(base, ast.Attribute) and base.attr in TABLES:
                    out.append((n, base.attr, how))
        if isinstance(n, ast.Call) and isinstance(n.func, ast.Attribute) \
                and n.func.attr in MUTATING and isinstance(
                    n.func.value, ast.Attribute) and \
                n.func.value.attr in TABLES:
            out.append((n, n.func.value.attr, n.func.attr))
    return out


def r_writers(P, R):
    mods = {'dd.bdd', 'dd.autoref', 'dd._copy', 'dd.mdd', 'dd.dddmp',
            'dd._parser', 'dd._utils', 'dd._abc'}
    n_w = 0
    writers = set()
    for f in P.all_funcs(mods):
        ws = table_writes(f.node)
        if not ws:
            continue
        # nested helper functions count for their owner
        owner = f.qualname
        while owner not in ALLOWED_WRITERS and owner.count('.') > 2:
            owner = owner.rsplit('.', 1)[0]
        n_w += len(ws)
        writers.add(owner)
        if owner in ALLOWED_WRITERS:
            continue
        node, table, how = ws[0]
        R.violation(
            'R-WRITERS', 'foreign-writer', f.qualname, table,
            f'`{au.short(node, 70)}` writes the manager table `{table}` '
            f'({how}); only {len(ALLOWED_WRITERS)} methods of the manager '
            'classes may write the node tables and order maps',
            unit=f.unit.rel, line=node.lineno)
    R.holds('R-WRITERS', 'all modules',
            f'{n_w} table writes in {len(writers)} functions, all in the '
            'confirmed writer set')
    R.floor('R-WRITERS writer functions found', len(writers), 12)
r_writers.NAME = 'R-WRITERS'


# ------------------------------------------------------------------ R-INVMAP
def invmap_paths(R, f, scope, label, need_done=None):
    """On every path through `scope`: _succ[k] = t  <=>  _pred[t] = k."""
    n = 0
    for items, out in pa.block_paths(scope):
        if out not in ('fall', 'continue', 'return'):
            continue
        path = items
        stmts = stmt_items(path)
        s_st = [sub_store(s, '_succ') for s in stmts]
        p_st = [sub_store(s, '_pred') for s in stmts]
        s_st = [(au.src(k), au.src(v)) for k, v in filter(None, s_st)]
        p_st = [(au.src(k), au.src(v)) for k, v in filter(None, p_st)]
        if not s_st and not p_st:
            if need_done == 'must-store' and out in ('fall',):
                # a normal (non-skipped) iteration must re-insert
                line = getattr(scope[0], 'lineno', f.lineno)
                R.violation(
                    'R-INVMAP', 'not-reinserted', f.qualname, label,
                    f'{label}: an iteration that is not skipped ends '
                    'without re-inserting the node into the unique table',
                    unit=f.unit.rel, line=line, path=pa.describe(path))
            continue
        n += 1
        inv = [(v, k) for k, v in p_st]
        if sorted(s_st) != sorted(inv):
            line = getattr(scope[0], 'lineno', f.lineno)
            R.violation(
                'R-INVMAP', 'unpaired', f.qualname, label,
                f'{label}: _succ stores {s_st} and _pred stores {p_st} are '
                'not inverse entries on this path: the unique table and '
                'the node table disagree', unit=f.unit.rel, line=line,
                path=pa.describe(path))
        if need_done and need_done.startswith('store-iff-done'):
            dn = need_done.split(':', 1)[1]
            adds = [c for s in stmts for c in au.calls_in(s, 'add')
                    if au.call_recv(c) == [dn]]
            if bool(adds) != bool(s_st):
                R.violation(
                    'R-INVMAP', 'done-set', f.qualname, label,
                    f'{label}: the set of nodes already rewritten '
                    f'(`{dn}`) is not updated exactly when a node is '
                    'stored',
                    unit=f.unit.rel, line=scope[0].lineno,
                    path=pa.describe(path))
    return n


def r_invmap(P, R):
    prop = R.prop
    total = 0
    if prop in ('C02', 'C06'):
        f = P.func('dd.bdd.BDD.find_or_add')
        k = invmap_paths(R, f, f.node.body, 'find_or_add')
        total += k
        if k:
            R.holds('R-INVMAP', f.qualname,
                    f'{k} inserting path(s): _succ and _pred written as '
                    'inverse entries')
    if prop in ('C02', 'C14'):
        f = P.func('dd.bdd.BDD._init_terminal')
        k = invmap_paths(R, f, f.node.body, '_init_terminal')
        total += k
        pops = [c for c in au.calls_in(f.node, 'pop')
                if au.chain(c.func.value) == ['self', '_pred']]
        if k and pops:
            R.holds('R-INVMAP', f.qualname, 'terminal moved in both maps, '
                    'old unique-table entry removed')
        elif not pops:
            R.violation(
                'R-INVMAP', 'stale-entry', f.qualname, '_pred.pop',
                'the old unique-table entry of the terminal is not '
                'removed when the terminal moves', unit=f.unit.rel,
                line=f.lineno)
        undeclare_rebuild(P, R)
        total += 1
    if prop in ('C02', 'C07'):
        f = P.func('dd.bdd.BDD.swap')
        loops = [n for n in f.node.body if isinstance(n, ast.For)]
        storing = [lp for lp in loops if any(
            sub_store(s, '_succ') for s in au.walk_no_defs(lp))]
        if len(storing) != 3:
            raise AnalysisError(
                'dd.bdd.BDD.swap: expected three storing loops')
        # the set of upper-level nodes already rewritten: the one the last
        # loop skips (`if u in <set>: continue`)
        third = storing[2]
        skips = [n for n in au.walk_no_defs(third) if isinstance(n, ast.If)
                 and any(isinstance(s, ast.Continue) for s in n.body)]
        done_name = None
        for n in skips:
            t = n.test
            if isinstance(t, ast.Compare) and len(t.ops) == 1 and \
                    isinstance(t.ops[0], ast.In) and isinstance(
                        t.comparators[0], ast.Name) and isinstance(
                            t.left, ast.Name):
                done_name = t.comparators[0].id
        for i, lp in enumerate(storing):
            # loop 1 relabels every node of the lower level; loop 2
            # rewrites the upper-level nodes that do not depend on the
            # lower variable and records them; loop 3 rewrites the rest
            mode = ('must-store', f'store-iff-done:{done_name}',
                    'must-store')[i]
            k = invmap_paths(R, f, lp.body,
                             f'swap loop at line {lp.lineno}', mode)
            total += k
            R.holds('R-INVMAP', f.qualname,
                    f'loop at line {lp.lineno}: {k} storing path(s), '
                    '_succ/_pred inverse, coverage '
                    f'({mode or "n/a"})')
        # the loop that skips must skip exactly the recorded nodes
        node_var = third.target.elts[0].id if isinstance(
            third.target, ast.Tuple) and isinstance(
                third.target.elts[0], ast.Name) else None
        ok_skip = len(skips) == 1 and done_name is not None and \
            node_var is not None and au.is_name(skips[0].test.left, node_var)
        if not ok_skip:
            R.violation(
                'R-INVMAP', 'done-set', f.qualname, 'skip',
                'the last loop of swap does not skip exactly the nodes '
                'already rewritten by the previous loop', unit=f.unit.rel,
                line=third.lineno)
        # unique-table entries of both levels are removed first
        first = [lp for lp in loops if any(
            au.call_name(c) == 'pop' and au.chain(c.func.value) == [
                'self', '_pred'] for c in au.calls_in(lp))]
        if not first or first[0].lineno > storing[0].lineno:
            R.violation(
                'R-INVMAP', 'stale-entry', f.qualname, '_pred.pop',
                'swap no longer removes the unique-table entries of the '
                'two levels before rewriting them', unit=f.unit.rel,
                line=f.lineno)
        else:
            it = au.src(first[0].iter).replace(' ', '')
            # after normalisation the loop over the literal pair (x, y)
            # is unrolled: one popping loop per level
            covered = set()
            for lp in first:
                for x in ast.walk(lp.iter):
                    if isinstance(x, ast.Subscript) and isinstance(
                            x.slice, ast.Name):
                        covered.add(x.slice.id)
            if it != '(x,y)' and not {'x', 'y'} <= covered:
                R.violation(
                    'R-INVMAP', 'stale-entry', f.qualname, 'levels',
                    f'unique-table entries are removed for `{it}` instead '
                    'of both levels (x, y)', unit=f.unit.rel,
                    line=first[0].lineno)
            else:
                R.holds('R-INVMAP', f.qualname,
                        'entries of both levels leave the unique table '
                        'before the rewrite')
        swap_order_maps(P, R)
    if prop in ('C14',):
        add_var_maps(P, R)
        # the four views of the order must agree after a swap as well
        swap_order_maps(P, R)
        total += 1
    floor = {'C02': 6, 'C06': 1, 'C07': 4, 'C14': 2}.get(prop, 0)
    R.floor(f'R-INVMAP storing paths for {prop}', total, floor)
r_invmap.NAME = 'R-INVMAP'


def undeclare_rebuild(P, R):
    """undeclare_vars: decided by interpreting it over small managers
    (rules/models.py), not by the shape of its comprehensions."""
    from . import models
    models.undeclare_model(P, R)
    if R.prop in ('C14', 'C11', 'C12'):
        models.declarations_model(P, R)


def add_var_maps(P, R):
    """vars / _level_to_var written as inverse entries and the terminal
    moved below the new variable: decided by the add_var model."""
    from . import models
    if not any(i['where'] == 'dd.bdd.BDD.add_var' and 'add_var model' in
               i['what'] for i in R.instances):
        models.add_var_model(P, R)


def swap_order_maps(P, R):
    f = P.func('dd.bdd.BDD.swap')
    body = f.node.body
    names = dict()     # local -> level it was read at
    v_st, l_st = [], []
    first_l2v = None
    reads_after = False
    for s in body:
        if isinstance(s, ast.Assign) and isinstance(
                s.value, ast.Call) and au.call_name(
                    s.value) == 'var_at_level' and isinstance(
                        s.targets[0], ast.Name):
            names[s.targets[0].id] = au.src(s.value.args[0])
            if first_l2v is not None:
                reads_after = True
        st = sub_store(s, 'vars')
        if st:
            v_st.append((au.src(st[0]), au.src(st[1])))
        st = sub_store(s, '_level_to_var')
        if st:
            l_st.append((au.src(st[0]), au.src(st[1])))
            if first_l2v is None:
                first_l2v = s
    problems = []
    if sorted(v_st) != sorted((v, k) for k, v in l_st):
        problems.append(f'vars stores {v_st} and _level_to_var stores '
                        f'{l_st} are not inverse entries')
    if reads_after:
        problems.append('var_at_level is read after _level_to_var was '
                        'already rewritten')
    got = {(names.get(k, k), v) for k, v in v_st}
    if got != {('x', 'y'), ('y', 'x')}:
        problems.append(f'the variables at levels x and y do not exchange '
                        f'levels: {sorted(got)}')
    if problems:
        R.violation('R-INVMAP', 'order-maps', f.qualname, 'vars',
                    '; '.join(problems), unit=f.unit.rel, line=f.lineno)
    else:
        R.holds('R-INVMAP', f.qualname, 'the variables at x and y exchange '
                'levels in both maps')


# --------------------------------------------------------------- R-LEVELSET
def levels_complete(P, R):
    """`_levels()` is the index that swap rewrites the tables from: it
    lists EVERY node of the table under its level.  A filter (`continue`,
    a conditional insertion) leaves nodes out, and swap then keeps their
    unique-table entries under the old level."""
    f = P.func('dd.bdd.BDD._levels')
    loops = [lp for lp in au.walk_no_defs(f.node) if isinstance(
        lp, ast.For) and au.chain(getattr(lp.iter, 'func', lp.iter)) and (
            au.chain(getattr(lp.iter, 'func', lp.iter))[:2] == [
                'self', '_succ'])]
    if not loops:
        R.undecided('R-LEVELSET', f.qualname, 'index of all nodes',
                    'no loop over self._succ')
        return
    lp = loops[0]
    skips = [x for x in au.walk_no_defs(lp) if isinstance(
        x, (ast.Continue, ast.Break))]
    adds = [s for s in lp.body if isinstance(s, ast.Expr) and isinstance(
        s.value, ast.Call) and au.call_name(s.value) == 'add']
    if skips or not adds:
        R.violation(
            'R-LEVELSET', 'index-incomplete', f.qualname, '_levels',
            f'_levels() does not enter every node of the table into the '
            'per-level index ('
            + ('a `continue`/`break` skips some' if skips else
               'the insertion is conditional')
            + '): swap pops and rewrites the unique-table entries of the '
            'listed nodes only, so an unlisted node (an unreferenced one, '
            'say) keeps its old (level, low, high) key and collides with '
            'a moved node', unit=f.unit.rel,
            line=(skips[0].lineno if skips else lp.lineno))
    else:
        R.holds('R-LEVELSET', f.qualname,
                'every node of the table is entered under its level')


def r_levelsets(P, R):
    """swap hands the per-level node index back consistently: a node found
    at level L after the swap goes into the set stored as all_levels[L]."""
    levels_complete(P, R)
    # decided on the swap model (rules/models.py), together with what
    # else C07 asks of a swap
    from . import models
    n = models.swap_model(P, R)
    if n is not None:
        R.floor('R-LEVELSET calls of the swap model', n, 60)
    # the functions that reorder by driving swap, on a manager reduced
    # to its variable order
    n = models.reorder_model(P, R)
    if n is not None:
        R.floor('R-REORDER runs of the reorder model', n, 1000)
r_levelsets.NAME = 'R-LEVELSET'
