"""R-NORM, R-PAIR(a), R-WRITERS, R-INVMAP: node-table state rules."""
import ast

from .. import astutil as au
from .. import paths as pa
from ..frontend import AnalysisError

TABLES = {'_succ', '_pred', '_ref', '_min_free', 'vars', '_level_to_var'}
MUTATING = {'pop', 'popitem', 'clear', 'update', 'setdefault', 'add',
            'remove', 'discard', 'append', 'extend', 'insert',
            'difference_update', 'intersection_update',
            'symmetric_difference_update', '__setitem__', '__delitem__'}


def stmt_items(path):
    return [it[1] for it in path if it[0] == 'stmt']


def is_call_stmt(s, name, recv=None):
    """`[x =] recv.name(...)` statement -> the Call or None."""
    for c in au.calls_in(s):
        if au.call_name(c) == name and (
                recv is None or au.call_recv(c) == recv):
            return c
    return None


def sub_store(s, base):
    """`self.<base>[K] = V` -> (K, V) or None."""
    if isinstance(s, ast.Assign) and len(s.targets) == 1:
        t = s.targets[0]
        if isinstance(t, ast.Subscript) and au.chain(t.value) == [
                'self', base]:
            return t.slice, s.value
    return None


# ------------------------------------------------------------------- R-NORM
def r_norm(P, R):
    """The normal form kept by find_or_add: decided by interpreting it
    for every valid request on small managers (rules/models.py)."""
    from . import models
    n = models.find_or_add_model(
        P, R, 'dd.mdd.MDD' if R.prop == 'C15' else 'dd.bdd.BDD')
    if R.prop == 'C15':
        models.mdd_cofactor_model(P, R)
        models.mdd_operations_model(P, R)
    if n is not None:
        R.floor('R-NORM requests of find_or_add', n, 100)
r_norm.NAME = 'R-NORM'


# ------------------------------------------------------------------ R-PAIR(a)
def calls_on_path(path, name, after=None, before=None):
    """Calls `self.name(arg)` on the path between two statement nodes."""
    out = []
    active = after is None
    for it in path:
        if it[0] != 'stmt':
            continue
        s = it[1]
        if s is after:
            active = True
            continue
        if s is before:
            break
        if active:
            for c in au.calls_in(s):
                if au.call_name(c) == name and au.call_recv(c) == ['self']:
                    out.append(c)
    return out


def arg_names(calls):
    r = set()
    for c in calls:
        for a in c.args:
            nm = a.id if isinstance(a, ast.Name) else au.is_abs_of(a)
            if not nm:
                continue
            r.add(nm)
            # `for c in (v, w): self.decref(c)`: one call per element of
            # a tuple / list literal (a set literal de-duplicates and is
            # not expanded)
            p = getattr(c, '_parent', None)
            while p is not None and not (isinstance(
                    p, ast.For) and au.is_name(p.target, nm)):
                p = getattr(p, '_parent', None)
            if p is not None and isinstance(p.iter, (ast.Tuple, ast.List)):
                for e in p.iter.elts:
                    en = e.id if isinstance(e, ast.Name) else \
                        au.is_abs_of(e)
                    if en:
                        r.add(en)
    return r


def pair_find_or_add(P, R, q):
    """A new node starts with count zero and takes one reference on each
    successor: part of the find_or_add model."""
    from . import models
    models.find_or_add_model(P, R, q.rsplit('.', 1)[0])


def pair_counters(P, R, cls='dd.bdd.BDD'):
    """incref adds one; decref subtracts one only when positive: decided
    on the small model (rules/models.py)."""
    from . import models
    models.counters_model(P, R, cls)


def pair_collect(P, R, q):
    """collect_garbage: each removed node releases both children and the
    children that drop to zero are queued."""
    f = P.func(q)
    fn = f.node
    loops = [n for n in au.walk_no_defs(fn) if isinstance(n, ast.While)]
    if len(loops) != 1:
        raise AnalysisError(f'{q}: expected one work-list loop')
    loop = loops[0]
    # the work list is the collection the `while` loop drains
    wl = loop.test.id if isinstance(loop.test, ast.Name) else None
    n = 0
    for items, out in pa.block_paths(loop.body):
        if out not in ('fall', 'continue'):
            continue
        path = items
        pop = None
        kids = []
        for it in path:
            if it[0] == 'stmt' and isinstance(it[1], ast.Assign) and \
                    isinstance(it[1].value, ast.Call) and au.call_name(
                        it[1].value) == 'pop' and au.chain(
                            it[1].value.func.value) == ['self', '_succ']:
                pop = it[1]
        if pop is None:
            R.violation(
                'R-PAIR', 'collect', q, 'pop',
                'an iteration of the sweep does not remove the node from '
                'the node table', unit=f.unit.rel, line=loop.lineno)
            continue
        n += 1
        t = pop.targets[0]
        mdd = False
        if isinstance(t, ast.Tuple) and len(t.elts) == 3:
            kids = [e.id for e in t.elts[1:] if isinstance(e, ast.Name)]
        else:
            mdd = True
        stmts = stmt_items(path)
        # companions
        others = {'_pred': False, '_ref': False}
        for s in stmts:
            for c in au.calls_in(s, 'pop'):
                ch = au.chain(c.func.value)
                if ch and ch[0] == 'self' and ch[-1] in others:
                    others[ch[-1]] = True
        for k, v in others.items():
            if not v:
                R.violation(
                    'R-PAIR', 'collect', q, k,
                    f'a removed node keeps its entry in {k}',
                    unit=f.unit.rel, line=pop.lineno)
        if mdd:
            loops2 = [it[1] for it in path if it[0] == 'loop'
                      and isinstance(it[1], ast.For)]
            ok = any(
                any(au.call_name(c) == 'decref' for c in au.calls_in(lp))
                and any(au.call_name(c) == 'add' and au.call_recv(c) == [
                    wl] for c in au.calls_in(lp))
                for lp in loops2)
            if ok:
                R.holds('R-PAIR', q, 'every successor of a removed node is '
                        'released and queued when its count drops to zero')
            else:
                R.violation(
                    'R-PAIR', 'collect', q, 'decref',
                    'successors of a removed MDD node are not all released '
                    'and queued', unit=f.unit.rel, line=pop.lineno)
            continue
        decs = arg_names(calls_on_path(path, 'decref', after=pop))
        missing = [k for k in kids if k not in decs]
        if missing:
            R.violation(
                'R-PAIR', 'collect', q, 'decref',
                f'a removed node does not release its child(ren) '
                f'{missing}: their counts stay too high and they are never '
                'collected', unit=f.unit.rel, line=pop.lineno,
                path=pa.describe(path))
            continue
        # enqueue: an `if` on the child's count that adds it to the queue
        for k in kids:
            ok = False
            for n2 in au.walk_no_defs(loop):
                if isinstance(n2, ast.If) and n2.lineno > pop.lineno:
                    tsrc = au.src(n2.test).replace(' ', '')
                    if (f'self._ref[abs({k})]' in tsrc
                            or f'self._ref[{k}]' in tsrc):
                        adds = [c for b in n2.body
                                for c in au.calls_in(b, 'add')]
                        if any(k in au.names_loaded(c) for c in adds):
                            ok = True
            if not ok:
                R.violation(
                    'R-PAIR', 'collect', q, f'enqueue:{k}',
                    f'child `{k}` of a removed node is not queued when its '
                    'count drops to zero: the cascade stops early',
                    unit=f.unit.rel, line=pop.lineno)
        R.holds('R-PAIR', q, 'every removed node releases both children '
                'and queues those that drop to zero')
    R.floor(f'R-PAIR sweep paths of {q}', n, 1)
    # the queue is seeded only with zero-count nodes
    # every assignment that fills the work list before the loop filters
    # on a zero count: `filter(<pred reading _ref>, ...)`, or a
    # comprehension with `if not self.ref(u)` / `if not self._ref[...]`
    def reads_count(e):
        t = au.src(e).replace(' ', '')
        return 'self._ref[' in t or 'self.ref(' in t
    zero_preds = set()
    for d in ast.walk(fn):
        if isinstance(d, ast.FunctionDef) and d is not fn:
            rets = [x for x in ast.walk(d) if isinstance(x, ast.Return)]
            if rets and all(isinstance(r.value, ast.UnaryOp) and isinstance(
                    r.value.op, ast.Not) and reads_count(r.value.operand)
                    for r in rets):
                zero_preds.add(d.name)
    seeded = False
    for n2 in au.walk_no_defs(fn):
        if isinstance(n2, ast.Call) and au.call_name(n2) == 'filter' and \
                n2.args and isinstance(n2.args[0], ast.Name) and \
                n2.args[0].id in zero_preds:
            seeded = True
        if isinstance(n2, (ast.SetComp, ast.ListComp, ast.GeneratorExp)):
            for g in n2.generators:
                for c in g.ifs:
                    if isinstance(c, ast.UnaryOp) and isinstance(
                            c.op, ast.Not) and reads_count(c.operand):
                        seeded = True
    if seeded:
        R.holds('R-PAIR', q, 'the work list is seeded with zero-count '
                'nodes only')
    else:
        R.violation(
            'R-PAIR', 'collect', q, 'seed',
            'the work list is not filtered to zero-count nodes: referenced '
            'nodes can be deleted', unit=f.unit.rel, line=fn.lineno)


def pair_swap(P, R):
    f = P.func('dd.bdd.BDD.swap')
    fn = f.node
    q = f.qualname
    au.set_parents(fn)
    loops = [n for n in fn.body if isinstance(n, ast.For)]
    n = 0
    rewrites = 0
    garbage_sets = set()
    for lp in loops:
        stores = [s for s in au.walk_no_defs(lp) if sub_store(s, '_succ')]
        if not stores:
            continue
        # old children: names bound by the loop target `u, (v, w)`
        old = []
        if isinstance(lp.target, ast.Tuple) and len(
                lp.target.elts) == 2 and isinstance(
                    lp.target.elts[1], ast.Tuple):
            old = [e.id for e in lp.target.elts[1].elts
                   if isinstance(e, ast.Name)]
            node = lp.target.elts[0].id if isinstance(
                lp.target.elts[0], ast.Name) else None
        else:
            continue
        for items, out in pa.block_paths(lp.body):
            path = items
            st = [s for s in stmt_items(path) if sub_store(s, '_succ')]
            if not st:
                continue
            n += 1
            store = st[-1]
            key, val = sub_store(store, '_succ')
            if not au.is_name(key, node):
                R.violation(
                    'R-PAIR', 'identity', q, 'store',
                    f'`{au.short(store)}` does not rewrite the node taken '
                    f'from the level (`{node}`): node identity is lost',
                    unit=f.unit.rel, line=store.lineno)
            tup = val
            if isinstance(val, ast.Name):
                defs = [s for s in stmt_items(path) if isinstance(
                    s, ast.Assign) and au.is_name(s.targets[0], val.id)]
                tup = defs[-1].value if defs else None
            if not isinstance(tup, ast.Tuple) or len(tup.elts) != 3:
                R.undecided('R-PAIR', q, 'stored triple', 'unrecognised')
                continue
            kids = [au.src(e) for e in tup.elts[1:]]
            # have the old children been reassigned on this path?
            reassigned = set()
            for s in stmt_items(path):
                if s is store:
                    break
                reassigned |= au.assigned_names(s) & set(old)
            if kids == old and not reassigned:
                # level-only relabel: no edge changes
                incs = arg_names(calls_on_path(path, 'incref'))
                decs = arg_names(calls_on_path(path, 'decref'))
                if incs or decs:
                    R.violation(
                        'R-PAIR', 'relabel', q, 'count',
                        'a level-only relabel changes reference counts',
                        unit=f.unit.rel, line=store.lineno)
                else:
                    R.holds('R-PAIR', q, f'loop at line {lp.lineno}: '
                            'level-only relabel, counts untouched',
                            nontrivial=False)
                continue
            rewrites += 1
            decs = arg_names(calls_on_path(path, 'decref', before=store))
            incs = arg_names(calls_on_path(path, 'incref', after=store))
            miss_d = [k for k in old if k not in decs]
            miss_i = [k for k in kids if k not in incs]
            gar = set()
            for s in stmt_items(path):
                for c in au.calls_in(s, 'add'):
                    rc = au.call_recv(c)
                    if rc and len(rc) == 1 and c.args:
                        nm = au.is_abs_of(c.args[0]) or (
                            c.args[0].id if isinstance(
                                c.args[0], ast.Name) else None)
                        if nm in old:
                            gar.add(nm)
                            garbage_sets.add(rc[0])
            miss_g = [k for k in old if k not in gar]
            if miss_d:
                R.violation(
                    'R-PAIR', 'swap-release', q, 'decref',
                    f'the rewritten node keeps counts on its old '
                    f'child(ren) {miss_d}', unit=f.unit.rel,
                    line=store.lineno, path=pa.describe(path))
            if miss_i:
                R.violation(
                    'R-PAIR', 'swap-acquire', q, 'incref',
                    f'the rewritten node takes no count on its new '
                    f'child(ren) {miss_i}: they can be collected while '
                    'referenced', unit=f.unit.rel, line=store.lineno,
                    path=pa.describe(path))
            if miss_g:
                R.violation(
                    'R-PAIR', 'swap-garbage', q, 'garbage',
                    f'old child(ren) {miss_g} are not handed to the rooted '
                    'collection', unit=f.unit.rel, line=store.lineno)
            if not (miss_d or miss_i or miss_g):
                R.holds('R-PAIR', q, f'loop at line {lp.lineno}: old '
                        'children released and queued, new children '
                        'acquired')
    # the rooted collection is run on the set that received the children
    cg = [c for s in fn.body for c in au.calls_in(s, 'collect_garbage')
          if c.args]
    if garbage_sets and not any(
            isinstance(c.args[0], ast.Name) and c.args[0].id in garbage_sets
            for c in cg):
        R.violation(
            'R-PAIR', 'swap-garbage', q, 'collect',
            f'swap does not collect the released children '
            f'({sorted(garbage_sets)})', unit=f.unit.rel, line=fn.lineno)
    R.floor('R-PAIR store paths in swap', n, 3)
    R.floor('R-PAIR rewriting paths in swap', rewrites, 1)


def r_pair(P, R):
    if R.prop == 'C15':
        pair_find_or_add(P, R, 'dd.mdd.MDD.find_or_add')
        pair_collect(P, R, 'dd.mdd.MDD.collect_garbage')
        mdd_counters(P, R)
        return
    if R.prop in ('C06', 'C02'):
        pair_find_or_add(P, R, 'dd.bdd.BDD.find_or_add')
    if R.prop == 'C06':
        pair_counters(P, R)
        pair_collect(P, R, 'dd.bdd.BDD.collect_garbage')
    if R.prop in ('C06', 'C07', 'C08'):
        pair_swap(P, R)
r_pair.NAME = 'R-PAIR(node tables)'


def mdd_counters(P, R):
    from . import models
    models.counters_model(P, R, 'dd.mdd.MDD')


# ----------------------------------------------------------------- R-WRITERS
ALLOWED_WRITERS = {
    'dd.bdd.BDD.__init__', 'dd.bdd.BDD.__copy__',
    'dd.bdd.BDD._init_terminal', 'dd.bdd.BDD.incref', 'dd.bdd.BDD.decref',
    'dd.bdd.BDD.add_var', 'dd.bdd.BDD.undeclare_vars',
    'dd.bdd.BDD.find_or_add', 'dd.bdd.BDD.collect_garbage',
    'dd.bdd.BDD.update_predecessors', 'dd.bdd.BDD.swap',
    'dd.bdd.BDD._load_manager',
    # the MDD manager owns tables of the same names
    'dd.mdd.MDD.__init__', 'dd.mdd.MDD.incref', 'dd.mdd.MDD.decref',
    'dd.mdd.MDD.find_or_add', 'dd.mdd.MDD.collect_garbage',
    'dd.mdd.MDD.var_at_level',
    # aliases the manager's `vars` dict on the wrapper (no table write)
    'dd.autoref.BDD.__init__',
}


def table_writes(fn):
    """(node, table, how) for every write to a table attribute."""
    out = []
    for n in au.walk_no_defs(fn):
        targets = []
        if isinstance(n, ast.Assign):
            targets = n.targets
        elif isinstance(n, (ast.AugAssign, ast.AnnAssign)):
            targets = [n.target]
        elif isinstance(n, ast.Delete):
            targets = n.targets
        for t in targets:
            for x in ([t] if not isinstance(t, ast.Tuple) else t.elts):
                base = x
                how = 'rebind'
                if isinstance(x, ast.Subscript):
                    base = x.value
                    how = 'item'
                if isinstance(base, ast.Attribute) and base.attr in TABLES:
                    out.append((n, base.attr, how))
        if isinstance(n, ast.Call) and isinstance(n.func, ast.Attribute) \
                and n.func.attr in MUTATING and isinstance(
                    n.func.value, ast.Attribute) and \
                n.func.value.attr in TABLES:
            out.append((n, n.func.value.attr, n.func.attr))
    return out


def _helper_of_writers(P, f, mods):
    from .. import normalise
    inv = normalise.load_inventory()
    if inv is None or f.qualname in inv or not f.name.startswith('_') \
            or f.name.startswith('__'):
        return False
    callers = set()
    for g in P.all_funcs(mods):
        if g is f:
            continue
        for c in au.calls_in(g.node):
            if au.call_name(c) == f.name:
                owner = g.qualname
                while owner not in ALLOWED_WRITERS and \
                        owner.count('.') > 2:
                    owner = owner.rsplit('.', 1)[0]
                callers.add(owner)
    return bool(callers) and callers <= set(ALLOWED_WRITERS)


def r_writers(P, R):
    mods = {'dd.bdd', 'dd.autoref', 'dd._copy', 'dd.mdd', 'dd.dddmp',
            'dd._parser', 'dd._utils', 'dd._abc'}
    n_w = 0
    writers = set()
    for f in P.all_funcs(mods):
        ws = table_writes(f.node)
        if not ws:
            continue
        # nested helper functions count for their owner
        owner = f.qualname
        while owner not in ALLOWED_WRITERS and owner.count('.') > 2:
            owner = owner.rsplit('.', 1)[0]
        n_w += len(ws)
        writers.add(owner)
        if owner in ALLOWED_WRITERS:
            continue
        # a private helper that the reference tree does not have, called
        # only from writers of the tables, is part of those writers
        if _helper_of_writers(P, f, mods):
            continue
        node, table, how = ws[0]
        R.violation(
            'R-WRITERS', 'foreign-writer', f.qualname, table,
            f'`{au.short(node, 70)}` writes the manager table `{table}` '
            f'({how}); only {len(ALLOWED_WRITERS)} methods of the manager '
            'classes may write the node tables and order maps',
            unit=f.unit.rel, line=node.lineno)
    R.holds('R-WRITERS', 'all modules',
            f'{n_w} table writes in {len(writers)} functions, all in the '
            'confirmed writer set')
    R.floor('R-WRITERS writer functions found', len(writers), 12)
r_writers.NAME = 'R-WRITERS'


# ------------------------------------------------------------------ R-INVMAP
def invmap_paths(R, f, scope, label, need_done=None):
    """On every path through `scope`: _succ[k] = t  <=>  _pred[t] = k."""
    n = 0
    for items, out in pa.block_paths(scope):
        if out not in ('fall', 'continue', 'return'):
            continue
        path = items
        stmts = stmt_items(path)
        s_st = [sub_store(s, '_succ') for s in stmts]
        p_st = [sub_store(s, '_pred') for s in stmts]
        s_st = [(au.src(k), au.src(v)) for k, v in filter(None, s_st)]
        p_st = [(au.src(k), au.src(v)) for k, v in filter(None, p_st)]
        if not s_st and not p_st:
            if need_done == 'must-store' and out in ('fall',):
                # a normal (non-skipped) iteration must re-insert
                line = getattr(scope[0], 'lineno', f.lineno)
                R.violation(
                    'R-INVMAP', 'not-reinserted', f.qualname, label,
                    f'{label}: an iteration that is not skipped ends '
                    'without re-inserting the node into the unique table',
                    unit=f.unit.rel, line=line, path=pa.describe(path))
            continue
        n += 1
        inv = [(v, k) for k, v in p_st]
        if sorted(s_st) != sorted(inv):
            line = getattr(scope[0], 'lineno', f.lineno)
            R.violation(
                'R-INVMAP', 'unpaired', f.qualname, label,
                f'{label}: _succ stores {s_st} and _pred stores {p_st} are '
                'not inverse entries on this path: the unique table and '
                'the node table disagree', unit=f.unit.rel, line=line,
                path=pa.describe(path))
        if need_done and need_done.startswith('store-iff-done'):
            dn = need_done.split(':', 1)[1]
            adds = [c for s in stmts for c in au.calls_in(s, 'add')
                    if au.call_recv(c) == [dn]]
            if bool(adds) != bool(s_st):
                R.violation(
                    'R-INVMAP', 'done-set', f.qualname, label,
                    f'{label}: the set of nodes already rewritten '
                    f'(`{dn}`) is not updated exactly when a node is '
                    'stored',
                    unit=f.unit.rel, line=scope[0].lineno,
                    path=pa.describe(path))
    return n


def r_invmap(P, R):
    """The pairs of tables that must stay inverse of each other (`_succ` /
    `_pred`, `vars` / `_level_to_var`) through every function that writes
    them.  The first version of this rule followed the stores along the
    paths of each writer; the benign rounds showed that to depend on how
    the writer is laid out (loops, helpers, local aliases), and every
    writer is now decided by the model of its function
    (rules/models.py): `find_or_add`, `add_var` with `_init_terminal`,
    `undeclare_vars`, `swap`."""
    from . import models
    prop = R.prop
    if prop in ('C02', 'C06'):
        if not any('find_or_add model' in i['what'] for i in R.instances):
            models.find_or_add_model(P, R)
    if prop == 'C14':
        add_var_maps(P, R)
    if prop in ('C02', 'C14'):
        undeclare_rebuild(P, R)
    if prop in ('C02', 'C07', 'C14'):
        if not any('swap model' in i['what'] for i in R.instances):
            models.swap_model(P, R)
r_invmap.NAME = 'R-INVMAP'


def undeclare_rebuild(P, R):
    """undeclare_vars: decided by interpreting it over small managers
    (rules/models.py), not by the shape of its comprehensions."""
    from . import models
    models.undeclare_model(P, R)
    if R.prop in ('C14', 'C11', 'C12'):
        models.declarations_model(P, R)


def add_var_maps(P, R):
    """vars / _level_to_var written as inverse entries and the terminal
    moved below the new variable: decided by the add_var model."""
    from . import models
    if not any(i['where'] == 'dd.bdd.BDD.add_var' and 'add_var model' in
               i['what'] for i in R.instances):
        models.add_var_model(P, R)


# --------------------------------------------------------------- R-LEVELSET
def levels_complete(P, R):
    """`_levels()` is the index that swap rewrites the tables from: it
    lists EVERY node of the table under its level - decided on the
    levels model (rules/models.py)."""
    from . import models
    models.levels_model(P, R)


def r_levelsets(P, R):
    """swap hands the per-level node index back consistently: a node found
    at level L after the swap goes into the set stored as all_levels[L]."""
    levels_complete(P, R)
    # decided on the swap model (rules/models.py), together with what
    # else C07 asks of a swap
    from . import models
    n = models.swap_model(P, R)
    if n is not None:
        R.floor('R-LEVELSET calls of the swap model', n, 60)
    # the functions that reorder by driving swap, on a manager reduced
    # to its variable order
    n = models.reorder_model(P, R)
    if n is not None:
        R.floor('R-REORDER runs of the reorder model', n, 1000)
r_levelsets.NAME = 'R-LEVELSET'
