"""Model-based rules: short state-changing functions interpreted over every
state of a small model (ddverif/interp.py) and compared with what the
property requires.  The way conditions are written does not matter."""
import ast
import copy

from .. import astutil as au
from .. import interp
from ..frontend import AnalysisError


def method_stubs(P, cls_qual, names, extra=None):
    """Stubs that interpret `self.<name>(...)` by descending into the
    method of the class (shared `self.*` state, own locals)."""
    stubs = dict(extra or {})

    def make(name):
        f = P.func(f'{cls_qual}.{name}')

        def stub(m, call, args, kw):
            params = [p for p in f.params if p != 'self']
            env = {k: v for k, v in m.env.items()
                   if k.startswith('self.') or k in ('self',)}
            a = f.node.args
            defaults = dict()
            ps = [p.arg for p in a.posonlyargs + a.args if p.arg != 'self']
            for p, d in zip(ps[len(ps) - len(a.defaults):], a.defaults):
                defaults[p] = interp.Machine({}).ev(d)
            for p, v in zip(params, args):
                env[p] = v
            for k, v in kw.items():
                env[k] = v
            for p in params:
                if p not in env:
                    if p in defaults:
                        env[p] = defaults[p]
                    else:
                        raise interp.Unknown(f'argument {p} of {name}')
            sub = interp.Machine(env, m.stubs)
            sub.steps = m.steps
            try:
                sub.run(f.node.body)
                result = None
            except interp.Returned as r:
                result = r.value
            finally:
                # scalar attributes written by the callee
                for k, v in sub.env.items():
                    if k.startswith('self.'):
                        m.env[k] = v
                m.effects.extend(sub.effects)
            return result
        return stub
    for n in names:
        stubs[n] = make(n)
    return stubs


def _snapshot(env):
    return {k: copy.deepcopy(v) for k, v in env.items()
            if k.startswith('self.')}


def add_var_model(P, R):
    """`add_var(var, level)` over managers with 0..2 variables: every
    (name, level) request; the outcome and the final tables are compared
    with C14: idempotent for an existing name at its level, next bottom
    level for a new name, refusal of a conflicting name or level, `vars`
    and `_level_to_var` inverse of each other, terminal below all
    variables, nothing changed by a refused call."""
    f = P.func('dd.bdd.BDD.add_var')
    stubs = method_stubs(P, 'dd.bdd.BDD', [
        '_check_var', '_next_free_level', '_init_terminal'])
    names = ['a', 'b']
    problems = dict()
    n_models = 0
    prm = [p for p in f.params if p != 'self']
    # (the last two states have a free level above a variable: they arise
    # from explicit levels given out of order)
    for vars0 in ({}, {'a': 0}, {'a': 0, 'b': 1}, {'a': 0, 'b': 2},
                  {'a': 1}):
        n = len(vars0)
        for var in ('a', 'z'):
            for level in (None, -1, 0, 1, 2, 3, 5):
                vars_ = dict(vars0)
                if var == 'a' and 'a' not in vars_:
                    continue
                env = {
                    'self.vars': dict(vars_),
                    'self._level_to_var': {k: v for v, k in vars_.items()},
                    'self._succ': {1: (n, None, None)},
                    'self._pred': {(n, None, None): 1},
                    'self._ref': {1: 1},
                    prm[0]: var, prm[1]: level}
                before = _snapshot(env)
                n_models += 1
                try:
                    out, m = interp.run_function(f.node, env, stubs)
                except interp.Unknown as e:
                    R.undecided('R-BOUND', f.qualname, 'add_var model',
                                str(e))
                    return
                after = _snapshot(m.env)
                existing = var in vars_
                what = (f'{n} variable(s), add_var({var!r}, {level})')
                if out[0] == 'raise':
                    if after != before:
                        problems.setdefault('raise-after-write', what + (
                            ': refused, but the tables were changed '
                            'before'))
                    ok_refusal = (existing and level is not None
                                  and level != vars_[var]) or (
                        not existing and level is not None and (
                            level < 0 or level in vars_.values())) or (
                        not existing and level is None
                        and n in vars_.values())
                    if not ok_refusal:
                        if existing:
                            problems.setdefault('idempotent', what + (
                                ': an existing name at its own level (or '
                                'without a level) is refused'))
                        elif level is None or level == n:
                            problems.setdefault('default', what + (
                                ': the next bottom level is refused'))
                        # levels above the bottom: refusing them is
                        # what C14 asks for
                    continue
                ret = out[1]
                v2 = m.env['self.vars']
                l2 = m.env['self._level_to_var']
                if existing:
                    if level is not None and level != vars_[var]:
                        problems.setdefault('conflict', what + (
                            ': a different level for an existing name is '
                            'accepted'))
                    elif ret != vars_[var] or after != before:
                        problems.setdefault('idempotent', what + (
                            ': re-declaring changes the manager or '
                            f'returns {ret}'))
                    continue
                # new name accepted
                if level is not None and level < 0:
                    problems.setdefault('lower', what + (
                        ': a negative level is accepted'))
                    continue
                if level is not None and level in vars_.values():
                    problems.setdefault('occupied', what + (
                        ': an occupied level is accepted and two '
                        'variables share it'))
                    continue
                want = n if level is None else level
                if level is None and n in vars_.values():
                    # (reachable only through F9: the default level is
                    # taken; the code refuses, which is right)
                    continue
                if level is None and (ret != n or v2.get(var) != n):
                    problems.setdefault('default', what + (
                        f': the new name gets level {v2.get(var)} '
                        f'(returned {ret}) instead of the next bottom '
                        f'level {n}'))
                    continue
                if level is not None and level > n:
                    problems.setdefault('upper', what + (
                        ': accepted, leaving the levels '
                        f'{sorted(v2.values())}: not a bijection onto '
                        f'0..{len(v2) - 1}'))
                    continue
                if v2.get(var) != want or l2.get(want) != var or \
                        {k: v for v, k in v2.items()} != l2:
                    problems.setdefault('unpaired', what + (
                        f': vars = {v2} and _level_to_var = {l2} are not '
                        'inverse of each other'))
                t = m.env['self._succ'].get(1)
                if not t or t[0] != len(v2):
                    problems.setdefault('terminal', what + (
                        f': the terminal is at level {t and t[0]} with '
                        f'{len(v2)} variable(s)'))
                elif m.env['self._pred'] != {t: 1}:
                    problems.setdefault('stale-entry', what + (
                        ': the unique table still lists the terminal '
                        f'under its old level ({m.env["self._pred"]})'))
    keymap = {
        'raise-after-write': ('R-RAW', 'raise-after-write', 'add_var'),
        'idempotent': ('R-BOUND', 'idempotent', 'level'),
        'conflict': ('R-BOUND', 'conflict', 'level'),
        'default': ('R-BOUND', 'default', 'level'),
        'lower': ('R-BOUND', 'lower', 'level'),
        'occupied': ('R-BOUND', 'occupied', 'level'),
        'upper': ('R-BOUND', 'upper', 'level'),
        'unpaired': ('R-INVMAP', 'unpaired', 'vars'),
        'terminal': ('R-INVMAP', 'terminal', '_init_terminal'),
        'stale-entry': ('R-INVMAP', 'stale-entry', '_pred.pop'),
    }
    where = {'default': 'dd.bdd.BDD._next_free_level',
             'lower': 'dd.bdd.BDD._next_free_level',
             'occupied': 'dd.bdd.BDD._next_free_level',
             'upper': 'dd.bdd.BDD._next_free_level',
             'idempotent': 'dd.bdd.BDD._check_var',
             'conflict': 'dd.bdd.BDD._check_var',
             'stale-entry': 'dd.bdd.BDD._init_terminal'}
    for k, msg in sorted(problems.items()):
        rule, sub, construct = keymap[k]
        R.violation(rule, sub, where.get(k, f.qualname), construct, msg,
                    unit=f.unit.rel, line=f.lineno)
    for k in keymap:
        if k not in problems:
            R.holds(keymap[k][0], where.get(k, f.qualname),
                    f'add_var model ({n_models} requests): no '
                    f'`{k}` case', nontrivial=(k in ('default',
                                                     'terminal')))
