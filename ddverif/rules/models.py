"""Model-based rules: short state-changing functions interpreted over every
state of a small model (ddverif/interp.py) and compared with what the
property requires.  The way conditions are written does not matter."""
import ast
import copy

from .. import astutil as au
from .. import interp
from ..frontend import AnalysisError


def method_stubs(P, cls_qual, names, extra=None):
    """Stubs that interpret `self.<name>(...)` by descending into the
    method of the class (shared `self.*` state, own locals)."""
    stubs = dict(extra or {})

    def make(name):
        f = P.func(f'{cls_qual}.{name}')
        is_gen = any(isinstance(x, (ast.Yield, ast.YieldFrom))
                     for x in au.walk_no_defs(f.node))

        def stub(m, call, args, kw):
            params = [p for p in f.params if p != 'self']
            env = {k: v for k, v in m.env.items()
                   if k.startswith('self.') or k in ('self',)}
            recv = getattr(m, 'receiver', None)
            if isinstance(recv, interp.Sym) and isinstance(
                    recv.attrs, dict) and not getattr(recv, 'cls', None):
                # called on a model object that keeps its attributes
                # itself: that object is `self` of the method
                env = {'self': recv}
            a = f.node.args
            defaults = dict()
            ps = [p.arg for p in a.posonlyargs + a.args if p.arg != 'self']
            for p, d in zip(ps[len(ps) - len(a.defaults):], a.defaults):
                defaults[p] = interp.Machine({}, None, m.resolver).ev(d)
            va = a.vararg.arg if a.vararg else None
            named = ps + [x.arg for x in a.kwonlyargs]
            for p, v in zip(named, args):
                env[p] = v
            if va is not None:
                env[va] = tuple(args[len(named):])
            elif len(args) > len(ps):
                raise interp.Raised('TypeError')
            if a.kwarg is not None:
                env[a.kwarg.arg] = {k: v for k, v in kw.items()
                                    if k not in named}
            for k, v in kw.items():
                if k in named:
                    env[k] = v
            for p in named:
                if p not in env:
                    if p in defaults:
                        env[p] = defaults[p]
                    else:
                        raise interp.Unknown(f'argument {p} of {name}')
            # (the globals of a method are those of the module of its
            # class, whichever module the caller is in)
            res = m.resolver
            if hasattr(res, 'module'):
                res = res.module(cls_qual.rsplit('.', 1)[0]) or res
            sub = interp.Machine(env, m.stubs, res)
            sub.steps = m.steps
            if is_gen:
                sub.yields = []
            try:
                sub.run(f.node.body)
                result = iter(sub.yields) if is_gen else None
            except interp.Returned as r:
                result = iter(sub.yields) if is_gen else r.value
            finally:
                # scalar attributes written by the callee
                for k, v in sub.env.items():
                    if k.startswith('self.'):
                        m.env[k] = v
                m.effects.extend(sub.effects)
            return result
        return stub
    for n in names:
        stubs[n] = make(n)
    return stubs


def _snapshot(env):
    return {k: copy.deepcopy(v) for k, v in env.items()
            if k.startswith('self.')}


def add_var_model(P, R):
    """`add_var(var, level)` over managers with 0..2 variables: every
    (name, level) request; the outcome and the final tables are compared
    with C14: idempotent for an existing name at its level, next bottom
    level for a new name, refusal of a conflicting name or level, `vars`
    and `_level_to_var` inverse of each other, terminal below all
    variables, nothing changed by a refused call."""
    f = P.func('dd.bdd.BDD.add_var')
    stubs = method_stubs(P, 'dd.bdd.BDD', [
        '_check_var', '_next_free_level', '_init_terminal'])
    names = ['a', 'b']
    problems = dict()
    n_models = 0
    prm = [p for p in f.params if p != 'self']
    # (the last two states have a free level above a variable: they arise
    # from explicit levels given out of order)
    for vars0 in ({}, {'a': 0}, {'a': 0, 'b': 1}, {'a': 0, 'b': 2},
                  {'a': 1}):
        n = len(vars0)
        for var in ('a', 'z'):
            for level in (None, -1, 0, 1, 2, 3, 5):
                vars_ = dict(vars0)
                if var == 'a' and 'a' not in vars_:
                    continue
                env = {
                    'self.vars': dict(vars_),
                    'self._level_to_var': {k: v for v, k in vars_.items()},
                    'self._succ': {1: (n, None, None)},
                    'self._pred': {(n, None, None): 1},
                    'self._ref': {1: 1},
                    prm[0]: var, prm[1]: level}
                before = _snapshot(env)
                n_models += 1
                try:
                    out, m = interp.run_function(f.node, env, stubs)
                except interp.Unknown as e:
                    R.undecided('R-BOUND', f.qualname, 'add_var model',
                                str(e))
                    return
                after = _snapshot(m.env)
                existing = var in vars_
                what = (f'{n} variable(s), add_var({var!r}, {level})')
                if out[0] == 'raise':
                    if after != before:
                        problems.setdefault('raise-after-write', what + (
                            ': refused, but the tables were changed '
                            'before'))
                    ok_refusal = (existing and level is not None
                                  and level != vars_[var]) or (
                        not existing and level is not None and (
                            level < 0 or level in vars_.values())) or (
                        not existing and level is None
                        and n in vars_.values())
                    if not ok_refusal:
                        if existing:
                            problems.setdefault('idempotent', what + (
                                ': an existing name at its own level (or '
                                'without a level) is refused'))
                        elif level is None or level == n:
                            problems.setdefault('default', what + (
                                ': the next bottom level is refused'))
                        # levels above the bottom: refusing them is
                        # what C14 asks for
                    continue
                ret = out[1]
                v2 = m.env['self.vars']
                l2 = m.env['self._level_to_var']
                if existing:
                    if level is not None and level != vars_[var]:
                        problems.setdefault('conflict', what + (
                            ': a different level for an existing name is '
                            'accepted'))
                    elif ret != vars_[var] or after != before:
                        problems.setdefault('idempotent', what + (
                            ': re-declaring changes the manager or '
                            f'returns {ret}'))
                    continue
                # new name accepted
                if level is not None and level < 0:
                    problems.setdefault('lower', what + (
                        ': a negative level is accepted'))
                    continue
                if level is not None and level in vars_.values():
                    problems.setdefault('occupied', what + (
                        ': an occupied level is accepted and two '
                        'variables share it'))
                    continue
                want = n if level is None else level
                if level is None and n in vars_.values():
                    # (reachable only through F9: the default level is
                    # taken; the code refuses, which is right)
                    continue
                if level is None and (ret != n or v2.get(var) != n):
                    problems.setdefault('default', what + (
                        f': the new name gets level {v2.get(var)} '
                        f'(returned {ret}) instead of the next bottom '
                        f'level {n}'))
                    continue
                if level is not None and level > n:
                    problems.setdefault('upper', what + (
                        ': accepted, leaving the levels '
                        f'{sorted(v2.values())}: not a bijection onto '
                        f'0..{len(v2) - 1}'))
                    continue
                if v2.get(var) != want or l2.get(want) != var or \
                        {k: v for v, k in v2.items()} != l2:
                    problems.setdefault('unpaired', what + (
                        f': vars = {v2} and _level_to_var = {l2} are not '
                        'inverse of each other'))
                t = m.env['self._succ'].get(1)
                if not t or t[0] != len(v2):
                    problems.setdefault('terminal', what + (
                        f': the terminal is at level {t and t[0]} with '
                        f'{len(v2)} variable(s)'))
                elif m.env['self._pred'] != {t: 1}:
                    problems.setdefault('stale-entry', what + (
                        ': the unique table still lists the terminal '
                        f'under its old level ({m.env["self._pred"]})'))
    keymap = {
        'raise-after-write': ('R-RAW', 'raise-after-write', 'add_var'),
        'idempotent': ('R-BOUND', 'idempotent', 'level'),
        'conflict': ('R-BOUND', 'conflict', 'level'),
        'default': ('R-BOUND', 'default', 'level'),
        'lower': ('R-BOUND', 'lower', 'level'),
        'occupied': ('R-BOUND', 'occupied', 'level'),
        'upper': ('R-BOUND', 'upper', 'level'),
        'unpaired': ('R-INVMAP', 'unpaired', 'vars'),
        'terminal': ('R-INVMAP', 'terminal', '_init_terminal'),
        'stale-entry': ('R-INVMAP', 'stale-entry', '_pred.pop'),
    }
    where = {'default': 'dd.bdd.BDD._next_free_level',
             'lower': 'dd.bdd.BDD._next_free_level',
             'occupied': 'dd.bdd.BDD._next_free_level',
             'upper': 'dd.bdd.BDD._next_free_level',
             'idempotent': 'dd.bdd.BDD._check_var',
             'conflict': 'dd.bdd.BDD._check_var',
             'stale-entry': 'dd.bdd.BDD._init_terminal'}
    for k, msg in sorted(problems.items()):
        rule, sub, construct = keymap[k]
        R.violation(rule, sub, where.get(k, f.qualname), construct, msg,
                    unit=f.unit.rel, line=f.lineno)
    for k in keymap:
        if k not in problems:
            R.holds(keymap[k][0], where.get(k, f.qualname),
                    f'add_var model ({n_models} requests): no '
                    f'`{k}` case', nontrivial=(k in ('default',
                                                     'terminal')))


def _manager_state(vars_, nodes):
    """Tables of a small manager: `nodes` = {u: (level, low, high)}."""
    n = len(vars_)
    succ = {1: (n, None, None)}
    succ.update(nodes)
    ref = {u: 0 for u in succ}
    ref[1] = 1
    for u, (i, v, w) in nodes.items():
        ref[abs(v)] += 1
        ref[abs(w)] += 1
    return {
        'self.vars': dict(vars_),
        'self._level_to_var': {k: v for v, k in vars_.items()},
        'self._succ': succ,
        'self._pred': {t: u for u, t in succ.items()},
        'self._ref': ref,
        'self._ite_table': {(2, 1, -1): 2},
        'self._min_free': max(succ) + 1,
    }


def undeclare_model(P, R):
    """`undeclare_vars(*names)` over small managers with nodes at some
    levels: every subset of the variables (and the call without
    arguments).  Compared with C14: exactly the requested unused
    variables go (all unused ones when none is named), used or unknown
    ones are refused and nothing changes, the remaining variables keep
    their relative order on levels 0..n-1, every node moves with its
    variable, the four tables stay inverse pairs, the computed table is
    reset."""
    import itertools
    f = P.func('dd.bdd.BDD.undeclare_vars')
    stubs = method_stubs(P, 'dd.bdd.BDD', ['level_of_var', 'var_at_level'])
    var = f.node.args.vararg.arg if f.node.args.vararg else None
    if var is None:
        raise AnalysisError('undeclare_vars no longer takes *names')
    # (declaration order differs from level order in the second manager,
    # as after a swap)
    managers = [
        ({'a': 0, 'b': 1, 'c': 2, 'd': 3},
         {2: (3, -1, 1), 3: (1, -1, 2)}),            # nodes on d, b
        ({'b': 1, 'a': 0, 'd': 3, 'c': 2},
         {2: (2, -1, 1), 3: (0, 2, 1)}),             # nodes on c, a
        ({'a': 0, 'b': 1}, {}),
        # two nodes with the same successors on adjacent levels, in
        # both orders of the node table: moving both must not make one
        # overwrite the other's entry in the unique table
        ({'a': 0, 'b': 1, 'c': 2, 'd': 3},
         {2: (3, -1, 1), 3: (2, -1, 1)}),
        ({'a': 0, 'b': 1, 'c': 2, 'd': 3},
         {3: (2, -1, 1), 2: (3, -1, 1)}),
    ]
    problems = dict()
    n_models = 0
    for vars_, nodes in managers:
        names = sorted(vars_)
        used_levels = {t[0] for t in nodes.values()}
        unused = {v for v, k in vars_.items() if k not in used_levels}
        requests = [()] + [
            c for r in range(1, len(names) + 1)
            for c in itertools.combinations(names, r)] + [('zz',)]
        for req in requests:
            n_models += 1
            env = _manager_state(vars_, nodes)
            env[var] = tuple(req)
            before = _snapshot(env)
            try:
                out, m = interp.run_function(f.node, env, stubs)
            except interp.Unknown as e:
                R.undecided('R-INVMAP', f.qualname,
                            'undeclare_vars model', str(e))
                return
            what = (f'levels {vars_}, nodes at levels '
                    f'{sorted(used_levels)}, undeclare_vars{req}')
            after = _snapshot(m.env)
            legal = all(x in unused for x in req)
            if out[0] == 'raise':
                if legal:
                    problems.setdefault('refuses-valid', what + (
                        ': refused although every named variable is '
                        'unused'))
                elif after != before:
                    problems.setdefault('raise-after-write', what + (
                        ': refused, but the tables were changed before'))
                continue
            if not legal:
                problems.setdefault('accepts-invalid', what + (
                    ': accepted although a named variable is unknown or '
                    'still has nodes'))
                continue
            gone = set(req) if req else set(unused)
            keep = [v for v in sorted(vars_, key=vars_.get)
                    if v not in gone]
            want_vars = {v: k for k, v in enumerate(keep)}
            old2new = {vars_[v]: want_vars[v] for v in keep}
            old2new[len(vars_)] = len(keep)
            v2 = m.env['self.vars']
            l2 = m.env['self._level_to_var']
            s2 = m.env['self._succ']
            p2 = m.env['self._pred']
            if out[1] != gone:
                problems.setdefault('removed-set', what + (
                    f': returns {out[1]} instead of {gone}'))
            if v2 != want_vars:
                problems.setdefault('compaction', what + (
                    f': the remaining variables get the levels {v2}; '
                    f'keeping their relative order gives {want_vars}'))
                continue
            if l2 != {k: v for v, k in v2.items()}:
                problems.setdefault('rebuild-l2v', what + (
                    f': _level_to_var = {l2} is not the inverse of vars '
                    f'= {v2}'))
            want_succ = {u: (old2new[t[0]], t[1], t[2])
                         for u, t in before['self._succ'].items()}
            if s2 != want_succ:
                problems.setdefault('nodes', what + (
                    f': the nodes are at {s2}; moving each with its '
                    f'variable gives {want_succ}'))
            if p2 != {t: u for u, t in s2.items()}:
                problems.setdefault('rebuild-pred', what + (
                    ': the unique table is not the inverse of the node '
                    f'table afterwards ({p2})'))
            if m.env.get('self._ite_table'):
                problems.setdefault('no-reset', what + (
                    ': the computed table keeps entries made for the old '
                    'levels'))
    keymap = {
        'refuses-valid': ('R-INVMAP', 'refuses-valid', 'vrs'),
        'accepts-invalid': ('R-INVMAP', 'accepts-invalid', 'vrs'),
        'raise-after-write': ('R-RAW', 'raise-after-write',
                              'undeclare_vars'),
        'removed-set': ('R-INVMAP', 'removed-set', 'rm_vars'),
        'compaction': ('R-INVMAP', 'compaction', 'new_levels'),
        'rebuild-l2v': ('R-INVMAP', 'rebuild', '_level_to_var'),
        'nodes': ('R-INVMAP', 'vars-renumbered', 'vars'),
        'rebuild-pred': ('R-INVMAP', 'rebuild', '_pred'),
        'no-reset': ('R-INVAL', 'no-reset', '_ite_table'),
    }
    for k, msg in sorted(problems.items()):
        rule, sub, construct = keymap[k]
        R.violation(rule, sub, f.qualname, construct, msg,
                    unit=f.unit.rel, line=f.lineno)
    if not problems:
        R.holds('R-INVMAP', f.qualname,
                f'undeclare_vars model ({n_models} requests on '
                f'{len(managers)} managers): removed set, compaction in level order, '
                'nodes moved with their variables, tables inverse, '
                'computed table reset, refusals leave no trace')


def counters_model(P, R, cls='dd.bdd.BDD'):
    """`incref(u)` / `decref(u)` over counts 0..3 and signed references:
    incref adds exactly one to the count of abs(u); decref subtracts one
    when the count is positive and changes nothing otherwise (C06: counts
    never go negative); no other count moves; neither raises."""
    for kind in ('incref', 'decref'):
        f = P.func(f'{cls}.{kind}')
        prm = [p for p in f.params if p != 'self']
        if len(prm) != 1:
            raise AnalysisError(f'{f.qualname}: expected one parameter')
        bad = None
        n = 0
        for c in (0, 1, 2, 3):
            for u in (2, -2, 1, -1):
                n += 1
                ref = {1: 5, 2: 7, 3: 2}
                ref[abs(u)] = c
                env = {'self._ref': dict(ref), prm[0]: u}
                try:
                    out, m = interp.run_function(f.node, env, {})
                except interp.Unknown as e:
                    R.undecided('R-PAIR', f.qualname, f'{kind} model',
                                str(e))
                    bad = False
                    break
                want = dict(ref)
                if kind == 'incref':
                    want[abs(u)] = c + 1
                elif c > 0:
                    want[abs(u)] = c - 1
                got = m.env.get('self._ref')
                if out[0] == 'raise':
                    bad = (f'{kind}({u}) with count {c} raises '
                           f'{out[1]}')
                elif got != want:
                    bad = (f'{kind}({u}) with counts {ref} leaves {got}; '
                           f'expected {want}')
                if bad:
                    break
            if bad is not None:
                break
        if bad:
            R.violation('R-PAIR', 'counter', f.qualname, kind, bad,
                        unit=f.unit.rel, line=f.lineno)
        elif bad is None:
            R.holds('R-PAIR', f.qualname,
                    f'{kind} model ({n} states): ' + (
                        'adds exactly one to abs(u)' if kind == 'incref'
                        else 'subtracts one only from a positive count'))


def _collect_spec(m, call, args, kw):
    """What collect_garbage is specified to do, on the model tables:
    nodes other than the terminal whose count is zero go, each releasing
    its two successors, until none is left."""
    succ = m.env['self._succ']
    ref = m.env['self._ref']
    pred = m.env.get('self._pred', {})
    while True:
        dead = [u for u in succ if u != 1 and ref[u] == 0]
        if not dead:
            break
        u = dead[0]
        i, v, w = succ.pop(u)
        pred.pop((i, v, w), None)
        ref.pop(u)
        for x in (v, w):
            if ref[abs(x)] > 0:
                ref[abs(x)] -= 1
    m.env['self._ite_table'] = dict()
    return None


def shutdown_model(P, R):
    """`BDD.__del__` over small managers: it raises exactly when a node
    (or the terminal) is still referenced from outside after the
    manager's own reference to the terminal is given back and garbage is
    collected."""
    f = P.func('dd.bdd.BDD.__del__')
    stubs = method_stubs(P, 'dd.bdd.BDD', ['decref', 'incref'], extra={
        'collect_garbage': _collect_spec,
        'stack': lambda m, c, a, k: '<stack>',
        'pformat': lambda m, c, a, k: '<text>'})
    vars_ = {'a': 0, 'b': 1}
    shapes = [
        {},
        {2: (1, -1, 1)},
        {2: (1, -1, 1), 3: (0, 2, -2)},
    ]
    bad = None
    n = 0
    for nodes in shapes:
        for ext_node in ([None] + sorted(nodes)):
            for ext_terminal in (0, 1):
                for own in (1, 0):
                    n += 1
                    env = _manager_state(vars_, nodes)
                    ref = env['self._ref']
                    ref[1] += own - 1 + ext_terminal
                    if ext_node is not None:
                        ref[ext_node] += 1
                    if own == 0 and (nodes or ext_terminal):
                        # (the manager's own reference is gone only
                        # after an earlier shutdown of an empty manager)
                        continue
                    start = dict(ref)
                    try:
                        out, m = interp.run_function(f.node, env, stubs)
                    except interp.Unknown as e:
                        R.undecided('R-PAIR', f.qualname,
                                    'shutdown model', str(e))
                        return
                    leak = ext_node is not None or ext_terminal > 0
                    raised = out[0] == 'raise'
                    if raised and not leak:
                        bad = (f'nodes {nodes}, counts {start}, no '
                               'reference from outside: the shutdown '
                               f'check raises {out[1]}')
                    if leak and not raised:
                        bad = (f'nodes {nodes}, counts {start} (one '
                               'reference from outside is left): the '
                               'shutdown check is silent')
                    if bad:
                        break
                if bad:
                    break
            if bad:
                break
        if bad:
            break
    if bad:
        R.violation('R-PAIR', 'shutdown', f.qualname, 'order', bad,
                    unit=f.unit.rel, line=f.lineno)
    else:
        R.holds('R-PAIR', f.qualname,
                f'shutdown model ({n} states): raises exactly when a '
                'reference from outside is left after the terminal\'s '
                'own count is given back and garbage is collected')


def handle_model(P, R):
    """`dd.autoref.Function.__init__` and `__del__` on a model manager
    that records incref / decref: the constructor takes exactly one
    reference to the node it wraps and none when it refuses the node;
    the finaliser gives exactly that reference back, once (a second
    invocation gives nothing back)."""
    init = P.func('dd.autoref.Function.__init__')
    dele = P.func('dd.autoref.Function.__del__')
    known = frozenset({1, -1, 2, -2})

    def recorder(log, name):
        def stub(m, call, args, kw):
            if len(args) != 1 or not isinstance(args[0], int) or \
                    isinstance(args[0], bool):
                log.append((name, args))
                raise interp.Raised('TypeError', call)
            if args[0] not in known:
                raise interp.Raised('KeyError', call)
            log.append((name, abs(args[0])))
            return None
        return stub
    prm = [p for p in init.params if p != 'self']
    if len(prm) != 2:
        raise AnalysisError('Function.__init__: expected (node, bdd)')
    bad = None
    n = 0
    for node in (2, -2, 1, 5, -5):
        n += 1
        log = []
        stubs = {'incref': recorder(log, 'incref'),
                 'decref': recorder(log, 'decref')}
        env = {prm[0]: node, prm[1]: interp.Sym('bdd'),
               f'{prm[1]}._bdd': known}
        try:
            out, m = interp.run_function(init.node, env, stubs)
        except interp.Unknown as e:
            R.undecided('R-PAIR', init.qualname, 'constructor model',
                        str(e))
            bad = False
            break
        if node in known:
            if out[0] == 'raise':
                bad = (f'Function({node}, bdd) for a node of the manager '
                       f'raises {out[1]} after {log}')
            elif log != [('incref', abs(node))]:
                bad = (f'Function({node}, bdd) changes the counts by '
                       f'{log}: it must take exactly one reference to '
                       f'node {abs(node)}')
            elif m.env.get('self.node') != node:
                bad = (f'Function({node}, bdd) takes the reference but '
                       f'stores node {m.env.get("self.node")}: the '
                       'finaliser cannot give it back')
        else:
            if out[0] != 'raise':
                bad = (f'Function({node}, bdd) accepts a node that the '
                       'manager does not have')
            elif log:
                bad = (f'Function({node}, bdd) raises after {log}: the '
                       'count is never given back (no Function object '
                       'exists)')
        if bad:
            break
    if bad:
        R.violation('R-PAIR', 'handle-acquire', init.qualname, 'incref',
                    bad, unit=init.unit.rel, line=init.lineno)
    elif bad is None:
        R.holds('R-PAIR', init.qualname,
                f'constructor model ({n} nodes): exactly one incref of '
                'the wrapped node, none when the node is refused')
    bad = None
    n = 0
    for node in (2, -2, 1, None):
        n += 1
        log = []
        stubs = {'incref': recorder(log, 'incref'),
                 'decref': recorder(log, 'decref')}
        env = {'self.node': node, 'self.manager': known,
               'self.bdd': interp.Sym('bdd'), 'self.bdd._bdd': known}
        try:
            out, m = interp.run_function(dele.node, env, stubs)
            first = list(log)
            out2, m2 = interp.run_function(dele.node, m.env, stubs)
        except interp.Unknown as e:
            R.undecided('R-PAIR', dele.qualname, 'finaliser model',
                        str(e))
            bad = False
            break
        want = [] if node is None else [('decref', abs(node))]
        if out[0] == 'raise' or out2[0] == 'raise':
            bad = (f'the finaliser of a handle on node {node} raises '
                   f'{out[1] or out2[1]} (counts changed: {log})')
        elif first != want:
            bad = (f'the finaliser of a handle on node {node} changes the '
                   f'counts by {first}; it must give back ' + (
                       'nothing (already released)' if node is None
                       else f'exactly the one reference to {abs(node)}'))
        elif log != want:
            bad = (f'a second invocation of the finaliser of a handle on '
                   f'node {node} changes the counts again ({log[len(first):]}'
                   '): the reference is given back twice')
        if bad:
            break
    if bad:
        R.violation('R-PAIR', 'handle-release', dele.qualname, 'decref',
                    'Function.__del__: ' + bad, unit=dele.unit.rel,
                    line=dele.lineno)
    elif bad is None:
        R.holds('R-PAIR', dele.qualname,
                f'finaliser model ({n} handles, each finalised twice): '
                'gives back exactly one reference, once')


def _fa_states(kind):
    """(state, requests) pairs for the find_or_add models."""
    out = []
    if kind == 'bdd':
        vars_ = {'a': 0, 'b': 1, 'c': 2}
        for nodes, free in (
                ({2: (2, -1, 1), 3: (1, -1, 2)}, 4),
                ({2: (2, -1, 1), 5: (1, 2, 1)}, 3)):
            env = _manager_state(vars_, nodes)
            env['self._min_free'] = free
            env['self.max_nodes'] = 50
            env['self'] = interp.Sym('self')
            below = {0: [u for u in env['self._succ']],
                     1: [u for u, t in env['self._succ'].items()
                         if t[0] > 1]}
            reqs = []
            for i, kids in below.items():
                refs = [s * u for u in kids for s in (1, -1)]
                reqs += [(i, (v, w)) for v in refs for w in refs]
            out.append((env, reqs))
        return out
    # mdd: x has three values, y two
    dvars = {'x': {'level': 0, 'len': 3}, 'y': {'level': 1, 'len': 2}}
    for nodes, free, mx in (
            ({2: (1, 1, -1)}, set(), 2),
            ({3: (1, 1, -1)}, {2}, 3)):
        succ = {1: (2, None)}
        succ.update(nodes)
        ref = {u: 0 for u in succ}
        for u, t in nodes.items():
            for x in t[1:]:
                ref[abs(x)] += 1
        env = {
            'self': interp.Sym('self'),
            'self.vars': {k: dict(v) for k, v in dvars.items()},
            'self._level_to_var': None,
            'self._succ': succ,
            'self._pred': {t: u for u, t in succ.items()},
            'self._ref': ref, 'self._max': mx, 'self._free': set(free),
            'self._ite_table': {}, 'self.max_nodes': 50}
        reqs = []
        refs1 = [1, -1]
        reqs += [(1, (a, b)) for a in refs1 for b in refs1]
        refs0 = [s * u for u in succ for s in (1, -1)]
        reqs += [(0, (a, b, c)) for a in refs0 for b in refs0
                 for c in refs0]
        out.append((env, reqs))
    return out


def find_or_add_model(P, R, cls='dd.bdd.BDD'):
    """`find_or_add(level, *successors)` for every valid request on small
    managers, compared with what a reduced diagram with complemented
    edges requires (C06 / C15): equal successors give the successor and
    no node; otherwise the node is stored with its distinguished edge
    (BDD: high, MDD: first) regular, all successors negated together and
    the sign returned on the reference; an existing node is found, not
    duplicated; a new node gets an unused number above 1, count zero,
    entries in both tables that are inverse of each other, and one
    reference on each successor; nothing else changes."""
    kind = 'bdd' if cls == 'dd.bdd.BDD' else 'mdd'
    f = P.func(f'{cls}.find_or_add')
    helpers = ['incref', '__contains__', '__len__']
    helpers += ['_next_free_int'] if kind == 'bdd' else [
        '_allocate', 'var_at_level']
    stubs = method_stubs(P, cls, [
        h for h in helpers if P.func(f'{cls}.{h}', required=False)],
        extra={'_request_reordering': lambda m, c, a, k: None})
    params = [p for p in f.params if p != 'self']
    star = f.node.args.vararg.arg if f.node.args.vararg else None
    if kind == 'bdd' and len(params) != 3:
        raise AnalysisError(f'{f.qualname} no longer takes (level, low, '
                            'high)')
    if kind == 'mdd' and (star is None or len(params) < 1):
        raise AnalysisError(f'{f.qualname} no longer takes (level, '
                            '*successors)')
    problems = dict()
    n = 0
    dist = (lambda kids: kids[-1]) if kind == 'bdd' else (
        lambda kids: kids[0])
    for env0, reqs in _fa_states(kind):
        for i, kids in reqs:
            n += 1
            env = copy.deepcopy({k: v for k, v in env0.items()
                                 if k != 'self'})
            env['self'] = env0['self']
            before = _snapshot(env)
            if kind == 'bdd':
                env[params[0]] = i
                env[params[1]], env[params[2]] = kids
            else:
                env[params[0]] = i
                env[star] = tuple(kids)
            what = f'find_or_add({i}, {", ".join(map(str, kids))}) on ' \
                f'nodes {before["self._succ"]}'
            try:
                out, m = interp.run_function(f.node, env, stubs)
            except interp.Unknown as e:
                R.undecided('R-NORM', f.qualname, 'find_or_add model',
                            str(e))
                return
            after = _snapshot(m.env)
            tables = ('self._succ', 'self._pred', 'self._ref')
            same = all(after[k] == before[k] for k in tables)
            if out[0] != 'return':
                problems.setdefault('refuses-valid', (
                    f'{what}: {out[0]} {out[1]}'))
                continue
            r = out[1]
            s = -1 if dist(kids) < 0 else 1
            norm = tuple(s * x for x in kids)
            if len(set(kids)) == 1:
                if r != kids[0] or not same:
                    problems.setdefault('elimination', (
                        f'{what}: equal successors must give the '
                        f'successor {kids[0]} and no node; got {r}' + (
                            '' if same else ' and changed tables')))
                continue
            key = (i, *norm)
            old = before['self._pred'].get(key)
            new = [u for u in after['self._succ']
                   if u not in before['self._succ']]
            if old is not None:
                if new:
                    problems.setdefault('key', (
                        f'{what}: the node {old} = {key} exists, but a '
                        f'second node {new} is created'))
                elif not same:
                    problems.setdefault('insert', (
                        f'{what}: the node exists, yet the tables are '
                        'changed'))
                elif r != s * old:
                    problems.setdefault('return', (
                        f'{what}: returns {r} for the existing node '
                        f'{old} with sign {s}'))
                continue
            if len(new) != 1:
                problems.setdefault('insert', (
                    f'{what}: {len(new)} node(s) created instead of one'))
                continue
            u = new[0]
            t = after['self._succ'][u]
            if t != key:
                d = dist(t[1:]) if len(t) > 1 and all(
                    isinstance(x, int) for x in t[1:]) else None
                if d is not None and d < 0:
                    sub = 'no-normalisation'
                    why = ('is stored with a complemented '
                           f'{"high" if kind == "bdd" else "first"} edge')
                elif t[0] != i or sorted(map(abs, t[1:])) != sorted(
                        map(abs, norm)) or tuple(map(abs, t[1:])) != \
                        tuple(map(abs, norm)):
                    sub = 'key'
                    why = f'is stored as {t}, expected {key}'
                else:
                    sub = 'children'
                    why = (f'is stored as {t}: the successors are not '
                           f'negated together (expected {key})')
                problems.setdefault(sub, f'{what}: the new node {u} {why}')
                continue
            if u <= 1 or u in before['self._succ']:
                problems.setdefault('insert', (
                    f'{what}: the new node takes the number {u}'))
            if r != s * u:
                problems.setdefault('return', (
                    f'{what}: the new node {u} = {t} is returned as {r}; '
                    f'the reference must carry the sign {s}'))
            wp = dict(before['self._pred'])
            wp[key] = u
            if after['self._pred'] != wp:
                problems.setdefault('insert', (
                    f'{what}: the unique table is not the inverse of the '
                    f'node table after the insertion'))
            wr = dict(before['self._ref'])
            wr[u] = 0
            if after['self._ref'].get(u) != 0:
                problems.setdefault('initial-count', (
                    f'{what}: the new node starts with count '
                    f'{after["self._ref"].get(u)}'))
            for x in norm:
                wr[abs(x)] += 1
            if {k: v for k, v in after['self._ref'].items() if k != u} \
                    != {k: v for k, v in wr.items() if k != u}:
                problems.setdefault('edge-without-ref', (
                    f'{what}: counts after the insertion are '
                    f'{after["self._ref"]}; one reference per stored edge '
                    f'gives {wr}: the children can be collected while the '
                    'parent is alive (or are never collected)'))
            if kind == 'bdd':
                mf = after.get('self._min_free')
                if not isinstance(mf, int) or mf <= 1 or \
                        mf in after['self._succ']:
                    problems.setdefault('min-free', (
                        f'{what}: _min_free = {mf} afterwards is not an '
                        'unused number above 1: the next insertion '
                        'overwrites a node'))
            else:
                if u in after.get('self._free', set()) or \
                        after.get('self._max', 0) < u:
                    problems.setdefault('min-free', (
                        f'{what}: the number {u} is still marked free '
                        '(or above _max): it is handed out again'))
    rules = {'initial-count': 'R-PAIR', 'edge-without-ref': 'R-PAIR'}
    for sub, msg in sorted(problems.items()):
        R.violation(rules.get(sub, 'R-NORM'), sub, f.qualname,
                    'incref' if sub == 'edge-without-ref' else (
                        '_ref' if sub == 'initial-count' else sub), msg,
                    unit=f.unit.rel, line=f.lineno)
    if not problems:
        R.holds('R-NORM', f.qualname,
                f'find_or_add model ({n} valid requests): elimination, '
                'distinguished edge regular with the sign on the '
                'reference, existing node found, new node inserted in '
                'both tables with count 0 and one reference per edge')
    return n


def mdd_cofactor_model(P, R):
    """`MDD._top_cofactor(u, level)` on a small diagram with variables of
    different sizes: one cofactor per value of the variable at `level`;
    a node below that level is its own cofactor for every value; a node
    at that level gives its successors, negated when the reference is
    complemented."""
    f = P.func('dd.mdd.MDD._top_cofactor')
    stubs = method_stubs(P, 'dd.mdd.MDD', ['var_at_level'])
    prm = [p for p in f.params if p != 'self']
    if len(prm) != 2:
        raise AnalysisError(f'{f.qualname}: expected (u, level)')
    dvars = {'x': {'level': 0, 'len': 3}, 'y': {'level': 1, 'len': 2}}
    succ = {1: (2, None), 2: (1, 1, -1), 3: (0, 2, 1, -2)}
    size = {0: 3, 1: 2}
    bad = None
    n = 0
    for u in (1, -1, 2, -2, 3, -3):
        for level in (0, 1):
            lu = succ[abs(u)][0]
            if level > lu:
                continue
            n += 1
            env = {'self': interp.Sym('self'),
                   'self.vars': copy.deepcopy(dvars),
                   'self._level_to_var': None,
                   'self._succ': dict(succ), prm[0]: u, prm[1]: level}
            try:
                out, m = interp.run_function(f.node, env, stubs)
            except interp.Unknown as e:
                R.undecided('R-VISIT', f.qualname, 'cofactor model', str(e))
                return
            if level < lu:
                want = (u,) * size[level]
            else:
                s = 1 if u > 0 else -1
                want = tuple(s * x for x in succ[abs(u)][1:])
            got = out[1]
            if out[0] == 'return' and isinstance(got, list):
                got = tuple(got)
            if out[0] != 'return' or got != want:
                bad = (f'_top_cofactor({u}, {level}) with node table '
                       f'{succ} and sizes {size}: {out[0]} {out[1]}; '
                       f'expected {want}')
                break
        if bad:
            break
    if bad:
        R.violation('R-VISIT', 'cofactors', f.qualname, 'cofactors', bad,
                    unit=f.unit.rel, line=f.lineno)
    else:
        R.holds('R-VISIT', f.qualname,
                f'cofactor model ({n} requests): one cofactor per value '
                'of the variable at the level asked for')


class _SpecManager:
    """A reference manager for models of loaders: reduced, with
    complemented edges, and strict about what it is handed."""

    def __init__(self, levels):
        self.levels = dict(levels)
        self.n = len(levels)
        self.succ = {1: (self.n, None, None)}
        self.pred = dict()
        self.complaints = []

    def level(self, u):
        return self.succ[abs(u)][0]

    def find_or_add(self, i, v, w):
        ok = isinstance(i, int) and not isinstance(i, bool) and \
            0 <= i < self.n
        if not ok:
            self.complaints.append(f'find_or_add at level {i!r} of a '
                                   f'manager with {self.n} variable(s)')
            raise interp.Raised('ValueError')
        for x in (v, w):
            if not isinstance(x, int) or isinstance(x, bool) or \
                    abs(x) not in self.succ:
                self.complaints.append(
                    f'find_or_add({i}, {v}, {w}): {x!r} is not a '
                    'reference of the manager being built')
                raise interp.Raised('ValueError')
            if self.level(x) <= i:
                self.complaints.append(
                    f'find_or_add({i}, {v}, {w}): the successor {x} is at '
                    f'level {self.level(x)}, not below level {i}')
        s = 1
        if w < 0:
            v, w, s = -v, -w, -1
        if v == w:
            return s * v
        t = (i, v, w)
        if t not in self.pred:
            u = max(self.succ) + 1
            self.succ[u] = t
            self.pred[t] = u
        return s * self.pred[t]

    def table(self, u, order):
        """Truth table of reference `u` over variables `order`."""
        import itertools
        by_level = {k: v for v, k in self.levels.items()}
        out = []
        for bits in itertools.product((False, True), repeat=len(order)):
            val = dict(zip(order, bits))
            x, neg = u, False
            while abs(x) != 1:
                if x < 0:
                    neg = not neg
                i, lo, hi = self.succ[abs(x)]
                x = hi if val[by_level[i]] else lo
            if x < 0:
                neg = not neg
            out.append(not neg)
        return tuple(out)


def _file_table(nodes, levels, root, order):
    """Truth table of the function that a DDDMP node table denotes."""
    import itertools
    by_level = {k: v for v, k in levels.items()}
    out = []
    for bits in itertools.product((False, True), repeat=len(order)):
        val = dict(zip(order, bits))
        x, neg = root, False
        while True:
            if x < 0:
                neg = not neg
            k, lo, hi = nodes[abs(x)]
            if lo is None:
                break
            x = hi if val[by_level[k]] else lo
        out.append(not neg)
    return tuple(out)


def dddmp_load_model(P, R):
    """`dd.dddmp.load` interpreted on the output of the parser for small
    files whose nodes are numbered in no particular order and whose
    levels have gaps, against a strict reference manager: the manager is
    built on the variables of the file in their relative order, every
    node is created after its successors, and the roots denote the
    functions that the file denotes."""
    f = P.func('dd.dddmp.load')
    order = ['a', 'b', 'c']
    files = [
        # levels with gaps; node numbers neither bottom-up nor top-down
        ({'a': 0, 'b': 2, 'c': 5}, 6,
         {1: (7, None, None), 3: (0, -2, 4), 2: (2, 4, 1),
          4: (5, -1, 1)}, {3, -2}),
        ({'c': 1, 'a': 3, 'b': 4}, 5,
         {5: (1, -2, 3), 1: (6, None, None), 2: (3, 3, 1),
          3: (4, -1, 1)}, {-5}),
        ({'a': 0, 'b': 1, 'c': 2}, 3,
         {1: (4, None, None), 2: (2, -1, 1), 3: (1, 2, 1),
          4: (0, -3, 2)}, {4, 2}),
        # constant roots
        ({'a': 0, 'b': 1, 'c': 2}, 3,
         {1: (4, None, None), 2: (2, -1, 1)}, {1, -2}),
        ({'a': 0, 'b': 1}, 2, {1: (3, None, None)}, {-1}),
    ]
    problems = dict()
    n = 0
    for levels, n_vars, nodes, roots in files:
        n += 1
        state = dict()

        def parse(m, call, args, kw):
            return (dict(nodes), n_vars, dict(levels), set(roots))

        def new_manager(m, call, args, kw):
            lv = args[0] if args else kw.get('levels')
            state['mgr'] = _SpecManager(lv if isinstance(lv, dict)
                                        else {})
            state['arg'] = lv
            state['roots'] = set()
            return interp.Sym('<bdd>', {'roots': state['roots']})

        def find_or_add(m, call, args, kw):
            if 'mgr' not in state or len(args) != 3:
                raise interp.Unknown('find_or_add before the manager')
            return state['mgr'].find_or_add(*args)
        stubs = {'Parser': lambda m, c, a, k: interp.Sym('parser'),
                 'parse': parse, 'BDD': new_manager,
                 'find_or_add': find_or_add}
        prm = [p for p in f.params]
        env = {p: interp.Sym(p) for p in prm}
        what = f'file with levels {levels}, nodes {nodes}, roots ' \
            f'{sorted(roots)}'
        try:
            out, m = interp.run_function(f.node, env, stubs)
        except interp.Unknown as e:
            R.undecided('R-ARGS', f.qualname, 'loader model', str(e))
            return
        mgr = state.get('mgr')
        if mgr is None:
            problems.setdefault('no-manager', f'{what}: no manager built')
            continue
        want_levels = {v: k for k, v in enumerate(
            sorted(levels, key=levels.get))}
        if state['arg'] != want_levels:
            problems.setdefault('levels', (
                f'{what}: the manager is built with levels '
                f'{state["arg"]}; the variables of the file in their '
                f'order give {want_levels}'))
            continue
        if out[0] == 'raise':
            sub = 'not-bottom-up' if out[1] == 'KeyError' else 'raises'
            problems.setdefault(sub, (
                f'{what}: the loader raises {out[1]}' + (
                    ': a node is reached before its successors have '
                    'been translated (the file may number its nodes in '
                    'any order)' if sub == 'not-bottom-up' else '')
                + ''.join('; ' + c for c in mgr.complaints[:2])))
            continue
        if mgr.complaints:
            problems.setdefault('not-bottom-up', (
                f'{what}: {mgr.complaints[0]}'))
            continue
        got_roots = state.get('roots')
        want = {_file_table(nodes, levels, r, order) for r in roots}
        try:
            got = {mgr.table(r, order) for r in (got_roots or set())}
        except (KeyError, TypeError):
            got = None
        if got != want:
            problems.setdefault('wrong-function', (
                f'{what}: the roots of the loaded manager '
                f'({sorted(got_roots or [])} in {mgr.succ}) do not denote '
                'the functions of the file'))
    for sub, msg in sorted(problems.items()):
        R.violation('R-ARGS', sub, f.qualname, 'find_or_add', msg,
                    unit=f.unit.rel, line=f.lineno)
    if not problems:
        R.holds('R-ARGS', f.qualname,
                f'loader model ({n} files): variables in file order on '
                'levels 0..n-1, each node built after its successors '
                'whatever its number, roots denote the functions of the '
                'file')


class ClassStubs(dict):
    """Stubs that resolve `self.<name>(...)` to the method of the class
    when it has one (interpreted like `method_stubs`), on demand."""

    def __init__(self, P, cls_qual, extra=None, skip=()):
        super().__init__(extra or {})
        self.P = P
        self.cls = cls_qual
        self.skip = set(skip)
        self.methods_only = True
        self._explicit = set(extra or {})

    def explicit(self, name):
        """Given by the model itself (not found as a method)."""
        return name in self._explicit

    def is_property(self, name):
        if name in self._explicit or name in self.skip:
            return False
        f = self.P.func(f'{self.cls}.{name}', required=False)
        return f is not None and any(
            au.src(d) == 'property' for d in f.node.decorator_list)

    def _resolve(self, name):
        if dict.__contains__(self, name):
            return True
        if name in self.skip or not isinstance(name, str):
            return False
        f = self.P.func(f'{self.cls}.{name}', required=False)
        if f is None:
            return False
        self[name] = method_stubs(self.P, self.cls, [name])[name]
        return True

    def __contains__(self, name):
        return self._resolve(name)

    def __getitem__(self, name):
        self._resolve(name)
        return dict.__getitem__(self, name)


def dddmp_parser_model(P, R):
    """The DDDMP parser after the header grammar: `_parse_header` on the
    header attributes of small files (each .varinfo the reader supports,
    levels with unused variables in between) and `_parse_body` on their
    node lines.  The info column of a node line must be looked up in a
    table keyed by what that column holds for the .varinfo of the file
    and give the level (permutation ID) of that variable; the levels
    handed to the loader are those of the same variables; each node line
    `id info index THEN ELSE` becomes (level, ELSE, THEN) with 0 read as
    absent; a complemented THEN edge is refused."""
    hdr = P.func('dd.dddmp.Parser._parse_header')
    body = P.func('dd.dddmp.Parser._parse_body')
    support = [('a', 0, 3), ('b', 2, 0), ('c', 4, 4)]   # name, id, permid
    ordered = ['b', 'x', 'y', 'a', 'c']
    problems = dict()
    n = 0
    tables = dict()
    for varinfo, with_order in ((0, True), (1, True), (3, True),
                                (0, False), (1, False)):
        n += 1
        attrs = {
            'self.var_extra_info': varinfo, 'self.n_vars': 5,
            'self.n_support_vars': 3, 'self.n_nodes': 4,
            'self.n_roots': 2, 'self.rootids': [4, -2],
            'self.support_vars': [s[0] for s in support],
            'self.ordered_vars': list(ordered) if with_order else None,
            'self.var_ids': [s[1] for s in support],
            'self.permuted_var_ids': [s[2] for s in support],
            'self.aux_var_ids': None, 'self.algebraic_dd': False}

        def parse(m, call, args, kw, attrs=attrs):
            m.env.update(copy.deepcopy(attrs))
            return True
        stubs = ClassStubs(P, 'dd.dddmp.Parser', extra={
            'open': lambda m, c, a, k: iter(
                ['.ver DDDMP-2.0\n', '.nnodes 4\n', '.nodes\n',
                 '1 T 1 0 0\n', '.end\n']),
            'parse': parse, 'input': lambda m, c, a, k: None},
            skip={'parse'})
        prm = [p for p in hdr.params if p != 'self']
        env = {'self': interp.Sym('self'),
               'self._lexer.lexer': interp.Sym('lexer'),
               'self.parser': interp.Sym('parser'),
               'self._lexer': interp.Sym('lexer-owner')}
        for p in prm:
            env[p] = None
        env[prm[0]] = 'file.dddmp'
        what = (f'.varinfo {varinfo}, support variables (name, id, '
                f'level) {support}' + (
                    f', all variables by level {ordered}' if with_order
                    else ', no .orderedvarnames'))
        try:
            out, m = interp.run_function(hdr.node, env, stubs)
        except interp.Unknown as e:
            R.undecided('R-KEYS', hdr.qualname, 'header model', str(e))
            return
        if out[0] != 'return':
            if varinfo == 3 and not with_order:
                continue
            problems.setdefault('varinfo-table', (
                f'{what}: the header is refused ({out[0]} {out[1]})'))
            continue
        table = m.env.get('self.info2permid')
        key_of = {0: 1, 1: 2, 3: 0}[varinfo]
        ok = isinstance(table, dict) and all(
            table.get(s[key_of]) == s[2] for s in support)
        if not ok:
            problems.setdefault(f'varinfo={varinfo}', (
                f'{what}: the info column of a node line holds the '
                f'{["name", "ID", "level"][key_of]} of the variable, but '
                f'the table it is looked up in is {table}: nodes get the '
                'level of another variable, or the file is refused'))
            continue
        top = max(s[2] for s in support)
        if not (isinstance(table.get('T'), int) and table['T'] > top):
            problems.setdefault('terminal-level', (
                f'{what}: the terminal gets level {table.get("T")}, not '
                f'below the variables (levels up to {top})'))
        res = out[1]
        if not (isinstance(res, tuple) and len(res) == 2 and isinstance(
                res[0], dict)):
            problems.setdefault('levels', (
                f'{what}: returns {res}, not (levels, roots)'))
            continue
        levels, roots = res
        if not all(levels.get(s[0]) == s[2] for s in support):
            problems.setdefault('sibling-tables', (
                f'{what}: the levels handed to the loader are {levels}; '
                'the node lines are mapped to levels by '
                f'{table}: with unused variables in between, nodes are '
                'built on the wrong variables'))
        if set(roots) != {4, -2}:
            problems.setdefault('roots', (
                f'{what}: roots {roots} instead of the .rootids 4, -2'))
        tables[varinfo] = table
    # node lines
    for varinfo, info in ((3, ['T', 'c', 'b', 'a']),
                          (0, ['T', '4', '2', '0'])):
        table = tables.get(varinfo)
        if table is None:
            continue
        for then_complemented in (False, True):
            n += 1
            lines = ['.ver DDDMP-2.0\n', '.nnodes 4\n', '.nodes\n',
                     f'1 {info[0]} 1 0 0\n',
                     f'2 {info[1]} 2 1 -1\n',
                     f'3 {info[2]} 1 1 2\n',
                     (f'4 {info[3]} 0 -2 3\n' if then_complemented
                      else f'4 {info[3]} 0 2 -3\n'),
                     '.end\n']
            stubs = ClassStubs(P, 'dd.dddmp.Parser', extra={
                'open': lambda m, c, a, k, lines=lines: iter(lines)})
            prm = [p for p in body.params if p != 'self']
            env = {'self': interp.Sym('self'),
                   'self.info2permid': dict(table), 'self.bdd': dict(),
                   'self.n_nodes': 4, prm[0]: 'file.dddmp',
                   'self.n_support_vars': 3, 'self.n_vars': 5,
                   'self.n_roots': 2,
                   'self.support_vars': [s_[0] for s_ in support],
                   'self.var_ids': [s_[1] for s_ in support],
                   'self.permuted_var_ids': [s_[2] for s_ in support]}
            what = f'node lines {[x.strip() for x in lines[3:-1]]}'
            try:
                out, m = interp.run_function(body.node, env, stubs)
            except interp.Unknown as e:
                R.undecided('R-ROLE', body.qualname, 'node-line model',
                            str(e))
                return
            if then_complemented:
                if out[0] != 'raise':
                    problems.setdefault('complemented-then', (
                        f'{what}: a complemented THEN edge is accepted'))
                continue
            lv = {s[0]: s[2] for s in support}
            want = {1: (table['T'], None, None),
                    2: (lv['c'], -1, 1), 3: (lv['b'], 2, 1),
                    4: (lv['a'], -3, 2)}
            got = m.env.get('self.bdd')
            if out[0] == 'raise':
                problems.setdefault('node-line', (
                    f'{what}: refused ({out[1]})'))
            elif got != want:
                swapped = isinstance(got, dict) and all(
                    isinstance(t, tuple) and len(t) == 3
                    for t in got.values()) and {
                        u: (t[0], t[2], t[1]) for u, t in got.items()} \
                    == want
                problems.setdefault(
                    'swapped-edges' if swapped else 'node-line', (
                        f'{what} (id info index THEN ELSE): the node '
                        f'table is {got}; (level, ELSE, THEN) gives '
                        f'{want}'))
    # a file over one variable: the terminal row (`1 T 1 0 0` as CUDD
    # writes it) and one node
    n += 1
    lines = ['.ver DDDMP-2.0\n', '.nnodes 2\n', '.nodes\n',
             '1 T 1 0 0\n', '2 a 0 1 -1\n', '.end\n']
    stubs = ClassStubs(P, 'dd.dddmp.Parser', extra={
        'open': lambda m, c, a, k, lines=lines: iter(lines)})
    prm = [p for p in body.params if p != 'self']
    env = {'self': interp.Sym('self'),
           'self.info2permid': {'a': 0, 'T': 1}, 'self.bdd': dict(),
           'self.n_nodes': 2, prm[0]: 'file.dddmp',
           'self.n_support_vars': 1, 'self.n_vars': 1, 'self.n_roots': 1,
           'self.support_vars': ['a'], 'self.var_ids': [0],
           'self.permuted_var_ids': [0]}
    try:
        out, m = interp.run_function(body.node, env, stubs)
    except interp.Unknown as e:
        R.undecided('R-ROLE', body.qualname, 'node-line model', str(e))
        return
    want = {1: (1, None, None), 2: (0, -1, 1)}
    if out[0] == 'raise' or m.env.get('self.bdd') != want:
        problems.setdefault('node-line', (
            f'node lines {[x.strip() for x in lines[3:-1]]} of a file over '
            f'one variable: {out[0]} {out[1]!r}, node table '
            f'{m.env.get("self.bdd")}; (level, ELSE, THEN) gives {want}'))
    rules = {'swapped-edges': 'R-ROLE', 'node-line': 'R-ROLE',
             'complemented-then': 'R-ROLE'}
    for sub, msg in sorted(problems.items()):
        f = body if sub in rules else hdr
        key_sub = 'varinfo-table' if sub.startswith('varinfo=') else sub
        R.violation(rules.get(sub, 'R-KEYS'), key_sub, f.qualname,
                    sub if sub.startswith('varinfo=') else (
                        'info2permid' if f is hdr else '_add_node'), msg,
                    unit=f.unit.rel, line=f.lineno)
    if not problems:
        R.holds('R-KEYS', hdr.qualname,
                f'parser model ({n} runs): for .varinfo 0, 1, 3 the info '
                'column is looked up by what it holds and gives the '
                'level of that variable; the levels handed to the loader '
                'are those of the same variables; node lines become '
                '(level, ELSE, THEN)')


def _build_manager(order, tables, externals, keep_garbage=False,
                   declared=None):
    """A consistent small manager over the variables `order` (level
    order) holding the functions `tables` (truth tables over sorted
    variable names), `externals` of them referenced from outside.
    -> (env, roots) with the tables of dd.bdd.BDD."""
    import itertools
    names = sorted(order)
    levels = {v: k for k, v in enumerate(order)}
    mgr = _SpecManager(levels)
    rows = list(itertools.product((False, True), repeat=len(names)))

    def build(rowset, k):
        # rowset: dict assignment-so-far; k: level
        if k == len(order):
            val = tt[rows.index(tuple(assign[n] for n in names))]
            return 1 if val else -1
        var = order[k]
        assign[var] = False
        lo = build(rowset, k + 1)
        assign[var] = True
        hi = build(rowset, k + 1)
        del assign[var]
        return mgr.find_or_add(k, lo, hi)
    roots = []
    for tt in tables:
        assign = dict()
        roots.append(build(None, 0))
    succ = dict(mgr.succ)
    ref = {u: 0 for u in succ}
    ref[1] = 1
    for u, (i, v, w) in succ.items():
        if v is not None:
            ref[abs(v)] += 1
            ref[abs(w)] += 1
    ext = dict()
    for k in externals:
        ref[abs(roots[k])] += 1
        ext[abs(roots[k])] = ext.get(abs(roots[k]), 0) + 1
    # nodes not reachable from an external reference would be garbage:
    # drop them, as a collection before the call would
    changed = not keep_garbage
    while changed:
        changed = False
        for u in list(succ):
            if u != 1 and ref[u] == 0:
                i, v, w = succ.pop(u)
                ref.pop(u)
                ref[abs(v)] -= 1
                ref[abs(w)] -= 1
                changed = True
    if declared is not None:
        # the order in which the names were declared (and are listed in
        # `vars`) is not the order of the levels, as after a swap
        levels = {v: levels[v] for v in declared}
    env = {
        'self': interp.Sym('self'),
        'self.vars': dict(levels),
        'self._level_to_var': {k: v for v, k in levels.items()},
        'self._succ': succ,
        'self._pred': {t: u for u, t in succ.items()},
        'self._ref': ref,
        'self._ite_table': {(2, 1, -1): 2},
        'self._min_free': max(succ) + 1,
        'self.max_nodes': 1000,
    }
    return env, ext


def _tt_of(env, u, names):
    """Truth table of reference `u` in the tables of `env`."""
    import itertools
    by_level = env['self._level_to_var']
    succ = env['self._succ']
    out = []
    for bits in itertools.product((False, True), repeat=len(names)):
        val = dict(zip(names, bits))
        x, neg, steps = u, False, 0
        while abs(x) != 1:
            steps += 1
            if steps > 50:
                return None
            if x < 0:
                neg = not neg
            i, lo, hi = succ[abs(x)]
            x = hi if val[by_level[i]] else lo
        if x < 0:
            neg = not neg
        out.append(not neg)
    return tuple(out)


def _manager_complaints(env, ext):
    """What is wrong with the tables of a manager (None if nothing)."""
    succ, pred, ref = env['self._succ'], env['self._pred'], env['self._ref']
    vars_, l2v = env['self.vars'], env['self._level_to_var']
    n = len(vars_)
    if sorted(vars_.values()) != list(range(n)):
        return f'the levels {vars_} are not 0..{n - 1}'
    if l2v != {k: v for v, k in vars_.items()}:
        return (f'_level_to_var = {l2v} is not the inverse of vars = '
                f'{vars_}')
    if pred != {t: u for u, t in succ.items()}:
        return ('the unique table is not the inverse of the node table: '
                f'_succ = {succ}, _pred = {pred}')
    want = {u: 0 for u in succ}
    want[1] = 1
    for u, t in succ.items():
        if u == 1:
            if t[0] != n:
                return f'the terminal is at level {t[0]}, not {n}'
            continue
        i, v, w = t
        if not (isinstance(v, int) and isinstance(w, int)) or \
                abs(v) not in succ or abs(w) not in succ:
            return f'node {u} = {t} has an edge to a node that is gone'
        if w < 0:
            return f'node {u} = {t} has a complemented high edge'
        if v == w:
            return f'node {u} = {t} is redundant (equal successors)'
        if not (0 <= i < n) or succ[abs(v)][0] <= i or \
                succ[abs(w)][0] <= i:
            return (f'node {u} = {t} is not above its successors (levels '
                    f'{succ[abs(v)][0]}, {succ[abs(w)][0]})')
        want[abs(v)] += 1
        want[abs(w)] += 1
    for u, k in ext.items():
        if u not in succ:
            return f'node {u}, referenced from outside, is gone'
        want[u] += k
    if set(ref) != set(succ):
        return f'_ref has the nodes {sorted(ref)}, _succ {sorted(succ)}'
    if ref != want:
        return (f'the reference counts are {ref}; one per edge and '
                f'outside reference gives {want}')
    mf = env.get('self._min_free')
    if not isinstance(mf, int) or mf <= 1 or mf in succ:
        return f'_min_free = {mf} is not an unused number above 1'
    return None


def swap_model(P, R):
    """`BDD.swap(x, y, all_levels)` interpreted on small managers (three
    variables, shared nodes, complemented edges, outside references),
    for both adjacent pairs, by level and by name, with and without the
    per-level index.  C07: the two variables exchange levels and nothing
    else moves; every node referenced from outside keeps its number and
    its function; the diagram stays reduced and the tables consistent
    (inverse pairs, counts = edges + outside references); the per-level
    index handed in lists afterwards exactly the nodes of each level;
    the computed table is reset; the sizes before and after are
    returned."""
    import itertools
    f = P.func('dd.bdd.BDD.swap')
    prm = [p for p in f.params if p != 'self']
    if len(prm) != 3:
        raise AnalysisError(f'{f.qualname}: expected (x, y, all_levels)')
    stubs = ClassStubs(P, 'dd.bdd.BDD', extra={
        '_request_reordering': lambda m, c, a, k: None})
    names = ['a', 'b', 'c']
    rows = list(itertools.product((False, True), repeat=3))

    def tt(fn):
        return tuple(bool(fn(*r)) for r in rows)
    funcs = [
        tt(lambda a, b, c: a and b),
        tt(lambda a, b, c: a != c),
        tt(lambda a, b, c: (b if a else c)),
        tt(lambda a, b, c: not (a or b) or c),
        tt(lambda a, b, c: b != c),
        tt(lambda a, b, c: a),
        tt(lambda a, b, c: (a or b) and not c),
        tt(lambda a, b, c: a == (b and c)),
    ]
    cases = [
        (['a', 'b', 'c'], [0, 1], [0, 1]),
        (['a', 'b', 'c'], [2, 3, 4], [0, 2]),
        (['b', 'c', 'a'], [2, 6, 7], [0, 1, 2]),
        (['c', 'a', 'b'], [1, 3, 5, 7], [0, 1, 3]),
        (['a', 'c', 'b'], [6, 4, 0, 2], [0, 1, 2, 3]),
        (['a', 'b', 'c'], [5], [0]),
        (['a', 'b', 'c'], [], []),
        # with nodes that nothing refers to (sifting does not collect
        # between swaps)
        (['a', 'b', 'c'], [0, 1, 4], [0], True),
        (['b', 'a', 'c'], [3, 6, 2], [1], True),
    ]
    problems = dict()
    n = 0
    for order, which, externals, *garbage in cases:
        base, ext = _build_manager(order, [funcs[k] for k in which],
                                   externals, bool(garbage))
        for x in (0, 1):
            for form in ('levels', 'names', 'reversed', 'index'):
                n += 1
                env = copy.deepcopy({k: v for k, v in base.items()
                                     if k != 'self'})
                env['self'] = base['self']
                if form == 'names':
                    args = (order[x], order[x + 1])
                elif form == 'reversed':
                    args = (x + 1, x)
                else:
                    args = (x, x + 1)
                index = None
                if form == 'index':
                    index = {k: set() for k in range(len(order))}
                    for u, t in env['self._succ'].items():
                        if u != 1:
                            index[t[0]].add(u)
                env[prm[0]], env[prm[1]] = args
                env[prm[2]] = index
                before = _snapshot(env)
                shared = {k: env[k] for k in ('self.vars',)}
                tts = {u: _tt_of(env, u, names) for u in ext}
                what = (f'variables {order}, nodes '
                        f'{before["self._succ"]}, outside references to '
                        f'{sorted(ext)}: swap{args}' + (
                            ' with the per-level index' if index
                            is not None else ''))
                try:
                    out, m = interp.run_function(f.node, env, stubs)
                except interp.Unknown as e:
                    R.undecided('R-INVMAP', f.qualname, 'swap model',
                                str(e))
                    return
                if out[0] != 'return':
                    problems.setdefault('refuses-valid', (
                        f'{what}: {out[0]} {out[1]}'))
                    continue
                want_vars = dict(before['self.vars'])
                want_vars[order[x]], want_vars[order[x + 1]] = x + 1, x
                if m.env['self.vars'] != want_vars:
                    problems.setdefault('vars-not-swapped', (
                        f'{what}: levels afterwards {m.env["self.vars"]}, '
                        f'expected {want_vars}'))
                    continue
                bad = _manager_complaints(m.env, ext)
                if bad:
                    problems.setdefault('tables', f'{what}: {bad}')
                    continue
                for k, obj in shared.items():
                    if m.env[k] is not obj:
                        problems.setdefault('order-maps', (
                            f'{what}: `{k}` is bound to a new object; '
                            'dd.autoref.BDD shares the old one, which '
                            'keeps the order before the swap'))
                moved = [u for u in ext
                         if _tt_of(m.env, u, names) != tts[u]]
                if moved:
                    problems.setdefault('function-changed', (
                        f'{what}: node(s) {moved}, referenced from '
                        'outside, denote another function afterwards '
                        f'(nodes now {m.env["self._succ"]})'))
                    continue
                if m.env.get('self._ite_table'):
                    problems.setdefault('no-reset', (
                        f'{what}: the computed table keeps entries made '
                        'for the old order'))
                if index is not None:
                    want_index = {k: set() for k in range(len(order))}
                    for u, t in m.env['self._succ'].items():
                        if u != 1:
                            want_index[t[0]].add(u)
                    got_index = {k: set(v) for k, v in index.items()
                                 if k != len(order)}
                    if got_index != want_index:
                        problems.setdefault('wrong-level-set', (
                            f'{what}: the per-level index afterwards is '
                            f'{got_index}; the nodes are at '
                            f'{want_index}: the next swap works on the '
                            'wrong nodes'))
                res = out[1]
                # (without the index the call collects garbage first)
                old = before['self._succ']
                if index is None:
                    live, todo = {1}, list(ext)
                    while todo:
                        u = todo.pop()
                        if u in live:
                            continue
                        live.add(u)
                        todo += [abs(old[u][1]), abs(old[u][2])]
                    n_old = len(live)
                else:
                    n_old = len(old)
                if isinstance(res, tuple) and len(res) == 2:
                    if res[0] != n_old or \
                            res[1] != len(m.env['self._succ']):
                        problems.setdefault('sizes', (
                            f'{what}: returns {res}; the sizes before '
                            f'and after are ({n_old}, '
                            f'{len(m.env["self._succ"])}): sifting picks '
                            'positions by these numbers'))
                else:
                    problems.setdefault('sizes', (
                        f'{what}: returns {res}, not (old size, new '
                        'size)'))
    keymap = {
        'refuses-valid': ('R-ACCEPT', 'rejects-valid', 'swap'),
        'vars-not-swapped': ('R-INVMAP', 'vars-not-swapped', 'vars'),
        'tables': ('R-INVMAP', 'tables', '_succ'),
        'order-maps': ('R-INVMAP', 'order-maps', 'vars'),
        'function-changed': ('R-INVMAP', 'function-changed', 'swap'),
        'no-reset': ('R-INVAL', 'no-reset', '_ite_table'),
        'wrong-level-set': ('R-LEVELSET', 'wrong-level-set',
                            'all_levels'),
        'sizes': ('R-INVMAP', 'sizes', 'return'),
    }
    for k, msg in sorted(problems.items()):
        rule, sub, construct = keymap[k]
        R.violation(rule, sub, f.qualname, construct, msg,
                    unit=f.unit.rel, line=f.lineno)
    if not problems:
        R.holds('R-INVMAP', f.qualname,
                f'swap model ({n} calls on {len(cases)} managers): levels '
                'exchanged, outside references keep number and function, '
                'diagram reduced, tables and counts consistent, per-level '
                'index exact, computed table reset, sizes returned')
    return n


def cy_release_model(P, R, mod, deref):
    """`<mod>.Function.__dealloc__` interpreted with a recording model of
    the library's release call: a live handle gives back exactly one
    reference, to the node it holds at entry; where the class keeps the
    `_ref` lower bound, a handle whose bound is zero gives back nothing,
    and a second finalisation of a handle finalised once gives back
    nothing more."""
    d = P.func(f'{mod}.Function.__dealloc__')
    guarded = any(au.chain(n) == ['self', '_ref']
                  for n in ast.walk(d.node))
    null = interp.Sym('NULL')
    bad = None
    runs = [(1, 7)] + ([(0, 7), (2, 7)] if guarded else [])
    n = 0
    for ref, node in runs:
        n += 1
        log = []

        def release(m, call, args, kw):
            log.append(tuple(args))
            return None
        stubs = {deref: release}
        env = {'self': interp.Sym('self'), 'self.node': node,
               'self.manager': interp.Sym('manager'),
               'self.bdd': interp.Sym('bdd'), 'self._ref': ref,
               'NULL': null}
        try:
            out, m = interp.run_function(d.node, env, stubs)
            first = list(log)
            if guarded and out[0] != 'raise' and ref == 1:
                interp.run_function(d.node, m.env, stubs)
        except interp.Unknown as e:
            R.undecided('R-CYTS', d.qualname, 'finaliser model', str(e))
            return
        if out[0] == 'raise':
            bad = (f'a handle with _ref = {ref} on node {node}: the '
                   f'finaliser raises {out[1]}')
        elif guarded and ref == 0:
            if first:
                bad = ('releases although the lower bound `_ref` is zero')
        elif len(first) != 1:
            bad = (f'gives back {len(first)} library reference(s) instead '
                   'of one')
        elif first[0][-1] != node:
            bad = (f'releases {first[0][-1]!r}, not the node {node} that '
                   'the handle holds')
        elif guarded and ref == 1 and len(log) != 1:
            bad = ('a second finalisation releases the node again')
        if bad:
            break
    if bad:
        R.violation('R-CYTS', 'handle-release', d.qualname, deref,
                    f'{d.qualname} {bad}', unit=d.unit.rel, line=d.lineno)
    else:
        R.holds('R-CYTS', d.qualname,
                f'finaliser model ({n} handle state(s)): one {deref} of '
                'the node held, none when the lower bound is zero')


def _fresh_manager(vars_=None):
    vars_ = dict(vars_ or {})
    n = len(vars_)
    t = (n, None, None)
    return {
        'self': interp.Sym('self'),
        'self.vars': vars_,
        'self._level_to_var': {k: v for v, k in vars_.items()},
        'self._succ': {1: t}, 'self._pred': {t: 1}, 'self._ref': {1: 1},
        'self._ite_table': dict(), 'self._min_free': 2,
        'self.max_nodes': 1000, 'self.roots': set()}


def pickle_roundtrip_model(P, R):
    """`BDD._dump_bdd` interpreted on small managers, and `BDD.load`
    interpreted on what it wrote, into a fresh manager, into one with the
    variables in another order (levels not restored) and into one that
    already holds nodes.  C12: the file holds the variables, the roots
    as given and the node table below them (all nodes when no roots are
    named); the loaded references denote, by variable name, the
    functions that were dumped."""
    import itertools
    dump = P.func('dd.bdd.BDD._dump_bdd')
    load = P.func('dd.bdd.BDD.load')
    names = ['a', 'b', 'c']
    rows = list(itertools.product((False, True), repeat=3))

    def tt(fn):
        return tuple(bool(fn(*r)) for r in rows)
    funcs = [tt(lambda a, b, c: a and not b),
             tt(lambda a, b, c: (b if a else c)),
             tt(lambda a, b, c: a != (b or c)),
             tt(lambda a, b, c: c)]
    resolver = interp.ModuleEnv(P, 'dd.bdd')
    problems = dict()
    n = 0
    dparams = [p for p in dump.params if p != 'self']
    lparams = [p for p in load.params if p != 'self']
    for order in (['a', 'b', 'c'], ['c', 'a', 'b']):
        src, ext = _build_manager(order, funcs, [0, 1, 2, 3])
        roots_abs = sorted(ext)
        # references with signs, as the user holds them
        want = dict()
        for u in roots_abs:
            want[u] = _tt_of(src, u, names)
            want[-u] = tuple(not x for x in want[u])
        for shape in ('list', 'dict', 'none'):
            if shape == 'list':
                roots = [roots_abs[0], -roots_abs[1], roots_abs[-1]]
            elif shape == 'dict':
                # (names not listed in alphabetical order)
                roots = {'g': -roots_abs[0], 'f': roots_abs[2],
                         'h': roots_abs[1]}
            else:
                roots = None
            written = []

            def w_dump(m, call, args, kw):
                written.append(copy.deepcopy(args[0]))
                return None
            stubs = ClassStubs(P, 'dd.bdd.BDD', extra={
                'open': lambda m, c, a, k: interp.Sym('file'),
                'dump': w_dump,
                '_request_reordering': lambda m, c, a, k: None},
                skip={'dump', 'load'})
            env = copy.deepcopy({k: v for k, v in src.items()
                                 if k != 'self'})
            env['self'] = src['self']
            env[dparams[0]] = copy.deepcopy(roots)
            env[dparams[1]] = 'file.p'
            kwname = dump.node.args.kwarg.arg if dump.node.args.kwarg \
                else None
            if kwname:
                env[kwname] = dict()
            what = (f'variables {order}, nodes {src["self._succ"]}, '
                    f'dump of roots {roots}')
            try:
                out, m = interp.run_function(dump.node, env, stubs,
                                             resolver)
            except interp.Unknown as e:
                R.undecided('R-FORMAT', dump.qualname,
                            'pickle writer model', str(e))
                return
            n += 1
            if out[0] == 'raise' or len(written) != 1 or not isinstance(
                    written[0], dict):
                problems.setdefault('pickle-content/file', (
                    f'{what}: {out[0]} {out[1]}, wrote {written}'))
                continue
            d = written[0]
            if d.get('vars') != src['self.vars'] or \
                    d.get('roots') != roots:
                problems.setdefault('pickle-content/vars', (
                    f'{what}: the file holds vars = {d.get("vars")}, '
                    f'roots = {d.get("roots")}'))
                continue
            if roots is None:
                below = set(src['self._succ'])
            else:
                below, todo = {1}, [abs(r) for r in (
                    roots.values() if isinstance(roots, dict) else roots)]
                while todo:
                    u = todo.pop()
                    if u in below:
                        continue
                    below.add(u)
                    t = src['self._succ'][u]
                    todo += [abs(t[1]), abs(t[2])]
            want_succ = {u: src['self._succ'][u] for u in below}
            if d.get('succ') != want_succ:
                problems.setdefault('pickle-content/succ', (
                    f'{what}: the node table of the file is '
                    f'{d.get("succ")}; the nodes below the roots are '
                    f'{want_succ}'))
                continue
            if roots is None:
                continue
            # ---- read it back
            targets = [
                ('a fresh manager', _fresh_manager(), True),
                ('a manager with the variables in the order b, c, a',
                 _fresh_manager({'b': 0, 'c': 1, 'a': 2}), False),
                ('the manager it was dumped from',
                 copy.deepcopy({k: v for k, v in src.items()
                                if k != 'self'}), True),
            ]
            for tname, tenv, levels in targets:
                n += 1
                tenv['self'] = interp.Sym('self')
                tenv.setdefault('self.roots', set())

                def r_load(m, call, args, kw, d=d):
                    return copy.deepcopy(d)
                lstubs = ClassStubs(P, 'dd.bdd.BDD', extra={
                    'open': lambda m, c, a, k: interp.Sym('file'),
                    'load': r_load,
                    '_request_reordering': lambda m, c, a, k: None},
                    skip={'dump', 'load'})
                tenv[lparams[0]] = 'file.p'
                if len(lparams) > 1:
                    tenv[lparams[1]] = levels
                try:
                    out, m2 = interp.run_function(load.node, tenv, lstubs,
                                                  resolver)
                except interp.Unknown as e:
                    R.undecided('R-FORMAT', load.qualname,
                                'pickle reader model', str(e))
                    return
                lwhat = f'{what}, loaded into {tname}' + (
                    '' if levels else ' with levels=False')
                if out[0] != 'return':
                    problems.setdefault('pickle-load/raises', (
                        f'{lwhat}: {out[0]} {out[1]}'))
                    continue
                got = out[1]
                if isinstance(roots, dict):
                    pairs = [(roots[k], got.get(k) if isinstance(
                        got, dict) else None) for k in roots]
                else:
                    got = list(got) if isinstance(
                        got, (list, tuple)) else None
                    pairs = list(zip(roots, got)) if got is not None \
                        and len(got) == len(roots) else [(roots[0], None)]
                for old, new in pairs:
                    t2 = _tt_of(m2.env, new, names) if isinstance(
                        new, int) and abs(new) in m2.env['self._succ'] \
                        and set(m2.env['self.vars']) >= set(names) \
                        else None
                    if t2 != want[old]:
                        problems.setdefault('pickle-load/function', (
                            f'{lwhat}: the root {old} comes back as '
                            f'{new}, which does not denote the function '
                            f'that was dumped (nodes now '
                            f'{m2.env["self._succ"]}, levels '
                            f'{m2.env["self.vars"]})'))
                        break
    for key, msg in sorted(problems.items()):
        sub, construct = key.split('/')
        f = dump if sub == 'pickle-content' else load
        R.violation('R-FORMAT', sub, f.qualname, construct, msg,
                    unit=f.unit.rel, line=f.lineno)
    if not problems:
        R.holds('R-FORMAT', dump.qualname,
                f'pickle round-trip model ({n} runs): the file holds '
                'variables, roots and the node table below them; loaded '
                'references denote the dumped functions by variable name '
                '(fresh manager, other variable order, same manager)')
    return n


def pickle_corrupt_model(P, R):
    """`BDD.load` interpreted on files whose contents are not what the
    writer produces (a variable at a level outside 0..n-1 of the file, at
    the first and at the last position of the table; a negative level; an
    edge to a node the file does not hold; no node table), into a fresh
    manager and into one that holds nodes.  C17: when the call fails, the
    manager is still reduced and consistent, its levels are still a
    bijection onto 0..n-1 and every live reference denotes what it did."""
    import itertools
    load = P.func('dd.bdd.BDD.load')
    resolver = interp.ModuleEnv(P, 'dd.bdd')
    names = ['a', 'b', 'c']
    rows = list(itertools.product((False, True), repeat=3))
    funcs = [tuple(bool(a and not b) for a, b, c in rows),
             tuple(bool(b if a else c) for a, b, c in rows)]
    src, ext = _build_manager(['a', 'b', 'c'], funcs, [0, 1])
    good = {'vars': {'a': 0, 'b': 1, 'c': 2},
            'succ': copy.deepcopy(src['self._succ']),
            'roots': sorted(ext)}

    def edit(**kw):
        d = copy.deepcopy(good)
        d.update(kw)
        return d
    some = max(good['succ'])
    i, v, w = good['succ'][some]
    files = [
        ('the variable c at level 5',
         edit(vars={'a': 0, 'b': 1, 'c': 5})),
        ('the variable a at level 7 (first in the table)',
         edit(vars={'a': 7, 'b': 1, 'c': 2})),
        ('a new variable w at level 5',
         edit(vars={'a': 0, 'b': 1, 'c': 2, 'w': 5})),
        ('the variable c at level -1',
         edit(vars={'a': 0, 'b': 1, 'c': -1})),
        (f'node {some} with an edge to the absent node 99',
         edit(succ={**good['succ'], some: (i, v, 99)})),
        ('no node table', {'vars': dict(good['vars']),
                           'roots': list(good['roots'])}),
    ]
    lparams = [p for p in load.params if p != 'self']
    problems = dict()
    n = 0
    try:
        for fname, d in files:
            for tname, tenv, text in (
                    ('a fresh manager', _fresh_manager(), {}),
                    ('a manager that holds nodes', copy.deepcopy(
                        {k: v for k, v in src.items() if k != 'self'}),
                     dict(ext))):
                for levels in (True, False):
                    n += 1
                    tenv = copy.deepcopy(tenv)
                    tenv['self'] = interp.Sym('self')
                    tenv.setdefault('self.roots', set())
                    live = {r: _tt_of(tenv, r, names) for r in text}

                    def r_load(m, call, args, kw, d=d):
                        return copy.deepcopy(d)
                    stubs = ClassStubs(P, 'dd.bdd.BDD', extra={
                        'open': lambda m, c, a, k: interp.Sym('file'),
                        'load': r_load,
                        '_request_reordering': lambda m, c, a, k: None},
                        skip={'dump', 'load'})
                    tenv[lparams[0]] = 'file.p'
                    if len(lparams) > 1:
                        tenv[lparams[1]] = levels
                    out, m = interp.run_function(
                        load.node, tenv, stubs, resolver)
                    if out[0] != 'raise':
                        continue
                    what = (f'a file with {fname}, loaded into {tname} '
                            f'with levels={levels}, is refused '
                            f'({out[1]})')
                    env = {k: v for k, v in m.env.items()
                           if k.startswith('self.')}
                    bad = _manager_complaints(env, dict(text))
                    if bad is None:
                        for r, t in live.items():
                            if abs(r) not in env['self._succ'] or \
                                    _tt_of(env, r, names) != t:
                                bad = (f'the live reference {r} does '
                                       'not denote what it did')
                    if bad:
                        problems.setdefault('corrupt-file', (
                            f'{what} and leaves the manager changed: '
                            f'{bad}'))
    except (interp.Unknown, KeyError) as e:
        R.undecided('R-RAW', load.qualname, 'corrupt-file model', str(e))
        return None
    for sub, msg in sorted(problems.items()):
        R.violation('R-RAW', sub, load.qualname, 'load', msg,
                    unit=load.unit.rel, line=load.lineno)
    if not problems:
        R.holds('R-RAW', load.qualname,
                f'corrupt-file model ({n} loads of {len(files)} files): a '
                'refused file leaves the manager reduced, consistent, with '
                'levels 0..n-1 and every live reference unchanged')
    return n


def r_pickle_corrupt(P, R):
    n = pickle_corrupt_model(P, R)
    if n is not None:
        R.floor('R-RAW loads of the corrupt-file model', n, 20)
r_pickle_corrupt.NAME = 'R-RAW(corrupt-file model)'


class _OrderModel:
    """A manager reduced to its variable order, for the functions that
    only drive `swap`: the size of the diagram is a fixed function of the
    order (10 + the number of inversions against a hidden best order), a
    swap exchanges two adjacent levels and complains about anything
    else."""

    def __init__(self, order, best):
        self.vars = {v: k for k, v in enumerate(order)}
        self.best = {v: k for k, v in enumerate(best)}
        self.complaints = []
        self.swaps = 0
        self.roots = set()

    def order(self):
        return sorted(self.vars, key=self.vars.get)

    def size(self):
        o = self.order()
        inv = sum(1 for i in range(len(o)) for j in range(i + 1, len(o))
                  if self.best[o[i]] > self.best[o[j]])
        return 10 + inv

    def stubs(self):
        mdl = self

        def swap(m, call, args, kw):
            vals = dict(zip(('x', 'y', 'all_levels'), args))
            vals.update(kw)
            x, y = vals.get('x'), vals.get('y')
            if x in mdl.vars:
                x = mdl.vars[x]
            if y in mdl.vars:
                y = mdl.vars[y]
            n = len(mdl.vars)
            ok = all(isinstance(z, int) and not isinstance(z, bool)
                     and 0 <= z < n for z in (x, y))
            if not ok or abs(x - y) != 1:
                mdl.complaints.append(
                    f'swap({vals.get("x")!r}, {vals.get("y")!r}) with '
                    f'{n} variables: not two adjacent levels')
                raise interp.Raised('ValueError')
            old = mdl.size()
            by = {k: v for v, k in mdl.vars.items()}
            mdl.vars[by[x]], mdl.vars[by[y]] = y, x
            mdl.swaps += 1
            return (old, mdl.size())

        def var_at_level(m, call, args, kw):
            by = {k: v for v, k in mdl.vars.items()}
            if not args or args[0] not in by:
                raise interp.Raised('ValueError')
            return by[args[0]]

        def level_of_var(m, call, args, kw):
            if not args or args[0] not in mdl.vars:
                raise interp.Raised('ValueError')
            return mdl.vars[args[0]]
        return {
            'swap': swap, 'var_at_level': var_at_level,
            'level_of_var': level_of_var,
            '_levels': lambda m, c, a, k: {
                i: set() for i in range(len(mdl.vars) + 1)},
            'collect_garbage': lambda m, c, a, k: None,
            'assert_consistent': lambda m, c, a, k: True,
            'getEffectiveLevel': lambda m, c, a, k: 100,
            '__len__': lambda m, c, a, k: mdl.size(),
            '__contains__': lambda m, c, a, k: True,
        }

    def handle(self):
        mdl = self

        class Attrs:
            def __contains__(self, name):
                return name in ('vars', 'roots', 'var_levels')

            def __getitem__(self, name):
                if name == 'var_levels':
                    # a property: a new dictionary at every read
                    return dict(mdl.vars)
                return {'vars': mdl.vars, 'roots': mdl.roots}[name]
        return interp.Sym('bdd', Attrs())


def reorder_model(P, R):
    """The functions of dd.bdd that reorder by driving `swap`
    (`_sort_to_order`, `reorder_to_pairs`, `_shift`, `_reorder_var`,
    `_apply_sifting`), interpreted on a manager reduced to its variable
    order with a specification of `swap` (exchange of two adjacent
    levels, sizes before and after from a fixed function of the order).
    C07: afterwards the requested order holds (every start and target
    permutation of four variables); every requested pair is adjacent;
    only adjacent levels are ever swapped; sifting a variable leaves it
    at a position of least size and never ends larger than it began."""
    import itertools
    names = ['a', 'b', 'c', 'd']
    perms = list(itertools.permutations(names))
    resolver = interp.ModuleEnv(P, 'dd.bdd')
    env0 = {'logging.DEBUG': 10}
    problems = dict()
    counts = dict()

    def run(qual, mdl, args):
        f = P.func(qual)
        stubs = mdl.stubs()
        # the functions of this family call each other
        for other in ('_shift', '_reorder_var', '_sort_to_order',
                      '_apply_sifting'):
            g = P.func(f'dd.bdd.{other}', required=False)
            if g is not None and other != f.name:
                def sub(m, call, a, k, g=g):
                    ps = g.params
                    e = dict(env0)
                    e.update(zip(ps, a))
                    e.update(k)
                    out, _ = interp.run_function(g.node, e, stubs,
                                                 resolver)
                    if out[0] == 'raise':
                        raise interp.Raised(out[1])
                    return out[1]
                stubs[other] = sub
        env = dict(env0)
        env.update(zip(f.params, args))
        counts[qual] = counts.get(qual, 0) + 1
        return f, interp.run_function(f.node, env, stubs, resolver)
    try:
        # ---- _sort_to_order: every start x every target
        q = 'dd.bdd._sort_to_order'
        for start in perms:
            for target in perms:
                # (the mapping listed by level, by name, and bottom up:
                # the order in which a mapping lists its entries is not
                # part of what it asks for)
                for listed in (list(target), sorted(target),
                               list(reversed(target))):
                    mdl = _OrderModel(start, target)
                    order = {v: target.index(v) for v in listed}
                    f, (out, m) = run(q, mdl, [mdl.handle(), dict(order)])
                    what = (f'order {list(start)} sorted to the mapping '
                            f'{order}')
                    if mdl.complaints:
                        problems.setdefault((q, 'non-adjacent-swap'),
                                            f'{what}: {mdl.complaints[0]}')
                    elif out[0] == 'raise':
                        problems.setdefault((q, 'raises'),
                                            f'{what}: raises {out[1]}')
                    elif mdl.vars != order:
                        problems.setdefault((q, 'order-not-reached'), (
                            f'{what}: ends with {mdl.order()}'))
        # ---- reorder_to_pairs: disjoint pairs
        q = 'dd.bdd.reorder_to_pairs'
        pairings = [{'a': 'b'}, {'a': 'c'}, {'d': 'a'}, {'b': 'd'},
                    {'a': 'b', 'c': 'd'}, {'a': 'c', 'b': 'd'},
                    {'d': 'a', 'c': 'b'}]
        for start in perms:
            for pairs in pairings:
                mdl = _OrderModel(start, names)
                f, (out, m) = run(q, mdl, [mdl.handle(), dict(pairs)])
                what = f'order {list(start)}, pairs {pairs}'
                if mdl.complaints:
                    problems.setdefault((q, 'non-adjacent-swap'),
                                        f'{what}: {mdl.complaints[0]}')
                elif out[0] == 'raise':
                    problems.setdefault((q, 'raises'),
                                        f'{what}: raises {out[1]}')
                else:
                    apart = [(x, y) for x, y in pairs.items()
                             if abs(mdl.vars[x] - mdl.vars[y]) != 1]
                    if apart:
                        problems.setdefault((q, 'pair-not-adjacent'), (
                            f'{what}: ends with {mdl.order()}, where '
                            f'{apart} are not adjacent'))
        # ---- _shift: level start becomes level end, others keep order
        q = 'dd.bdd._shift'
        for s in range(4):
            for e in range(4):
                mdl = _OrderModel(names, ['c', 'a', 'd', 'b'])
                f, (out, m) = run(q, mdl, [mdl.handle(), s, e,
                                           {i: set() for i in range(5)}])
                want = [v for v in names if v != names[s]]
                want.insert(e, names[s])
                what = f'order {names}, _shift(start={s}, end={e})'
                if mdl.complaints:
                    problems.setdefault((q, 'non-adjacent-swap'),
                                        f'{what}: {mdl.complaints[0]}')
                elif out[0] == 'raise':
                    problems.setdefault((q, 'raises'),
                                        f'{what}: raises {out[1]}')
                elif mdl.order() != want:
                    problems.setdefault((q, 'order-not-reached'), (
                        f'{what}: ends with {mdl.order()}, expected '
                        f'{want}'))
                elif isinstance(out[1], dict) and s != e:
                    # the sizes reported per position
                    sizes = out[1]
                    if sizes.get(e) != mdl.size():
                        problems.setdefault((q, 'sizes'), (
                            f'{what}: reports size {sizes.get(e)} for '
                            f'the final position; it is {mdl.size()}'))
        # ---- _reorder_var: the variable ends at a position of least
        # size, and the diagram is not larger than before
        q = 'dd.bdd._reorder_var'
        for start in perms:
            for best in (('a', 'b', 'c', 'd'), ('c', 'a', 'd', 'b'),
                         ('d', 'c', 'b', 'a')):
                for var in names:
                    mdl = _OrderModel(start, best)
                    before = mdl.size()
                    others = [v for v in start if v != var]
                    least = None
                    for k in range(4):
                        o = list(others)
                        o.insert(k, var)
                        sz = _OrderModel(o, best).size()
                        least = sz if least is None else min(least, sz)
                    f, (out, m) = run(q, mdl, [
                        mdl.handle(), var, {i: set() for i in range(5)}])
                    what = (f'order {list(start)} (size {before}; best '
                            f'order {list(best)}), sifting {var}')
                    if mdl.complaints:
                        problems.setdefault((q, 'non-adjacent-swap'),
                                            f'{what}: {mdl.complaints[0]}')
                    elif out[0] == 'raise':
                        problems.setdefault((q, 'raises'),
                                            f'{what}: raises {out[1]}')
                    elif [v for v in mdl.order() if v != var] != others:
                        problems.setdefault((q, 'others-moved'), (
                            f'{what}: the other variables end as '
                            f'{mdl.order()}'))
                    elif mdl.size() != least:
                        problems.setdefault((q, 'not-least'), (
                            f'{what}: ends with size {mdl.size()} at '
                            f'{mdl.order()}; position of least size '
                            f'gives {least}'))
                    elif out[1] != mdl.vars[var]:
                        problems.setdefault((q, 'returns'), (
                            f'{what}: returns {out[1]}, the variable is '
                            f'at level {mdl.vars[var]}'))
        # ---- _apply_sifting: never ends larger
        q = 'dd.bdd._apply_sifting'
        for start in perms[::3]:
            for best in (('c', 'a', 'd', 'b'), ('d', 'c', 'b', 'a')):
                mdl = _OrderModel(start, best)
                before = mdl.size()
                f, (out, m) = run(q, mdl, [mdl.handle()])
                what = f'order {list(start)} (size {before}), sifting'
                if mdl.complaints:
                    problems.setdefault((q, 'non-adjacent-swap'),
                                        f'{what}: {mdl.complaints[0]}')
                elif out[0] == 'raise':
                    problems.setdefault((q, 'raises'),
                                        f'{what}: raises {out[1]}')
                elif mdl.size() > before:
                    problems.setdefault((q, 'larger'), (
                        f'{what}: ends with size {mdl.size()}'))
    except interp.Unknown as e:
        R.undecided('R-INVMAP', 'dd.bdd (reordering drivers)',
                    'reorder model', str(e))
        return None
    for (q, sub), msg in sorted(problems.items()):
        f = P.func(q)
        R.violation('R-REORDER', sub, q, sub, msg, unit=f.unit.rel,
                    line=f.lineno)
    total = sum(counts.values())
    if not problems:
        R.holds('R-REORDER', 'dd.bdd (reordering drivers)',
                f'reorder model ({total} runs: '
                + ', '.join(f'{k.rsplit(".", 1)[1]} {v}'
                            for k, v in sorted(counts.items()))
                + '): requested order reached, pairs adjacent, only '
                'adjacent levels swapped, sifted variable at a position '
                'of least size, never larger')
    return total


def traversal_model(P, R):
    """`BDD.support`, `BDD.descendants` and `BDD.is_essential`
    interpreted (with the helpers they call) on small managers with
    shared nodes and complemented edges, for every node in both signs:
    the support is the set of variables of the nodes below the
    reference (names, or levels when asked); the descendants of a set of
    roots are the nodes below them and the terminal, nothing for no
    roots; a variable is essential exactly when it is in the support,
    an undeclared name never."""
    import itertools
    names = ['a', 'b', 'c']
    rows = list(itertools.product((False, True), repeat=3))

    def tt(fn):
        return tuple(bool(fn(*r)) for r in rows)
    funcs = [tt(lambda a, b, c: a and b),
             tt(lambda a, b, c: (b if a else c)),
             tt(lambda a, b, c: b != c),
             tt(lambda a, b, c: not c),
             tt(lambda a, b, c: a == (b and c))]
    stubs = ClassStubs(P, 'dd.bdd.BDD')
    sup = P.func('dd.bdd.BDD.support')
    desc = P.func('dd.bdd.BDD.descendants')
    ess = P.func('dd.bdd.BDD.is_essential')
    problems = dict()
    n = 0

    def below(succ, u):
        seen, todo = set(), [abs(u)]
        while todo:
            x = todo.pop()
            if x in seen:
                continue
            seen.add(x)
            if x != 1:
                todo += [abs(succ[x][1]), abs(succ[x][2])]
        return seen
    try:
        for order, declared in ((['a', 'b', 'c'], None),
                                (['c', 'a', 'b'], ['a', 'b', 'c'])):
            base, ext = _build_manager(order, funcs, range(len(funcs)),
                                       declared=declared)
            succ = base['self._succ']
            by_level = base['self._level_to_var']

            def env_for(**kw):
                e = copy.deepcopy({k: v for k, v in base.items()
                                   if k != 'self'})
                e['self'] = base['self']
                e.update(kw)
                return e
            refs = [s * u for u in succ for s in (1, -1)]
            for u in refs:
                nodes = below(succ, u)
                want_levels = {succ[x][0] for x in nodes if x != 1}
                want_names = {by_level[i] for i in want_levels}
                ps = [p for p in sup.params if p != 'self']
                for as_levels in (False, True):
                    n += 1
                    out, _ = interp.run_function(sup.node, env_for(
                        **{ps[0]: u, ps[1]: as_levels}), stubs)
                    want = want_levels if as_levels else want_names
                    if out != ('return', want):
                        problems.setdefault((sup, 'child-skipped'), (
                            f'nodes {succ}: support({u}' + (
                                ', as_levels=True' if as_levels else '')
                            + f') gives {out[0]} {out[1]}; the nodes '
                            f'below the reference are at {want}'))
                pe = [p for p in ess.params if p != 'self']
                for var in names + ['zz']:
                    n += 1
                    out, _ = interp.run_function(ess.node, env_for(
                        **{pe[0]: u, pe[1]: var}), stubs)
                    want = var in want_names
                    if out[0] != 'return' or bool(out[1]) != want or \
                            not isinstance(out[1], bool):
                        problems.setdefault((ess, 'child-skipped'), (
                            f'nodes {succ}: is_essential({u}, {var!r}) '
                            f'gives {out[0]} {out[1]}; the support is '
                            f'{sorted(want_names)}'))
            pd = [p for p in desc.params if p != 'self']
            root_sets = [[]] + [[u] for u in refs] + [
                [refs[2], -refs[-1]], [1, -1], list(ext)]
            for roots in root_sets:
                n += 1
                out, _ = interp.run_function(desc.node, env_for(
                    **{pd[0]: list(roots)}), stubs)
                want = set()
                for u in roots:
                    want |= below(succ, u) | {1}
                if out != ('return', want):
                    problems.setdefault((desc, 'child-skipped'), (
                        f'nodes {succ}: descendants({roots}) gives '
                        f'{out[0]} {out[1]}; the nodes below the roots '
                        f'are {want}'))
    except interp.Unknown as e:
        R.undecided('R-VISIT', 'dd.bdd.BDD (traversals)',
                    'traversal model', str(e))
        return None
    for (f, sub), msg in sorted(problems.items(),
                                key=lambda kv: kv[0][0].qualname):
        R.violation('R-VISIT', sub, f.qualname, 'v,w', msg,
                    unit=f.unit.rel, line=f.lineno)
    if not problems:
        R.holds('R-VISIT', 'dd.bdd.BDD (traversals)',
                f'traversal model ({n} calls on 2 managers): support = '
                'variables of the nodes below the reference, descendants '
                '= nodes below the roots and the terminal, essential = '
                'in the support')
    return n


def translator_model(P, R):
    """`dd._parser._Translator.parse(expression, bdd)` interpreted on the
    shared translator object in the state an earlier call may have left
    it in (clean; still bound to another manager after a call that ended
    with an exception), with a model of the inherited parser that
    records which manager is bound while the grammar runs.  The grammar
    must run with the manager of THIS call; after a successful parse the
    manager is dropped and the LR stacks restarted; the result is the
    parser's; an exception of the parser is not swallowed."""
    f = P.func('dd._parser._Translator.parse')
    prm = [p for p in f.params if p != 'self']
    if len(prm) != 2:
        raise AnalysisError(f'{f.qualname}: expected (expression, bdd)')
    resolver = interp.ModuleEnv(P, 'dd._parser')
    problems = dict()
    n = 0
    for stale in (False, True):
        for fails in (False, True):
            n += 1
            new = interp.Sym('manager of this call')
            old = interp.Sym('manager of an earlier call')
            seen = []
            restarted = []
            lr = interp.Sym('ply parser', {
                'statestack': [1], 'symstack': [2]})

            me = interp.Sym('translator', {
                '_bdd': old if stale else None, 'parser': lr})

            def parse(m, call, args, kw):
                seen.append(me.attrs.get('_bdd'))
                if fails:
                    raise interp.Raised('ValueError')
                return 42

            def restart(m, call, args, kw):
                restarted.append(True)
                return None
            stubs = ClassStubs(P, 'dd._parser._Translator', extra={
                'parse': parse, 'restart': restart,
                'super': lambda m, c, a, k: interp.Sym('super')},
                skip={'parse'})
            env = {'self': me, prm[0]: 'x /\\ y', prm[1]: new}
            what = ('the translator ' + (
                'still bound to the manager of an earlier call that '
                'ended with an exception' if stale else 'in its clean '
                'state') + ', the parser ' + (
                    'raising ValueError' if fails else 'succeeding'))
            try:
                out, m = interp.run_function(f.node, env, stubs, resolver)
            except interp.Unknown as e:
                R.undecided('R-PAIR', f.qualname, 'translator model',
                            str(e))
                return
            if len(seen) != 1:
                problems.setdefault('parser-unbound', (
                    f'{what}: the inherited parser ran {len(seen)} '
                    'time(s)'))
                continue
            if seen[0] is not new:
                problems.setdefault(
                    'parser-stale-state' if seen[0] is old
                    else 'parser-unbound', (
                        f'{what}: the grammar actions ran with '
                        f'`self._bdd` = {seen[0]!r}, not with the manager '
                        'given to this call: nodes are built in (or '
                        'refused for) the wrong manager'))
                continue
            if fails:
                if out[0] != 'raise':
                    problems.setdefault('parser-swallows', (
                        f'{what}: parse() returns {out[1]!r} instead of '
                        'raising'))
                continue
            if out != ('return', 42):
                problems.setdefault('parser-result', (
                    f'{what}: parse() gives {out[0]} {out[1]!r}, not the '
                    'result of the parser'))
            if me.attrs.get('_bdd') is not None or not restarted:
                problems.setdefault('parser-stack', (
                    f'{what}: after the parse the translator keeps '
                    + ('the manager' if me.attrs.get('_bdd') is not None
                       else 'the LR stacks of the formula')
                    + ': the cached translator holds references to it '
                    'until the next formula'))
    keys = {'parser-stack': '_reset_state', 'parser-unbound': '_bdd',
            'parser-stale-state': '_bdd', 'parser-swallows': 'parse',
            'parser-result': 'parse'}
    for sub, msg in sorted(problems.items()):
        R.violation('R-PAIR', sub, f.qualname, keys[sub], msg,
                    unit=f.unit.rel, line=f.lineno)
    if not problems:
        R.holds('R-PAIR', f.qualname,
                f'translator model ({n} runs): the grammar runs with the '
                'manager of this call whatever an earlier call left '
                'behind; manager dropped and LR stacks restarted after a '
                'successful parse; result and exceptions passed on')


def _object_manager(env):
    """The manager of `_build_manager` as an object that keeps its
    attributes itself (for module-level functions that take it as an
    argument)."""
    attrs = {k[5:]: v for k, v in env.items() if k.startswith('self.')}
    attrs.setdefault('roots', set())
    return interp.Sym('bdd', attrs)


def _tt_obj(obj, u, names):
    return _tt_of({'self._level_to_var': obj.attrs['_level_to_var'],
                   'self._succ': obj.attrs['_succ']}, u, names)


def operations_model(P, R, which=None):
    """The operations of dd.bdd.BDD interpreted (with everything they
    call) on small managers and compared, reference by reference, with
    the truth table the property gives for the result:
    `ite` (C01), `quantify` (C03), `compose` / `cofactor` / `rename`
    behind `let` (C04), `image` / `preimage` (C13).  After each call the
    manager must also be reduced and consistent (C02), and the result
    must be the reference of its function (canonicity: equal functions,
    equal references)."""
    import itertools
    which = which or ('ite', 'quantify', 'let', 'image')
    stubs = ClassStubs(P, 'dd.bdd.BDD', extra={
        '_request_reordering': lambda m, c, a, k: None})
    resolver = interp.ModuleEnv(P, 'dd.bdd', stubs)
    problems = dict()
    counts = dict()

    def table_of(names, fn):
        rows = itertools.product((False, True), repeat=len(names))
        return tuple(bool(fn(**dict(zip(names, r)))) for r in rows)

    def canonical_ref(obj, names, want):
        """The reference in the manager that denotes `want`, if any."""
        for u in obj.attrs['_succ']:
            for s in (1, -1):
                if _tt_obj(obj, s * u, names) == want:
                    return s * u
        return None

    def check(key, what, obj, ext, names, out, want):
        counts[key[1]] = counts.get(key[1], 0) + 1
        if out[0] != 'return' or not isinstance(out[1], int) or \
                isinstance(out[1], bool) or abs(out[1]) not in \
                obj.attrs['_succ']:
            problems.setdefault(key + ('raises',), (
                f'{what}: {out[0]} {out[1]!r}'))
            return
        got = _tt_obj(obj, out[1], names)
        if got != want:
            problems.setdefault(key + ('wrong-function',), (
                f'{what}: the result {out[1]} denotes '
                f'{"".join("1" if b else "0" for b in (got or ()))}, '
                f'expected {"".join("1" if b else "0" for b in want)} '
                f'(rows in the order of {names}; nodes '
                f'{obj.attrs["_succ"]})'))
            return
        env = {f'self.{k}': v for k, v in obj.attrs.items()}
        ext2 = dict(ext)
        bad = _manager_complaints(env, ext2)
        if bad:
            problems.setdefault(key + ('tables',), f'{what}: {bad}')
            return
        first = canonical_ref(obj, names, want)
        if first != out[1]:
            problems.setdefault(key + ('not-canonical',), (
                f'{what}: the result {out[1]} and the reference {first} '
                'denote the same function'))

    def fresh(base):
        obj = _object_manager(copy.deepcopy(
            {k: v for k, v in base.items() if k != 'self'}))
        return obj

    def call(f, obj, args, kw=None, method=True):
        env = {'self': obj} if method else {}
        ps = [p for p in f.params if p != 'self']
        a = f.node.args
        defaults = dict(zip(
            [x.arg for x in (a.posonlyargs + a.args)][
                len(a.posonlyargs + a.args) - len(a.defaults):],
            a.defaults))
        for p in ps:
            if p in defaults:
                env[p] = interp.Machine({}, None, resolver).ev(defaults[p])
        env.update(zip(ps, args))
        env.update(kw or {})
        return interp.run_function(f.node, env, stubs, resolver)
    try:
        names = ['a', 'b', 'c']
        fns = [lambda a, b, c: a and b, lambda a, b, c: a != c,
               lambda a, b, c: (b if a else c), lambda a, b, c: not c]
        tts = [table_of(names, f) for f in fns]
        for order in (['a', 'b', 'c'], ['c', 'a', 'b']):
            base, ext = _build_manager(order, tts, range(len(tts)))
            roots = sorted(ext)
            refs = [1, -1] + [s * u for u in roots for s in (1, -1)]
            tt = {u: _tt_of(base, u, names) for u in refs}
            for u in (2, 3):
                if u in base['self._succ']:
                    tt[u] = _tt_of(base, u, names)
            if 'ite' in which:
                f = P.func('dd.bdd.BDD.ite')
                for g in refs:
                    for u in refs[1:7]:
                        for v in refs[2:8]:
                            obj = fresh(base)
                            out, _ = call(f, obj, [g, u, v])
                            want = tuple(
                                (y if x else z) for x, y, z in
                                zip(tt[g], tt[u], tt[v]))
                            check((f, 'ite'), f'order {order}: ite({g}, '
                                  f'{u}, {v})', obj, ext, names, out, want)
            if 'ite' in which:
                # the variable of a name, and conjunctions of literals
                rows = list(itertools.product((False, True), repeat=3))
                f = P.func('dd.bdd.BDD.var')
                for x in names:
                    obj = fresh(base)
                    out, _ = call(f, obj, [x])
                    check((f, 'var'), f'order {order}: var({x!r})', obj,
                          ext, names, out,
                          tuple(r[names.index(x)] for r in rows))
                f = P.func('dd.bdd.BDD.cube')
                for k in range(4):
                    for xs in itertools.combinations(names, k):
                        for bits in itertools.product(
                                (False, True), repeat=k):
                            d = dict(zip(xs, bits))
                            want = tuple(all(
                                r[names.index(x)] == b
                                for x, b in d.items()) for r in rows)
                            obj = fresh(base)
                            out, _ = call(f, obj, [dict(d)])
                            check((f, 'cube'), f'order {order}: cube({d})',
                                  obj, ext, names, out, want)
                    for xs in itertools.permutations(names, k):
                        # names alone: all of them true
                        obj = fresh(base)
                        out, _ = call(f, obj, [list(xs)])
                        want = tuple(all(r[names.index(x)] for x in xs)
                                     for r in rows)
                        check((f, 'cube'), f'order {order}: '
                              f'cube({list(xs)})', obj, ext, names, out,
                              want)
            if 'quantify' in which:
                f = P.func('dd.bdd.BDD.quantify')
                rows = list(itertools.product((False, True), repeat=3))
                for u in refs:
                    for k in range(4):
                        for qv in itertools.combinations(names, k):
                            for forall in (False, True):
                                obj = fresh(base)
                                out, _ = call(f, obj, [u, set(qv), forall])
                                want = []
                                for r in rows:
                                    vals = []
                                    for bits in itertools.product(
                                            (False, True), repeat=len(qv)):
                                        d = dict(zip(names, r))
                                        d.update(zip(qv, bits))
                                        vals.append(tt[u][rows.index(
                                            tuple(d[n] for n in names))])
                                    want.append(all(vals) if forall
                                                else any(vals))
                                check((f, 'quantify'),
                                      f'order {order}: quantify({u}, '
                                      f'{set(qv) or "{}"}, forall={forall})',
                                      obj, ext, names, out, tuple(want))
            if 'let' in which:
                rows = list(itertools.product((False, True), repeat=3))
                f = P.func('dd.bdd.BDD.let')
                subs = []
                for x in names:
                    # (also the constants and the low node numbers: a
                    # replacement whose number equals a level must not
                    # be mistaken for one)
                    for g in refs[2:8] + [1, -1, 2, 3]:
                        if abs(g) in base['self._succ']:
                            subs.append({x: g})
                subs += [{'a': refs[2], 'b': refs[5]},
                         {'c': refs[3], 'a': refs[6]},
                         {'a': refs[4], 'b': refs[2], 'c': refs[7]}]
                renamings = [{x: y} for x in names for y in names] + [
                    {'a': 'b', 'b': 'a'}, {'a': 'c', 'c': 'a'},
                    {'b': 'c', 'c': 'b'}, {'a': 'b', 'b': 'c', 'c': 'a'},
                    {'a': 'c', 'b': 'a', 'c': 'b'}, {'a': 'c', 'b': 'c'},
                    {'b': 'a', 'c': 'a'}, {'a': 'b', 'c': 'b'}]
                for u in refs[2:]:
                    for d in subs:
                        obj = fresh(base)
                        out, _ = call(f, obj, [dict(d), u])
                        want = []
                        for r in rows:
                            val = dict(zip(names, r))
                            new = dict(val)
                            for x, g in d.items():
                                new[x] = tt[g][rows.index(r)]
                            want.append(tt[u][rows.index(
                                tuple(new[n] for n in names))])
                        check((f, 'compose'), f'order {order}: let({d}, '
                              f'{u}) with function values', obj, ext,
                              names, out, tuple(want))
                    # variables for variables (simultaneously: swaps,
                    # cycles, two variables renamed to one)
                    for d in renamings:
                        obj = fresh(base)
                        out, _ = call(f, obj, [dict(d), u])
                        want = tuple(
                            tt[u][rows.index(tuple(
                                dict(zip(names, r))[d.get(x, x)]
                                for x in names))]
                            for r in rows)
                        check((f, 'rename'), f'order {order}: let({d}, '
                              f'{u}) with variables for variables', obj,
                              ext, names, out, want)
                    for k in (1, 2):
                        for xs in itertools.combinations(names, k):
                            for bits in itertools.product(
                                    (False, True), repeat=k):
                                d = dict(zip(xs, bits))
                                obj = fresh(base)
                                out, _ = call(f, obj, [dict(d), u])
                                want = []
                                for r in rows:
                                    val = dict(zip(names, r))
                                    val.update(d)
                                    want.append(tt[u][rows.index(
                                        tuple(val[n] for n in names))])
                                check((f, 'cofactor'),
                                      f'order {order}: let({d}, {u})',
                                      obj, ext, names, out, tuple(want))
        if 'image' in which:
            names = ['x', 'xp', 'y', 'yp']
            rows = list(itertools.product((False, True), repeat=4))
            tfn = [lambda x, xp, y, yp: xp == (x and y),
                   lambda x, xp, y, yp: (xp != x) and (yp == y),
                   lambda x, xp, y, yp: x or yp,
                   lambda x, xp, y, yp: True,
                   lambda x, xp, y, yp: x and not y,
                   lambda x, xp, y, yp: x != y,
                   lambda x, xp, y, yp: xp and not yp,
                   lambda x, xp, y, yp: xp or (x and yp)]
            tts = [table_of(names, f) for f in tfn]
            img = P.func('dd.bdd.image')
            pre = P.func('dd.bdd.preimage')

            def quant(t, qv, forall):
                out = []
                for r in rows:
                    vals = []
                    for bits in itertools.product(
                            (False, True), repeat=len(qv)):
                        d = dict(zip(names, r))
                        d.update(zip(qv, bits))
                        vals.append(t[rows.index(
                            tuple(d[n] for n in names))])
                    out.append(all(vals) if forall else any(vals))
                return tuple(out)

            def ren(t, mp):
                # the function that reads, for each renamed variable,
                # the value of the variable it is renamed to
                out = []
                for r in rows:
                    d = dict(zip(names, r))
                    src = dict(d)
                    for old, new in mp.items():
                        src[old] = d[new]
                    out.append(t[rows.index(
                        tuple(src[n] for n in names))])
                return tuple(out)
            for order in (['x', 'xp', 'y', 'yp'], ['y', 'yp', 'xp', 'x'],
                          ['x', 'y', 'yp', 'xp']):
                base, ext = _build_manager(order, tts, range(len(tts)))
                ref = dict()
                for u in list(base['self._succ']) + [
                        -x for x in base['self._succ']]:
                    ref.setdefault(_tt_of(base, u, names), u)
                T = [ref[t] for t in tts]
                tt = {u: _tt_of(base, u, names) for u in T + [1, -1]}
                cases = [
                    # (trans, source, rename, qvars)
                    (T[0], T[4], {'xp': 'x'}, ['x', 'y']),
                    (T[1], T[5], {'xp': 'x', 'yp': 'y'}, ['x', 'y']),
                    (T[1], T[4], {'xp': 'x', 'yp': 'y'}, ['x', 'y']),
                    (T[3], T[6], {'xp': 'x', 'yp': 'y'}, ['x', 'y']),
                    (T[2], T[7], {'xp': 'x', 'yp': 'y'}, ['x', 'y']),
                    (T[0], 1, {'xp': 'x'}, ['x']),
                    # a renamed variable that is itself quantified
                    (T[0], T[4], {'xp': 'x'}, ['x', 'y', 'xp']),
                    (T[1], T[5], {'xp': 'x', 'yp': 'y'}, ['x', 'y', 'yp']),
                ]
                lv = {v: k for k, v in enumerate(order)}
                for trans, source, mp, qv in cases:
                    # (the variables to quantify by name, and by level
                    # with the renaming still by name: both are accepted)
                    for qarg, forall in ((list(qv), False),
                                         ([lv[q] for q in qv], False),
                                         (list(qv), True)):
                        obj = fresh(base)
                        out, _ = call(img, obj, [
                            trans, source, dict(mp), qarg, obj,
                            forall], method=False)
                        conj = tuple(p and q for p, q in
                                     zip(tt[trans], tt[source]))
                        want = ren(quant(conj, qv, forall), mp)
                        check((img, 'image'),
                              f'order {order}: image(trans={trans}, '
                              f'source={source}, rename={mp}, '
                              f'qvars={qarg}, forall={forall})',
                              obj, ext, names, out, want)
                pcases = [
                    (T[0], T[4], {'x': 'xp'}, ['xp']),
                    (T[1], T[5], {'x': 'xp', 'y': 'yp'}, ['xp', 'yp']),
                    (T[1], T[4], {'x': 'xp', 'y': 'yp'}, ['xp', 'yp']),
                    (T[0], T[4], {'x': 'xp'}, ['x']),
                    (T[1], T[5], {'x': 'xp', 'y': 'yp'}, ['x', 'xp']),
                    (T[2], T[4], {'x': 'xp', 'y': 'yp'}, ['yp', 'xp']),
                ]
                # (preimage: adjacency of each pair is a documented
                # precondition; image accepts any order)
                for trans, target, mp, qv in pcases:
                    if any(abs(lv[a] - lv[b]) != 1 for a, b in mp.items()):
                        continue
                    for forall in (False, True):
                        obj = fresh(base)
                        out, _ = call(pre, obj, [
                            trans, target, dict(mp), list(qv), obj,
                            forall], method=False)
                        rt = ren(tt[target], mp)
                        conj = tuple(p and q for p, q in
                                     zip(tt[trans], rt))
                        want = quant(conj, qv, forall)
                        check((pre, 'preimage'),
                              f'order {order}: preimage(trans={trans}, '
                              f'target={target}, rename={mp}, qvars={qv}, '
                              f'forall={forall})',
                              obj, ext, names, out, want)
    except interp.Unknown as e:
        R.undecided('R-OPTAB', 'dd.bdd.BDD (operations)',
                    'operations model', str(e))
        return None
    rule_of = {'ite': 'R-OPTAB', 'var': 'R-OPTAB', 'cube': 'R-OPTAB',
               'quantify': 'R-ARGS', 'compose': 'R-ROLE',
               'cofactor': 'R-ROLE', 'rename': 'R-ROLE', 'image': 'R-REBUILD',
               'preimage': 'R-REBUILD'}
    for (f, op, sub), msg in sorted(problems.items(),
                                    key=lambda kv: (kv[0][1], kv[0][2])):
        R.violation(rule_of[op], f'{op}-{sub}', f.qualname, op, msg,
                    unit=f.unit.rel, line=f.lineno)
    total = sum(counts.values())
    if not problems:
        R.holds('R-OPTAB', 'dd.bdd.BDD (operations)',
                f'operations model ({total} calls: ' + ', '.join(
                    f'{k} {v}' for k, v in sorted(counts.items()))
                + '): each result denotes the function the property '
                'gives, is the canonical reference of it, and leaves the '
                'manager reduced and consistent')
    return total


def r_operations(P, R):
    """The operations model, restricted to what the property speaks
    about (findings reach the other properties through their scope)."""
    which = {'C01': ('ite',), 'C03': ('quantify',), 'C04': ('let',),
             'C13': ('image',), 'C02': ('ite', 'quantify', 'let', 'image'),
             }.get(R.prop, ('ite',))
    n = operations_model(P, R, which)
    if n is not None:
        R.floor(f'R-OPTAB calls of the operations model ({R.prop})', n, 30)
r_operations.NAME = 'R-OPTAB(operations model)'


def declarations_model(P, R):
    """`BDD(levels)` and `dd._copy.copy_vars(source, target)` interpreted
    for level tables whose listing order is not the level order (as
    after a reordering).  C14 / C11 / C12: the new manager has exactly
    the given variables at the given levels, inverse tables, and the
    terminal below all of them; `copy_vars` declares every variable of
    the source at the same level in the target, or refuses when the
    target has the name at another level or another name at that
    level - it never returns with the two managers disagreeing."""
    init = P.func('dd.bdd.BDD.__init__')
    cv = P.func('dd._copy.copy_vars')
    stubs = ClassStubs(P, 'dd.bdd.BDD', extra={
        '_request_reordering': lambda m, c, a, k: None})
    resolver = interp.ModuleEnv(P, 'dd.bdd', stubs)
    problems = dict()
    n = 0
    tables = [{}, {'x': 0}, {'x': 0, 'y': 1, 'z': 2},
              {'x': 0, 'y': 2, 'z': 1}, {'z': 2, 'x': 0, 'y': 1},
              {'b': 1, 'a': 0}]
    try:
        prm = [p for p in init.params if p != 'self']
        for levels in tables:
            n += 1
            env = {'self': interp.Sym('self'), 'sys.maxsize': 10 ** 9,
                   prm[0]: dict(levels)}
            out, m = interp.run_function(init.node, env, stubs, resolver)
            what = f'BDD({levels})'
            if out[0] == 'raise':
                problems.setdefault((init, 'refuses-valid'), (
                    f'{what}: raises {out[1]}'))
                continue
            v = m.env.get('self.vars')
            l2v = m.env.get('self._level_to_var')
            succ = m.env.get('self._succ')
            if v != levels:
                problems.setdefault((init, 'vars'), (
                    f'{what}: the manager has the levels {v}'))
            elif l2v != {k: x for x, k in levels.items()}:
                problems.setdefault((init, 'unpaired'), (
                    f'{what}: _level_to_var = {l2v} is not the inverse '
                    'of vars'))
            elif succ != {1: (len(levels), None, None)} or \
                    m.env.get('self._pred') != {
                        (len(levels), None, None): 1}:
                problems.setdefault((init, 'terminal'), (
                    f'{what}: the terminal is {succ}, expected at level '
                    f'{len(levels)} (below all variables)'))
        # copy_vars: source object x target object
        ps = list(cv.params)
        sources = [{'x': 0, 'y': 1}, {'x': 0, 'y': 2, 'z': 1},
                   {'z': 2, 'x': 0, 'y': 1}]
        targets = [{}, {'x': 0}, {'x': 0, 'y': 1, 'z': 2}, {'y': 0},
                   {'x': 1, 'q': 0}, {'x': 0, 'y': 2, 'z': 1}]
        for sv in sources:
            for tv in targets:
                n += 1
                src = _object_manager(_manager_state(sv, {}))
                tgt = _object_manager(_manager_state(tv, {}))
                env = {ps[0]: src, ps[1]: tgt}
                out, m = interp.run_function(cv.node, env, stubs, resolver)
                what = f'copy_vars from {sv} into a manager with {tv}'
                compatible = all(
                    tv.get(x, k) == k and all(
                        y == x or kk != k for y, kk in tv.items())
                    for x, k in sv.items())
                got = tgt.attrs['vars']
                agree = all(got.get(x) == k for x, k in sv.items())
                if out[0] == 'raise':
                    if compatible and sorted({**tv, **sv}.values()) == \
                            list(range(len({**tv, **sv}))):
                        problems.setdefault((cv, 'refuses-valid'), (
                            f'{what}: raises {out[1]}'))
                    continue
                if not agree:
                    problems.setdefault((cv, 'accepts-invalid'), (
                        f'{what}: returns with the target at {got}: the '
                        'two managers disagree on the level of a '
                        'variable and no exception was raised'))
    except interp.Unknown as e:
        R.undecided('R-INVMAP', 'dd.bdd.BDD.__init__ / dd._copy.copy_vars',
                    'declarations model', str(e))
        return None
    for (f, sub), msg in sorted(problems.items(),
                                key=lambda kv: (kv[0][0].qualname,
                                                kv[0][1])):
        R.violation('R-INVMAP' if f is init else 'R-ACCEPT', sub,
                    f.qualname, 'levels', msg, unit=f.unit.rel,
                    line=f.lineno)
    if not problems:
        R.holds('R-INVMAP', 'dd.bdd.BDD.__init__ / dd._copy.copy_vars',
                f'declarations model ({n} runs): a manager made from a '
                'level table has those levels whatever the listing order; '
                'copy_vars leaves the two managers agreeing or refuses')
    return n


def mdd_operations_model(P, R):
    """`MDD.ite` and `MDD.apply` interpreted on a small multi-valued
    diagram (x with three values above y with two, shared nodes,
    complemented references) for every triple / pair of references and
    every connective spelling, against the values over all six
    assignments (C15: the operations are pointwise and the result is the
    canonical reference of its function)."""
    import itertools
    ite = P.func('dd.mdd.MDD.ite')
    app = P.func('dd.mdd.MDD.apply')
    stubs = ClassStubs(P, 'dd.mdd.MDD')
    resolver = interp.ModuleEnv(P, 'dd.mdd', stubs)
    dvars = {'x': {'level': 0, 'len': 3}, 'y': {'level': 1, 'len': 2}}
    succ = {1: (2, None), 2: (1, 1, -1), 3: (0, 2, 1, -2),
            4: (0, 1, -1, -1), 5: (0, 2, -2, 1)}
    ref = {u: 0 for u in succ}
    for u, t in succ.items():
        for x in t[1:]:
            if x is not None:
                ref[abs(x)] += 1
    for u in (3, 4, 5):
        ref[u] += 1
    points = list(itertools.product(range(3), range(2)))

    def value(table, u, pt):
        neg = False
        while abs(u) != 1:
            if u < 0:
                neg = not neg
            t = table[abs(u)]
            u = t[1 + pt[t[0]]]
        return (u > 0) != neg

    def tt(table, u):
        return tuple(value(table, u, p) for p in points)

    def manager():
        return interp.Sym('mdd', {
            'vars': copy.deepcopy(dvars), '_level_to_var': None,
            '_succ': dict(succ),
            '_pred': {t: u for u, t in succ.items()},
            '_ref': dict(ref), '_max': 5, '_free': set(),
            '_ite_table': dict(), 'max_nodes': 1000})
    refs = [s * u for u in succ for s in (1, -1)]
    base = {u: tt(succ, u) for u in refs}
    problems = dict()
    n = 0

    def check(f, what, obj, out, want):
        if out[0] != 'return' or not isinstance(out[1], int) or abs(
                out[1]) not in obj.attrs['_succ']:
            problems.setdefault((f, 'raises'), f'{what}: {out[0]} {out[1]}')
            return
        table = obj.attrs['_succ']
        try:
            got = tt(table, out[1])
        except (KeyError, IndexError, TypeError):
            got = None
        if got != want:
            problems.setdefault((f, 'wrong-function'), (
                f'{what}: the result {out[1]} has the values {got} over '
                f'(x, y) in {points}, expected {want} (nodes {table})'))
            return
        for u, t in table.items():
            if u != 1 and (t[1] < 0 or len(set(t[1:])) == 1):
                problems.setdefault((f, 'tables'), (
                    f'{what}: node {u} = {t} is not in normal form'))
                return
        first = None
        for u in table:
            for s in (1, -1):
                if first is None and tt(table, s * u) == want:
                    first = s * u
        if first != out[1]:
            problems.setdefault((f, 'not-canonical'), (
                f'{what}: the result {out[1]} and the reference {first} '
                'denote the same function'))
    try:
        ps = [p for p in ite.params if p != 'self']
        for g in refs:
            for u in refs[::2] + [-2, -4]:
                for v in refs[::2] + [-3]:
                    n += 1
                    obj = manager()
                    out, _ = interp.run_function(
                        ite.node, {'self': obj, ps[0]: g, ps[1]: u,
                                   ps[2]: v}, stubs, resolver)
                    want = tuple((b if a else c) for a, b, c in zip(
                        base[g], base[u], base[v]))
                    check(ite, f'MDD.ite({g}, {u}, {v})', obj, out, want)
        pa_ = [p for p in app.params if p != 'self']
        ops = {'and': lambda a, b: a and b,
               'or': lambda a, b: a or b,
               'xor': lambda a, b: a != b,
               '=>': lambda a, b: (not a) or b,
               '<=>': lambda a, b: a == b, '-': lambda a, b: a and not b}
        for op, fn in ops.items():
            for u in refs:
                for v in refs[1:8]:
                    n += 1
                    obj = manager()
                    out, _ = interp.run_function(
                        app.node, {'self': obj, pa_[0]: op, pa_[1]: u,
                                   pa_[2]: v, pa_[3]: None}, stubs,
                        resolver)
                    want = tuple(bool(fn(a, b)) for a, b in zip(
                        base[u], base[v]))
                    check(app, f'MDD.apply({op!r}, {u}, {v})', obj, out,
                          want)
    except interp.Unknown as e:
        R.undecided('R-OPTAB', 'dd.mdd.MDD (operations)',
                    'MDD operations model', str(e))
        return None
    for (f, sub), msg in sorted(problems.items(),
                                key=lambda kv: (kv[0][0].qualname,
                                                kv[0][1])):
        R.violation('R-OPTAB', f'mdd-{sub}', f.qualname, f.name, msg,
                    unit=f.unit.rel, line=f.lineno)
    if not problems:
        R.holds('R-OPTAB', 'dd.mdd.MDD (operations)',
                f'MDD operations model ({n} calls): ite and apply are '
                'pointwise over the six assignments and give the '
                'canonical reference')
    return n


def autoref_apply_model(P, R):
    """`dd.autoref.BDD.apply(op, u, v, w)` interpreted on handles with
    several node numberings, the integer manager replaced by a recorder:
    for every operator spelling the integer manager must be asked for
    exactly `apply(op, u.node, v.node, w.node)` - the operands in their
    positions whatever their node numbers - and its answer must come
    back wrapped by this manager."""
    f = P.func('dd.autoref.BDD.apply')
    from . import optab
    ctx = optab.Ctx(P)
    vocab = ctx.vocabulary()
    real = method_stubs(P, 'dd.autoref.BDD', ['__contains__'])[
        '__contains__']
    mgr = interp.Sym('integer manager')
    problems = dict()
    n = 0
    from .. import minieval as me

    def same_meaning(got, want, nodes):
        """Does the call `got` = (op, x, y, z) of the integer manager
        compute the function of `want` = (op, u, v, w)?  Operands are
        told apart by their node numbers (same number = same function,
        opposite sign = its complement)."""
        syms = dict()
        for x, sym in zip(nodes, (optab.U, optab.V, optab.W)):
            syms.setdefault(abs(x), (sym, x > 0))

        def val(x):
            if not isinstance(x, int) or abs(x) not in syms:
                return None
            sym, pos = syms[abs(x)]
            return sym if (x > 0) == pos else ('not', sym)

        def meaning(call):
            g = optab.ALIAS_GROUP.get(call[0])
            ops = [val(x) for x in call[1:]]
            if g is None or any(o is None for o in ops):
                return None
            if g in optab.QUANT:
                return ('Q', g, tuple(me.show(o) for o in ops))
            if len(ops) != optab.ARITY.get(g, 2):
                return None
            while len(ops) < 3:
                ops.append(('const', None))
            try:
                return me.table(optab._subst(
                    optab.CONNECTIVE[g],
                    {'u': ops[0], 'v': ops[1], 'w': ops[2]}))
            except me.Undecided:
                return None
        a, b = meaning(got), meaning(want)
        return a is not None and a == b
    resolver = interp.ModuleEnv(P, 'dd.autoref')
    prm = [p for p in f.params if p != 'self']
    try:
        for op in sorted(vocab['all']):
            arity = 1 if op in vocab['unary'] else (
                3 if op in vocab['ternary'] else 2)
            for nodes in ((2, 3, 5), (3, 2, 5), (5, 3, 2), (4, -4, 4),
                          (-7, 6, -6)):
                n += 1
                wrapper = interp.Sym('autoref manager', {'_bdd': mgr})
                calls = []

                def inner(m, call, args, kw):
                    calls.append(tuple(args))
                    return 99

                def contains(m, call, args, kw):
                    if getattr(m, 'receiver', None) is mgr:
                        return True
                    return real(m, call, args, kw)

                def wrap(m, call, args, kw):
                    return interp.Sym('Function', {
                        'node': args[0], 'bdd': wrapper, 'manager': mgr})
                stubs = ClassStubs(P, 'dd.autoref.BDD', extra={
                    'apply': inner, '__contains__': contains,
                    '_wrap': wrap, 'Function': lambda m, c, a, k: wrap(
                        m, c, a[:1], k)}, skip={'apply'})
                hs = [interp.Sym('Function', {
                    'node': x, 'bdd': wrapper, 'manager': mgr})
                    for x in nodes[:arity]]
                env = {'self': wrapper, prm[0]: op}
                for p, h in zip(prm[1:], hs + [None] * 3):
                    env[p] = h
                out, _ = interp.run_function(f.node, env, stubs, resolver)
                want = (op,) + tuple(nodes[:arity])
                what = (f'apply({op!r}, ' + ', '.join(
                    f'<node {x}>' for x in nodes[:arity]) + ')')
                if out[0] == 'raise':
                    problems.setdefault('raises', f'{what}: {out[1]}')
                elif len(calls) != 1 or not same_meaning(
                        calls[0], want, nodes):
                    problems.setdefault('operands', (
                        f'{what}: the integer manager is asked for '
                        f'{calls}; that is not the function of '
                        f'apply{want} (operands in other positions for an '
                        'operator that is not symmetric, or another '
                        'operator)'))
                elif not (isinstance(out[1], interp.Sym) and out[1].attrs
                          and out[1].attrs.get('node') == 99
                          and out[1].attrs.get('bdd') is wrapper):
                    problems.setdefault('result', (
                        f'{what}: returns {out[1]!r}, not the answer of '
                        'the integer manager wrapped by this manager'))
    except interp.Unknown as e:
        R.undecided('R-OPTAB', f.qualname, 'wrapper model', str(e))
        return None
    for sub, msg in sorted(problems.items()):
        R.violation('R-OPTAB', f'wrapper-{sub}', f.qualname, 'apply', msg,
                    unit=f.unit.rel, line=f.lineno)
    if not problems:
        R.holds('R-OPTAB', f.qualname,
                f'wrapper model ({n} calls): every operator reaches the '
                'integer manager with the operands in their positions, '
                'whatever their node numbers')
    return n


def r_autoref_apply(P, R):
    n = autoref_apply_model(P, R)
    if n is not None:
        R.floor('R-OPTAB calls of the wrapper model', n, 100)
r_autoref_apply.NAME = 'R-OPTAB(autoref wrapper model)'


def autoref_image_model(P, R):
    """`dd.autoref.image` / `preimage` interpreted with everything they
    call - the handle class, its operators, the integer manager - on
    managers over four variables, and compared with C13 on truth tables:
    the handle returned belongs to the manager of the operands and denotes
    rename(exists qvars. trans /\\ source) (image) or exists qvars. trans
    /\\ rename(target) (preimage), also for an empty `qvars` and for an
    empty renaming; operands of two managers are refused."""
    import itertools
    stubs = ClassStubs(P, 'dd.bdd.BDD', extra={
        '_request_reordering': lambda m, c, a, k: None})
    resolver = interp.ModuleEnv(P, 'dd.autoref', stubs)
    img = P.func('dd.autoref.image')
    pre = P.func('dd.autoref.preimage')
    names = ['x', 'xp', 'y', 'yp']
    rows = list(itertools.product((False, True), repeat=4))
    tfn = [lambda x, xp, y, yp: xp == (x and y),
           lambda x, xp, y, yp: (xp != x) and (yp == y),
           lambda x, xp, y, yp: x and not y,
           lambda x, xp, y, yp: x != y,
           lambda x, xp, y, yp: xp and not yp]
    tts = [tuple(bool(f(*r)) for r in rows) for f in tfn]

    def quant(t, qv):
        out = []
        for r in rows:
            vals = []
            for bits in itertools.product((False, True), repeat=len(qv)):
                d = dict(zip(names, r))
                d.update(zip(qv, bits))
                vals.append(t[rows.index(tuple(d[n] for n in names))])
            out.append(any(vals))
        return tuple(out)

    def ren(t, mp):
        out = []
        for r in rows:
            d = dict(zip(names, r))
            src = dict(d)
            for old, new in mp.items():
                src[old] = d[new]
            out.append(t[rows.index(tuple(src[n] for n in names))])
        return tuple(out)
    problems = dict()
    n = 0
    try:
        fcls = resolver('Function')
        bcls = resolver('BDD')
        for order in (['x', 'xp', 'y', 'yp'], ['y', 'yp', 'xp', 'x']):
            base, ext = _build_manager(order, tts, range(len(tts)))
            ref = dict()
            for u in list(base['self._succ']) + [
                    -x for x in base['self._succ']]:
                ref.setdefault(_tt_of(base, u, names), u)
            T = [ref[t] for t in tts]
            tt = {u: _tt_of(base, u, names)
                  for u in T + [-t for t in T] + [1, -1]}
            lv = {v: k for k, v in enumerate(order)}
            icases = [
                (T[0], T[2], {'xp': 'x'}, ['x', 'y']),
                (T[1], T[3], {'xp': 'x', 'yp': 'y'}, ['x', 'y']),
                # nothing quantified: the renaming still applies
                (T[4], 1, {'xp': 'x', 'yp': 'y'}, []),
                (T[4], T[4], {'xp': 'x'}, []),
                (T[4], -T[4], {'yp': 'y'}, set()),
                # nothing renamed
                (T[0], T[2], {}, ['x', 'y']),
                (T[0], 1, {'xp': 'x'}, ['x'])]
            pcases = [
                (T[0], T[2], {'x': 'xp'}, ['xp']),
                (T[1], T[3], {'x': 'xp', 'y': 'yp'}, ['xp', 'yp']),
                (T[1], T[2], {'x': 'xp', 'y': 'yp'}, []),
                (T[0], T[2], {}, ['x'])]
            for f, cases in ((img, icases), (pre, pcases)):
                prm = list(f.params)
                for trans, other, mp, qv in cases:
                    if f is pre and any(abs(lv[a] - lv[b]) != 1
                                        for a, b in mp.items()):
                        continue
                    for foreign in (False, True):
                        n += 1
                        obj = _object_manager(copy.deepcopy(
                            {k: v for k, v in base.items() if k != 'self'}))
                        wrapper = interp.Sym('autoref manager', {
                            '_bdd': obj, 'vars': obj.attrs['vars']})
                        wrapper.cls = bcls
                        second = interp.Sym('another autoref manager', {
                            '_bdd': obj, 'vars': obj.attrs['vars']})
                        second.cls = bcls

                        def handle(u, w):
                            h = interp.Sym('Function', {
                                'node': u, 'bdd': w, 'manager': obj})
                            h.cls = fcls
                            return h
                        env = {prm[0]: handle(trans, wrapper),
                               prm[1]: handle(
                                   other, second if foreign else wrapper),
                               prm[2]: dict(mp),
                               prm[3]: set(qv) if isinstance(qv, set)
                               else list(qv)}
                        if len(prm) > 4:
                            env[prm[4]] = False
                        out, _ = interp.run_function(
                            f.node, env, stubs, resolver)
                        what = (f'order {order}: {f.name}(<node {trans}>, '
                                f'<node {other}>, {mp}, {qv})')
                        if foreign:
                            if out[0] != 'raise':
                                problems.setdefault((f, 'two-managers'), (
                                    f'{what} with operands of two '
                                    'managers is not refused'))
                            continue
                        if f is img:
                            conj = tuple(p and q for p, q in
                                         zip(tt[trans], tt[other]))
                            want = ren(quant(conj, list(qv)), mp)
                        else:
                            rt = ren(tt[other], mp)
                            conj = tuple(p and q for p, q in
                                         zip(tt[trans], rt))
                            want = quant(conj, list(qv))
                        r = out[1]
                        if out[0] != 'return' or not isinstance(
                                r, interp.Sym) or not r.attrs or \
                                not isinstance(r.attrs.get('node'), int):
                            problems.setdefault((f, 'raises'), (
                                f'{what}: {out[0]} {out[1]!r}'))
                            continue
                        got = _tt_obj(obj, r.attrs['node'], names)
                        if got != want:
                            problems.setdefault((f, 'wrong-function'), (
                                f'{what}: the result (node '
                                f'{r.attrs["node"]}) denotes '
                                + ''.join('1' if b else '0'
                                          for b in (got or ()))
                                + ', expected '
                                + ''.join('1' if b else '0' for b in want)
                                + f' (rows in the order of {names})'))
                        elif r.attrs.get('bdd') is not wrapper:
                            problems.setdefault((f, 'other-manager'), (
                                f'{what}: the handle returned does not '
                                'belong to the manager of the operands'))
    except (interp.Unknown, KeyError) as e:
        R.undecided('R-ARGS', 'dd.autoref.image / preimage',
                    'wrapper model', str(e))
        return None
    for (f, sub), msg in sorted(problems.items(),
                                key=lambda kv: (kv[0][0].qualname, kv[0][1])):
        R.violation('R-ARGS', f'autoref-{sub}', f.qualname, f.name, msg,
                    unit=f.unit.rel, line=f.lineno)
    if not problems:
        R.holds('R-ARGS', 'dd.autoref.image / preimage',
                f'wrapper model ({n} calls, handles and integer manager '
                'interpreted together): the result denotes the image / '
                'preimage on truth tables, also with nothing quantified '
                'or nothing renamed; operands of two managers are refused')
    return n


def r_autoref_image(P, R):
    n = autoref_image_model(P, R)
    if n is not None:
        R.floor('R-ARGS calls of the autoref image model', n, 20)
r_autoref_image.NAME = 'R-ARGS(autoref image model)'


def bdd_to_mdd_model(P, R):
    """`dd.mdd.bdd_to_mdd(bdd, dvars)` interpreted with everything it
    calls (collection, reordering by real swaps, the MDD class) on
    managers over three bits grouped into a one-bit and a two-bit integer
    variable, for both integer orders, three initial bit orders and five
    sets of referenced functions - among them a node inside a zone that
    is referenced from inside and from above the zone.  C15: every
    referenced node is mapped; the MDD reference of each mapped node has,
    on each integer assignment, the value of the BDD node on the bits of
    that assignment (first listed bit least significant); the referenced
    BDD functions are what they were."""
    import itertools
    f = P.func('dd.mdd.bdd_to_mdd')
    stubs = ClassStubs(P, 'dd.bdd.BDD', extra={
        '_request_reordering': lambda m, c, a, k: None,
        'getEffectiveLevel': lambda m, c, a, k: 100})
    resolver = interp.ModuleEnv(P, 'dd.mdd', stubs)
    names = ['x0', 'x1', 'y0']
    rows = list(itertools.product((False, True), repeat=3))
    tfn = [lambda x0, x1, y0: (x1 if y0 else (x0 and x1)),
           lambda x0, x1, y0: x0 != x1,
           lambda x0, x1, y0: y0 and not x1,
           lambda x0, x1, y0: x1]
    tts = [tuple(bool(fn(*r)) for r in rows) for fn in tfn]
    points = list(itertools.product(range(4), range(2)))   # (x, y)
    prm = list(f.params)
    problems = dict()
    n = 0

    def bits_of(x, y):
        return (bool(x & 1), bool(x & 2), bool(y & 1))
    try:
        for xl, yl in ((1, 0), (0, 1)):
            dvars = {'y': {'level': yl, 'len': 2, 'bitnames': ['y0']},
                     'x': {'level': xl, 'len': 4,
                           'bitnames': ['x0', 'x1']}}
            by_level = {xl: 'x', yl: 'y'}
            for order in (['y0', 'x0', 'x1'], ['x0', 'y0', 'x1'],
                          ['x1', 'x0', 'y0']):
                for keep in ([0], [0, 1], [2, 3], [0, 1, 2, 3], [1]):
                    n += 1
                    base, ext = _build_manager(
                        order, [tts[k] for k in keep], range(len(keep)))
                    obj = _object_manager(copy.deepcopy(
                        {k: v for k, v in base.items() if k != 'self'}))
                    before = {r: _tt_of(base, r, names) for r in ext}
                    out, _ = interp.run_function(
                        f.node, {prm[0]: obj,
                                 prm[1]: copy.deepcopy(dvars)},
                        stubs, resolver)
                    what = (f'integer levels x: {xl}, y: {yl}; bits '
                            f'{order}; nodes {base["self._succ"]}, '
                            f'referenced {sorted(ext)}')
                    ok = (out[0] == 'return' and isinstance(
                        out[1], tuple) and len(out[1]) == 2
                        and isinstance(out[1][0], interp.Sym)
                        and isinstance(out[1][0].attrs, dict)
                        and isinstance(out[1][1], dict))
                    if not ok:
                        problems.setdefault('raises', (
                            f'{what}: {out[0]} {out[1]!r}'))
                        continue
                    table = out[1][0].attrs.get('_succ')
                    umap = out[1][1]

                    def value(u, pt):
                        neg = False
                        while abs(u) != 1:
                            if u < 0:
                                neg = not neg
                            t = table[abs(u)]
                            u = t[1 + pt[by_level[t[0]]]]
                        return (u > 0) != neg
                    lost = [r for r in sorted(ext) if r not in umap]
                    if lost:
                        problems.setdefault('unmapped', (
                            f'{what}: the referenced node(s) {lost} have '
                            f'no MDD reference (map {umap})'))
                        continue
                    for r in sorted(ext):
                        if _tt_obj(obj, r, names) != before[r]:
                            problems.setdefault('bdd-changed', (
                                f'{what}: the function of the referenced '
                                f'BDD node {r} changed'))
                    for u, r in umap.items():
                        if u == 1 or abs(u) not in obj.attrs['_succ']:
                            continue
                        want_t = _tt_obj(obj, u, names)
                        try:
                            got = tuple(value(r, {'x': x, 'y': y})
                                        for x, y in points)
                        except (KeyError, IndexError, TypeError):
                            got = None
                        want = tuple(
                            want_t[rows.index(bits_of(x, y))]
                            for x, y in points)
                        if got != want:
                            problems.setdefault('wrong-value', (
                                f'{what}: BDD node {u} is mapped to the '
                                f'MDD reference {r} with the values {got} '
                                f'over (x, y) in {points}; the BDD node '
                                f'has {want} on the bits of these '
                                f'(MDD nodes {table})'))
                            break
    except (interp.Unknown, KeyError) as e:
        R.undecided('R-DOMAIN', f.qualname, 'conversion model', str(e))
        return None
    for sub, msg in sorted(problems.items()):
        R.violation('R-DOMAIN', f'conversion-{sub}', f.qualname,
                    'bdd_to_mdd', msg, unit=f.unit.rel, line=f.lineno)
    if not problems:
        R.holds('R-DOMAIN', f.qualname,
                f'conversion model ({n} calls, with collection, '
                'reordering and the MDD class interpreted): every '
                'referenced node is mapped, each mapped node has the '
                'values of its BDD node on every integer assignment, the '
                'referenced BDD functions are unchanged')
    return n


def r_bdd_to_mdd(P, R):
    n = bdd_to_mdd_model(P, R)
    if n is not None:
        R.floor('R-DOMAIN calls of the conversion model', n, 30)
r_bdd_to_mdd.NAME = 'R-DOMAIN(bdd_to_mdd model)'


def declare_model(P, R):
    """`declare(*names)` of `dd.bdd.BDD` and of `dd.autoref.BDD`
    interpreted (with `add_var` and what it calls) on managers with zero
    to two variables for argument lists with new names, declared names
    and a name given twice.  C14: no valid list is refused; declared
    names keep their levels; each new name gets the next bottom level in
    the order of the call; the tables stay a bijection with the terminal
    below all variables; the function of an existing reference does not
    change."""
    stubs = ClassStubs(P, 'dd.bdd.BDD', extra={
        '_request_reordering': lambda m, c, a, k: None})
    arglists = [(), ('a',), ('c',), ('c', 'd'), ('c', 'c'),
                ('a', 'c', 'a'), ('c', 'a', 'd', 'c'), ('b', 'a')]
    problems = dict()
    n = 0
    try:
        for qual, modname in (('dd.bdd.BDD.declare', 'dd.bdd'),
                              ('dd.autoref.BDD.declare', 'dd.autoref')):
            f = P.func(qual)
            resolver = interp.ModuleEnv(P, modname, stubs)
            va = f.node.args.vararg
            if va is None:
                raise interp.Unknown(f'{qual} without *names')
            for order, tables in (([], []), (['a'], []),
                                  (['a', 'b'], []),
                                  (['b', 'a'],
                                   [(False, False, False, True)])):
                for names in arglists:
                    n += 1
                    base, ext = _build_manager(
                        order, tables, range(len(tables)))
                    obj = _object_manager(copy.deepcopy(
                        {k: v for k, v in base.items() if k != 'self'}))
                    before = {r: _tt_obj(obj, r, sorted(order))
                              for r in ext}
                    if modname == 'dd.autoref':
                        me = interp.Sym('autoref manager', {
                            '_bdd': obj, 'vars': obj.attrs['vars']})
                        me.cls = resolver('BDD')
                    else:
                        me = obj
                    out, _ = interp.run_function(
                        f.node, {'self': me, va.arg: tuple(names)},
                        stubs, resolver)
                    want = {v: k for k, v in enumerate(order)}
                    for x in names:
                        want.setdefault(x, len(want))
                    what = (f'variables {dict((v, k) for k, v in enumerate(order))}: '
                            f'declare{names}')
                    if out[0] == 'raise':
                        problems.setdefault((f, 'refuses-valid'), (
                            f'{what}: raises {out[1]}'))
                        continue
                    got = obj.attrs['vars']
                    if got != want:
                        problems.setdefault((f, 'levels'), (
                            f'{what}: the manager has {got}, expected '
                            f'{want} (declared names keep their level, '
                            'each new name takes the next bottom level)'))
                        continue
                    env = {f'self.{k}': v for k, v in obj.attrs.items()}
                    bad = _manager_complaints(env, dict(ext))
                    if bad:
                        problems.setdefault((f, 'tables'), f'{what}: {bad}')
                        continue
                    for r in ext:
                        if _tt_obj(obj, r, sorted(order)) != before[r]:
                            problems.setdefault((f, 'function'), (
                                f'{what}: the function of the reference '
                                f'{r} changed'))
    except (interp.Unknown, KeyError) as e:
        R.undecided('R-RAW', 'declare', 'declaration model', str(e))
        return None
    for (f, sub), msg in sorted(problems.items(),
                                key=lambda kv: (kv[0][0].qualname, kv[0][1])):
        R.violation('R-RAW', f'declare-{sub}', f.qualname, 'declare', msg,
                    unit=f.unit.rel, line=f.lineno)
    if not problems:
        R.holds('R-RAW', 'declare (dd.bdd, dd.autoref)',
                f'declaration model ({n} calls): every list of names is '
                'accepted, also with a name twice or declared before; '
                'levels, tables and existing functions as C14 gives them')
    return n


def r_declare(P, R):
    n = declare_model(P, R)
    if n is not None:
        R.floor('R-RAW calls of the declaration model', n, 40)
r_declare.NAME = 'R-RAW(declare model)'


class _Handle:
    """An operand that is a handle on the `dd.autoref` side and a node
    number on the `dd.bdd` side of the sibling model."""

    def __init__(self, u):
        self.u = u

    def __repr__(self):
        return f'<node {self.u}>'


def _sibling_cases(r, order):
    H = _Handle
    return [
        ('var', ['a']), ('var', ['c']),
        ('ite', [H(r[2]), H(r[5]), H(r[7])]),
        ('ite', [H(r[3]), H(r[4]), H(-1)]),
        ('let', [{'a': True, 'c': False}, H(r[4])]),
        ('let', [{'a': H(r[3]), 'b': H(r[6])}, H(r[4])]),
        ('let', [{'c': H(r[2])}, H(r[7])]),
        ('let', [{'a': 'b', 'b': 'a'}, H(r[6])]),
        ('let', [{'c': 'a'}, H(r[4])]),
        ('let', [{}, H(r[6])]),
        ('quantify', [H(r[4]), {'a'}]),
        ('quantify', [H(r[6]), ['a', 'c'], True]),
        ('forall', [{'b'}, H(r[6])]),
        ('forall', [['a'], H(r[5])]),
        ('exist', [['b', 'c'], H(r[3])]),
        ('exist', [{'a'}, H(r[6])]),
        ('apply', ['and', H(r[2]), H(r[5])]),
        ('apply', ['=>', H(r[4]), H(r[7])]),
        ('apply', ['ite', H(r[2]), H(r[5]), H(r[6])]),
        ('apply', ['not', H(r[5])]),
        ('cube', [{'a': True, 'c': False}]),
        ('support', [H(r[4])]), ('support', [H(r[6]), True]),
        ('count', [H(r[4]), 3]), ('count', [H(r[5])]),
        ('count', [H(r[3]), 4]),
        ('pick_iter', [H(r[4])]),
        ('pick_iter', [H(r[2]), {'a', 'b', 'c'}]),
        ('succ', [H(r[4])]), ('succ', [H(r[7])]), ('succ', [H(r[3])]),
        ('to_expr', [H(r[5])]), ('to_expr', [H(r[2])]),
        ('_add_int', [r[4]]), ('_add_int', [-abs(r[6])]),
        ('level_of_var', ['b']), ('var_at_level', [2]),
        ('var_levels', []),
        ('add_var', ['d']), ('add_var', ['b', order.index('b')]),
        ('incref', [H(r[4])]), ('decref', [H(r[4])]),
        ('collect_garbage', []),
        ('__len__', []), ('__contains__', [H(r[4])]),
        ('true', []), ('false', []),
        ('find_or_add', ['a', H(-1), H(r[4])]),
        ('find_or_add', ['b', H(r[7]), H(1)]),
    ]


def autoref_sibling_model(P, R):
    """Every method that `dd.autoref.BDD` shares with `dd.bdd.BDD`,
    interpreted on both sides - handles, the handle class and the
    wrapping manager on one, node numbers on the other - from the same
    small manager, two variable orders.  The two must agree: the same
    outcome (value or exception); where one gives a handle, the other
    gives a reference to the same function, and the handle belongs to
    the wrapping manager and owns a count; plain values equal; the
    functions of the live references unchanged; for the methods that
    only change the manager, the same variables, nodes and counts."""
    import itertools
    stubs = ClassStubs(P, 'dd.bdd.BDD', extra={
        '_request_reordering': lambda m, c, a, k: None})
    res_a = interp.ModuleEnv(P, 'dd.autoref', stubs)
    res_b = res_a.module('dd.bdd')
    names = ['a', 'b', 'c']
    rows = list(itertools.product((False, True), repeat=3))
    tts = [tuple(bool(a and b) for a, b, c in rows),
           tuple(bool(a != c) for a, b, c in rows),
           tuple(bool(b if a else c) for a, b, c in rows),
           tuple(bool(not c) for a, b, c in rows)]
    problems = dict()
    undecided = dict()
    n = 0
    state_only = {'incref', 'decref', 'collect_garbage', 'add_var'}
    try:
        fcls = res_a('Function')
        bcls = res_a('BDD')
    except KeyError as e:
        R.undecided('R-ARGS', 'dd.autoref.BDD', 'sibling model', str(e))
        return None
    for order in (['a', 'b', 'c'], ['c', 'a', 'b']):
        base, ext = _build_manager(order, tts, range(len(tts)))
        roots = sorted(ext)
        refs = [1, -1] + [s * u for u in roots for s in (1, -1)]
        for name, args in _sibling_cases(refs, order):
            fa = P.func(f'dd.autoref.BDD.{name}', required=False)
            fb = P.func(f'dd.bdd.BDD.{name}', required=False)
            if fa is None or fb is None:
                continue
            obj_a = _object_manager(copy.deepcopy(
                {k: v for k, v in base.items() if k != 'self'}))
            obj_b = _object_manager(copy.deepcopy(
                {k: v for k, v in base.items() if k != 'self'}))
            wrapper = interp.Sym('autoref manager', {
                '_bdd': obj_a, 'vars': obj_a.attrs['vars']})
            wrapper.cls = bcls
            given = []

            def conv(x, side):
                if isinstance(x, _Handle):
                    if side == 'B':
                        return x.u
                    h = interp.Sym('Function', {
                        'node': x.u, 'bdd': wrapper, 'manager': obj_a})
                    h.cls = fcls
                    given.append(h)
                    return h
                if isinstance(x, dict):
                    return {k: conv(v, side) for k, v in x.items()}
                if isinstance(x, list):
                    return [conv(v, side) for v in x]
                return copy.deepcopy(x)

            def run(f, args, side, me):
                a = f.node.args
                ps = [x.arg for x in a.posonlyargs + a.args][1:]
                res = res_a if side == 'A' else res_b
                env = {'self': me}
                m0 = interp.Machine({}, None, res)
                for p_, d in zip(ps[len(ps) - len(a.defaults):],
                                 a.defaults):
                    env[p_] = m0.ev(d)
                for p_, v in zip(ps, args):
                    env[p_] = conv(v, side)
                if a.kwarg:
                    env[a.kwarg.arg] = {}
                if a.vararg:
                    env[a.vararg.arg] = ()
                gen = any(isinstance(x, (ast.Yield, ast.YieldFrom))
                          for x in au.walk_no_defs(f.node))
                if gen:
                    out, _ = interp.run_generator(f.node, env, stubs, res)
                    return ('return' if out[0] == 'yield' else out[0],
                            out[1])
                out, _ = interp.run_function(f.node, env, stubs, res)
                if out[0] == 'fall':
                    return ('return', None)
                return out
            args_b = list(args)
            if name == 'find_or_add':
                # (the one signature that differs: a name for a level)
                args_b = [order.index(args[0])] + args[1:]
            what = (f'order {order}: {name}(' + ', '.join(
                repr(x) for x in args) + ')')
            # (a case the interpreter cannot follow is reported as
            # undecided; it was still attempted, so it counts for the
            # floor: the anchor is there)
            n += 1
            try:
                out_a = run(fa, args, 'A', wrapper)
                out_b = run(fb, args_b, 'B', obj_b)
            except interp.Unknown as e:
                undecided.setdefault(name, str(e))
                continue
            if out_a[0] != out_b[0] or (
                    out_a[0] == 'raise' and out_a[1] != out_b[1]):
                problems.setdefault((fa, 'outcome'), (
                    f'{what}: dd.autoref gives {out_a[0]} '
                    f'{out_a[1]!r} where dd.bdd gives {out_b[0]} '
                    f'{out_b[1]!r}'))
                continue
            if out_a[0] == 'raise':
                continue

            def differ(x, y):
                if hasattr(x, '__next__') or hasattr(y, '__next__'):
                    x, y = list(x), list(y)
                if isinstance(x, interp.Sym) and getattr(
                        x, 'cls', None) is fcls:
                    if not isinstance(y, int) or isinstance(y, bool):
                        return f'a handle where dd.bdd gives {y!r}'
                    u = x.attrs.get('node')
                    if not isinstance(u, int) or abs(u) not in \
                            obj_a.attrs['_succ']:
                        return f'a handle on {u!r}, not a node'
                    if _tt_obj(obj_a, u, names) != _tt_obj(
                            obj_b, y, names):
                        return (f'a handle on node {u}, which does not '
                                f'denote the function of the reference '
                                f'{y} that dd.bdd gives (nodes '
                                f'{obj_a.attrs["_succ"]} / '
                                f'{obj_b.attrs["_succ"]})')
                    if x.attrs.get('bdd') is not wrapper:
                        return ('a handle that does not belong to the '
                                'manager it was asked of')
                    if not any(x is g for g in given) and \
                            obj_a.attrs['_ref'].get(abs(u), 0) < \
                            obj_b.attrs['_ref'].get(abs(y), 0) + 1 and \
                            obj_a.attrs['_succ'] == obj_b.attrs['_succ']:
                        return (f'a new handle on node {u} that owns no '
                                'count')
                    return None
                if isinstance(x, (tuple, list)) and isinstance(
                        y, (tuple, list)):
                    if len(x) != len(y):
                        return f'{x!r} where dd.bdd gives {y!r}'
                    for p_, q_ in zip(x, y):
                        d = differ(p_, q_)
                        if d:
                            return d
                    return None
                if isinstance(x, dict) and isinstance(y, dict) and \
                        set(x) == set(y):
                    for k in x:
                        d = differ(x[k], y[k])
                        if d:
                            return d
                    return None
                if isinstance(x, interp.Sym) or isinstance(y, interp.Sym):
                    return f'{x!r} where dd.bdd gives {y!r}'
                return None if x == y else (
                    f'{x!r} where dd.bdd gives {y!r}')
            d = differ(out_a[1], out_b[1])
            if d:
                problems.setdefault((fa, 'result'), f'{what} returns {d}')
                continue
            for r_ in roots:
                if abs(r_) not in obj_a.attrs['_succ'] or _tt_obj(
                        obj_a, r_, names) != _tt_of(base, r_, names):
                    problems.setdefault((fa, 'live'), (
                        f'{what}: the live reference {r_} does not '
                        'denote what it did'))
                    break
            if name in state_only:
                for attr in ('vars', '_succ', '_ref'):
                    if obj_a.attrs[attr] != obj_b.attrs[attr]:
                        problems.setdefault((fa, 'state'), (
                            f'{what}: {attr} = {obj_a.attrs[attr]} '
                            f'where dd.bdd leaves {obj_b.attrs[attr]}'))
                        break
    for name, why in sorted(undecided.items()):
        R.undecided('R-ARGS', f'dd.autoref.BDD.{name}', 'sibling model',
                    why)
    for (f, sub), msg in sorted(problems.items(),
                                key=lambda kv: (kv[0][0].qualname, kv[0][1])):
        R.violation('R-ARGS', f'sibling-{sub}', f.qualname, f.name, msg,
                    unit=f.unit.rel, line=f.lineno)
    if not problems:
        R.holds('R-ARGS', 'dd.autoref.BDD / dd.bdd.BDD',
                f'sibling model ({n} calls interpreted on both sides): '
                'same outcome, handles on the same functions that belong '
                'to the manager and own a count, equal plain values, '
                'live references unchanged')
    return n


def r_autoref_siblings(P, R):
    n = autoref_sibling_model(P, R)
    if n is not None:
        R.floor('R-ARGS calls of the sibling model', n, 80)
r_autoref_siblings.NAME = 'R-ARGS(autoref sibling model)'


def function_views_model(P, R):
    """The read-only views of `dd.autoref.Function` evaluated by the
    interpreter for every reference of small managers (both signs, the
    constants): C18 - expanding on `u.var` with `u.high` / `u.low` and
    applying `u.negated` reproduces `u`; `u.level` is the level of
    `u.var`; `len(u)` and `u.dag_size` count the nodes reachable from
    `u`; `u.support` are the variables `u` depends on; `u.ref` is the
    count of the node; `int(u)` the reference; a copy is a new handle on
    the same node."""
    import itertools
    stubs = ClassStubs(P, 'dd.bdd.BDD', extra={
        '_request_reordering': lambda m, c, a, k: None})
    resolver = interp.ModuleEnv(P, 'dd.autoref', stubs)
    names = ['a', 'b', 'c']
    rows = list(itertools.product((False, True), repeat=3))
    tts = [tuple(bool(a and not b) for a, b, c in rows),
           tuple(bool(b if a else c) for a, b, c in rows),
           tuple(bool(a != c) for a, b, c in rows),
           tuple(bool(c) for a, b, c in rows)]
    fq = 'dd.autoref.Function'
    problems = dict()
    undecided = dict()
    n = 0
    try:
        fcls = resolver('Function')
        bcls = resolver('BDD')
    except KeyError as e:
        R.undecided('R-ROLE', fq, 'views model', str(e))
        return None

    def expr(text):
        return ast.parse(text, mode='eval').body
    views = {k: expr(v) for k, v in {
        'var': 'h.var', 'level': 'h.level', 'low': 'h.low',
        'high': 'h.high', 'negated': 'h.negated', '__len__': 'len(h)',
        'dag_size': 'h.dag_size', 'support': 'h.support', 'ref': 'h.ref',
        '__int__': 'h.__int__()', '__copy__': 'h.__copy__()',
        '__hash__': 'h.__hash__()'}.items()}
    for order in (['a', 'b', 'c'], ['c', 'a', 'b']):
        base, ext = _build_manager(order, tts, range(len(tts)))
        lv = {v: k for k, v in enumerate(order)}
        for u0 in sorted(base['self._succ']):
            for u in (u0, -u0):
                obj = _object_manager(copy.deepcopy(
                    {k: v for k, v in base.items() if k != 'self'}))
                wrapper = interp.Sym('autoref manager', {
                    '_bdd': obj, 'vars': obj.attrs['vars']})
                wrapper.cls = bcls
                h = interp.Sym('Function', {
                    'node': u, 'bdd': wrapper, 'manager': obj})
                h.cls = fcls
                got = dict()
                for k, e in views.items():
                    if interp.Machine({}, stubs, resolver).method_of(
                            h, k) is None:
                        continue
                    try:
                        got[k] = ('value', interp.Machine(
                            {'h': h}, stubs, resolver).ev(e))
                    except interp.Raised as x:
                        got[k] = ('raise', x.name)
                    except interp.Unknown as x:
                        undecided.setdefault(k, str(x))
                n += 1
                what = (f'order {order}, nodes {base["self._succ"]}: '
                        f'the handle on {u}')
                t_u = _tt_of(base, u, names)
                succ = base['self._succ']

                def bad(k, msg):
                    problems.setdefault(k, f'{what}: {msg}')

                def node_of(x):
                    if isinstance(x, interp.Sym) and getattr(
                            x, 'cls', None) is fcls:
                        return x.attrs.get('node')
                    return None
                for k, (kind, v) in got.items():
                    if kind == 'raise':
                        bad(k, f'.{k} raises {v}')
                if any(kind == 'raise' for kind, v in got.values()):
                    continue
                val = {k: v for k, (kind, v) in got.items()}
                terminal = abs(u) == 1
                if 'negated' in val and val['negated'] is not (u < 0):
                    bad('negated', f'.negated is {val["negated"]!r}')
                if 'level' in val and val['level'] != succ[abs(u)][0]:
                    bad('level', f'.level is {val["level"]!r}, the node '
                        f'is at level {succ[abs(u)][0]}')
                if 'var' in val:
                    want = None if terminal else order[succ[abs(u)][0]]
                    if val['var'] != want:
                        bad('var', f'.var is {val["var"]!r}, not {want!r}')
                if all(k in val for k in ('low', 'high', 'var',
                                          'negated')):
                    lo, hi = node_of(val['low']), node_of(val['high'])
                    if terminal:
                        if val['low'] is not None or \
                                val['high'] is not None:
                            bad('low', 'a constant has successors '
                                f'{val["low"]!r}, {val["high"]!r}')
                    elif not (isinstance(lo, int) and isinstance(hi, int)
                              and abs(lo) in succ and abs(hi) in succ
                              and val['var'] in names):
                        bad('low', f'.low / .high are {val["low"]!r}, '
                            f'{val["high"]!r}')
                    else:
                        t_lo = _tt_of(base, lo, names)
                        t_hi = _tt_of(base, hi, names)
                        k_ = names.index(val['var'])
                        rebuilt = tuple(
                            (t_hi[i] if r[k_] else t_lo[i])
                            != bool(val['negated'])
                            for i, r in enumerate(rows))
                        if rebuilt != t_u:
                            bad('low', 'if .var then .high else .low, '
                                'complemented when .negated, with .var = '
                                f'{val["var"]!r}, .high on {hi}, .low on '
                                f'{lo}, .negated = {val["negated"]!r}, is '
                                'not the function of the handle')
                reach, todo = {1}, [abs(u)]
                while todo:
                    x = todo.pop()
                    if x in reach:
                        continue
                    reach.add(x)
                    todo += [abs(succ[x][1]), abs(succ[x][2])]
                for k in ('__len__', 'dag_size'):
                    if k in val and val[k] != len(reach):
                        bad(k, f'{k} gives {val[k]!r}; {len(reach)} nodes '
                            'are reachable (the terminal included)')
                if 'support' in val:
                    dep = {x for j, x in enumerate(names) if any(
                        t_u[i] != t_u[rows.index(
                            r[:j] + (not r[j],) + r[j + 1:])]
                        for i, r in enumerate(rows))}
                    if val['support'] != dep:
                        bad('support', f'.support is {val["support"]!r}; '
                            f'the function depends on {sorted(dep)}')
                if 'ref' in val and val['ref'] != base['self._ref'][abs(u)]:
                    bad('ref', f'.ref is {val["ref"]!r}; the count of the '
                        f'node is {base["self._ref"][abs(u)]}')
                if '__int__' in val and val['__int__'] != u:
                    bad('__int__', f'int() gives {val["__int__"]!r}')
                if '__hash__' in val and not isinstance(
                        val['__hash__'], int):
                    bad('__hash__', f'hash() gives {val["__hash__"]!r}')
                if '__copy__' in val:
                    c = val['__copy__']
                    # (the handle itself is accepted as its copy: one
                    # object, one owner)
                    if node_of(c) != u or \
                            c.attrs.get('bdd') is not wrapper:
                        bad('__copy__', 'a copy is not a handle on the '
                            'same node of the same manager')
    for k, why in sorted(undecided.items()):
        R.undecided('R-ROLE', f'{fq}.{k}', 'views model', why)
    for k, msg in sorted(problems.items()):
        f = P.func(f'{fq}.{k}', required=False)
        R.violation('R-ROLE', 'view', f'{fq}.{k}', k, msg,
                    unit=f.unit.rel if f else 'dd/autoref.py',
                    line=f.lineno if f else None)
    if not problems:
        R.holds('R-ROLE', fq,
                f'views model ({n} handles, {len(views)} views each): the '
                'expansion on var / high / low / negated reproduces the '
                'function; level, size, support, count and copy as C18 '
                'gives them')
    return n


def r_function_views(P, R):
    n = function_views_model(P, R)
    if n is not None:
        R.floor('R-ROLE handles of the views model', n, 20)
r_function_views.NAME = 'R-ROLE(Function views model)'


def copy_model(P, R):
    """Copying between managers interpreted with everything it calls:
    `dd.bdd.BDD.copy` / `dd.bdd.copy_bdd` on node numbers, and
    `dd._copy.copy_bdd` / `copy_bdds_from` on handles of `dd.autoref`
    (one memo shared by several roots), from a manager over a, b, c
    into managers with another variable order, with a further variable,
    and with nodes of their own.  C11: the result denotes, by variable
    name, the function that was copied; it belongs to the target; the
    target stays reduced and consistent; its own references keep their
    functions; the source is untouched."""
    import itertools
    stubs = ClassStubs(P, 'dd.bdd.BDD', extra={
        '_request_reordering': lambda m, c, a, k: None})
    res_b = interp.ModuleEnv(P, 'dd.bdd', stubs)
    res_c = res_b.module('dd._copy')
    res_a = res_b.module('dd.autoref')
    names = ['a', 'b', 'c']
    rows = list(itertools.product((False, True), repeat=3))
    tts = [tuple(bool(a and not b) for a, b, c in rows),
           tuple(bool(b if a else c) for a, b, c in rows),
           tuple(bool(a != c) for a, b, c in rows),
           tuple(bool(c) for a, b, c in rows)]
    rows4 = list(itertools.product((False, True), repeat=4))
    own = [tuple(bool(b and d) for a, b, c, d in rows4)]
    problems = dict()
    n = 0
    cb = P.func('dd.bdd.copy_bdd')
    meth = P.func('dd.bdd.BDD.copy')
    c1 = P.func('dd._copy.copy_bdd', required=False)
    cm = P.func('dd._copy.copy_bdds_from', required=False)

    def fresh(env):
        return _object_manager(copy.deepcopy(
            {k: v for k, v in env.items() if k != 'self'}))

    def targets():
        t1, e1 = _build_manager(['c', 'a', 'b'], [], [])
        t2, e2 = _build_manager(['b', 'd', 'c', 'a'], own, [0])
        t3, e3 = _build_manager(['a', 'b', 'c'], [tts[2]], [0])
        return [('the order c, a, b', t1, e1, ['a', 'b', 'c']),
                ('the order b, d, c, a and a node of its own', t2, e2,
                 ['a', 'b', 'c', 'd']),
                ('the same order and a node of its own', t3, e3,
                 ['a', 'b', 'c'])]

    def widen(t, tnames):
        # the table of a function of a, b, c over the names of the target
        trs = list(itertools.product((False, True), repeat=len(tnames)))
        return tuple(t[rows.index(tuple(
            dict(zip(tnames, r))[x] for x in names))] for r in trs)

    def after(f, what, src0, src, tgt0, tgt, text, tnames, pairs):
        for u, r in pairs:
            if not isinstance(r, int) or isinstance(r, bool) or abs(
                    r) not in tgt.attrs['_succ']:
                problems.setdefault((f, 'raises'), (
                    f'{what}: {u} comes back as {r!r}'))
                return
            if _tt_obj(tgt, r, tnames) != widen(
                    _tt_of(src0, u, names), tnames):
                problems.setdefault((f, 'wrong-function'), (
                    f'{what}: the copy {r} of {u} does not denote the '
                    'same function of the same-named variables (target '
                    f'nodes {tgt.attrs["_succ"]}, levels '
                    f'{tgt.attrs["vars"]})'))
                return
        if any(src.attrs[k] != src0['self.' + k]
               for k in ('vars', '_succ', '_ref')):
            problems.setdefault((f, 'source-changed'), (
                f'{what}: the source manager changed'))
            return
        for r_ in text:
            if abs(r_) not in tgt.attrs['_succ'] or _tt_obj(
                    tgt, r_, tnames) != _tt_of(tgt0, r_, tnames):
                problems.setdefault((f, 'target-live'), (
                    f'{what}: the reference {r_} of the target does not '
                    'denote what it did'))
                return
    try:
        src0, sext = _build_manager(['a', 'b', 'c'], tts, range(len(tts)))
        roots = sorted(sext)
        refs = [1, -1] + [s_ * u for u in roots for s_ in (1, -1)]
        for tname, tgt0, text, tnames in targets():
            for u in refs:
                for f in (cb, meth):
                    n += 1
                    src, tgt = fresh(src0), fresh(tgt0)
                    ps = [p for p in f.params if p != 'self']
                    if f is meth:
                        env = {'self': src, ps[0]: u, ps[1]: tgt}
                    else:
                        env = {ps[0]: u, ps[1]: src, ps[2]: tgt}
                    out, _ = interp.run_function(
                        f.node, env, stubs, res_b)
                    what = (f'{f.name}({u}) from nodes '
                            f'{src0["self._succ"]} into a manager with '
                            f'{tname}')
                    if out[0] != 'return':
                        problems.setdefault((f, 'raises'), (
                            f'{what}: {out[0]} {out[1]!r}'))
                        continue
                    after(f, what, src0, src, tgt0, tgt, text, tnames,
                          [(u, out[1])])
                    env_t = {f'self.{k}': v for k, v in tgt.attrs.items()}
                    bad = _manager_complaints(env_t, dict(text))
                    if bad:
                        problems.setdefault((f, 'target-tables'), (
                            f'{what}: {bad}'))
            if c1 is None or cm is None:
                continue
            fcls = res_a('Function')
            bcls = res_a('BDD')
            for rs in ([refs[2]], [refs[3], refs[4]],
                       [refs[6], -1, refs[7], refs[2], refs[6]]):
                for f in (c1, cm):
                    n += 1
                    src, tgt = fresh(src0), fresh(tgt0)
                    ws = interp.Sym('autoref source', {
                        '_bdd': src, 'vars': src.attrs['vars']})
                    ws.cls = bcls
                    wt = interp.Sym('autoref target', {
                        '_bdd': tgt, 'vars': tgt.attrs['vars']})
                    wt.cls = bcls
                    hs = []
                    for u in rs:
                        h = interp.Sym('Function', {
                            'node': u, 'bdd': ws, 'manager': src})
                        h.cls = fcls
                        hs.append(h)
                    ps = list(f.params)
                    what = (f'dd._copy.{f.name}({rs}) from nodes '
                            f'{src0["self._succ"]} into a manager with '
                            f'{tname}')
                    if f is c1:
                        env = {ps[0]: hs[0], ps[1]: wt}
                        if len(ps) > 2:
                            env[ps[2]] = None
                    else:
                        env = {ps[0]: list(hs), ps[1]: wt}
                    out, _ = interp.run_function(
                        f.node, env, stubs, res_c)
                    got = out[1] if f is cm else [out[1]]
                    if out[0] != 'return' or not isinstance(
                            got, list) or not all(
                                isinstance(x, interp.Sym) and x.attrs
                                for x in got) or len(got) != (
                                    len(rs) if f is cm else 1):
                        problems.setdefault((f, 'raises'), (
                            f'{what}: {out[0]} {out[1]!r}'))
                        continue
                    if any(x.attrs.get('bdd') is not wt for x in got):
                        problems.setdefault((f, 'other-manager'), (
                            f'{what}: a handle returned does not belong '
                            'to the target'))
                        continue
                    # (the handles made on the way hold counts of the
                    # source until they are dropped: counts are not
                    # compared here)
                    src.attrs['_ref'] = copy.deepcopy(src0['self._ref'])
                    after(f, what, src0, src, tgt0, tgt, text, tnames,
                          [(u, x.attrs.get('node'))
                           for u, x in zip(rs, got)])
        # a target that lacks a variable of the function (and has
        # another one on that level): there is nothing right to return
        rows_e = list(itertools.product((False, True), repeat=3))
        t4, e4 = _build_manager(['a', 'e', 'c'], [], [])
        for u in refs[2:]:
            t_u = _tt_of(src0, u, names)
            if not any(t_u[i] != t_u[rows.index((r[0], not r[1], r[2]))]
                       for i, r in enumerate(rows)):
                continue   # does not depend on b
            for f in (cb, meth):
                n += 1
                src, tgt = fresh(src0), fresh(t4)
                ps = [p for p in f.params if p != 'self']
                if f is meth:
                    env = {'self': src, ps[0]: u, ps[1]: tgt}
                else:
                    env = {ps[0]: u, ps[1]: src, ps[2]: tgt}
                out, _ = interp.run_function(f.node, env, stubs, res_b)
                if out[0] != 'raise':
                    problems.setdefault((f, 'missing-variable'), (
                        f'{f.name}({u}) from nodes {src0["self._succ"]} '
                        'over a, b, c into a manager with the variables '
                        f'a, e, c returns {out[1]!r}: the function depends '
                        'on b, which the target does not have'))
    except (interp.Unknown, KeyError) as e:
        R.undecided('R-DOMAIN', 'copy between managers', 'copy model',
                    str(e))
        return None
    for (f, sub), msg in sorted(problems.items(),
                                key=lambda kv: (kv[0][0].qualname, kv[0][1])):
        R.violation('R-DOMAIN', f'copy-{sub}', f.qualname, f.name, msg,
                    unit=f.unit.rel, line=f.lineno)
    if not problems:
        R.holds('R-DOMAIN', 'copy between managers',
                f'copy model ({n} calls): the copy denotes the same '
                'function of the same-named variables in the target, '
                'whatever its order and contents; target consistent, '
                'source untouched')
    return n


def r_copy(P, R):
    n = copy_model(P, R)
    if n is not None:
        R.floor('R-DOMAIN calls of the copy model', n, 40)
r_copy.NAME = 'R-DOMAIN(copy model)'


def collect_model(P, R):
    """`BDD.collect_garbage` interpreted (with `decref`) on managers that
    hold garbage - nodes no outside reference reaches - for every choice
    of which functions are referenced, with and without a list of roots
    to start from.  C06: exactly the unreferenced nodes go; counts, the
    unique table and the functions of the referenced nodes are what they
    must be; the operation memo is emptied; the next free number is not
    that of a node that stayed."""
    import itertools
    f = P.func('dd.bdd.BDD.collect_garbage')
    stubs = ClassStubs(P, 'dd.bdd.BDD')
    resolver = interp.ModuleEnv(P, 'dd.bdd', stubs)
    names = ['a', 'b', 'c']
    rows = list(itertools.product((False, True), repeat=3))
    tts = [tuple(bool(a and not b) for a, b, c in rows),
           tuple(bool(b if a else c) for a, b, c in rows),
           tuple(bool(a != c) for a, b, c in rows),
           tuple(bool(b or c) for a, b, c in rows)]
    prm = [p for p in f.params if p != 'self']
    problems = dict()
    n = 0
    try:
        for order in (['a', 'b', 'c'], ['b', 'c', 'a']):
            for k in range(len(tts) + 1):
                for kept in itertools.combinations(range(len(tts)), k):
                    base, ext = _build_manager(
                        order, tts, list(kept), keep_garbage=True)
                    succ0 = base['self._succ']
                    live, todo = {1}, [abs(r) for r in ext]
                    while todo:
                        x = todo.pop()
                        if x in live:
                            continue
                        live.add(x)
                        todo += [abs(succ0[x][1]), abs(succ0[x][2])]
                    dead = sorted(set(succ0) - live)
                    tops = [u for u in dead if base['self._ref'][u] == 0]
                    for roots in (None, list(tops), tops[:1]):
                        n += 1
                        obj = _object_manager(copy.deepcopy(
                            {k_: v for k_, v in base.items()
                             if k_ != 'self'}))
                        out, _ = interp.run_function(
                            f.node, {'self': obj, prm[0]: (
                                list(roots) if roots is not None
                                else None)}, stubs, resolver)
                        what = (f'order {order}, nodes {succ0}, '
                                f'referenced {sorted(ext)}: '
                                f'collect_garbage({roots})')
                        if out[0] == 'raise':
                            problems.setdefault('raises', (
                                f'{what}: raises {out[1]}'))
                            continue
                        left = set(obj.attrs['_succ'])
                        if not live <= left:
                            problems.setdefault('freed-live', (
                                f'{what}: the node(s) '
                                f'{sorted(live - left)} reachable from a '
                                'reference are gone'))
                            continue
                        if roots is None or len(roots) == len(tops):
                            if left != live:
                                problems.setdefault('kept-garbage', (
                                    f'{what}: the unreferenced node(s) '
                                    f'{sorted(left - live)} stay'))
                                continue
                        elif roots and roots[0] in left:
                            problems.setdefault('kept-garbage', (
                                f'{what}: the unreferenced root '
                                f'{roots[0]} stays'))
                            continue
                        env = {f'self.{k_}': v
                               for k_, v in obj.attrs.items()}
                        bad = _manager_complaints(env, dict(ext))
                        if bad:
                            problems.setdefault('tables', f'{what}: {bad}')
                            continue
                        for r_ in ext:
                            if _tt_obj(obj, r_, names) != _tt_of(
                                    base, r_, names):
                                problems.setdefault('function', (
                                    f'{what}: the reference {r_} does '
                                    'not denote what it did'))
                        if obj.attrs['_ite_table']:
                            problems.setdefault('memo', (
                                f'{what}: the operation memo still '
                                f'holds {obj.attrs["_ite_table"]}'))
                        mf = obj.attrs.get('_min_free')
                        if mf in obj.attrs['_succ'] or not isinstance(
                                mf, int) or mf < 2:
                            problems.setdefault('next-free', (
                                f'{what}: the next free number is {mf}, '
                                'a node that stayed'))
    except (interp.Unknown, KeyError) as e:
        R.undecided('R-PAIR', f.qualname, 'collection model', str(e))
        return None
    for sub, msg in sorted(problems.items()):
        R.violation('R-PAIR', f'collect-{sub}', f.qualname,
                    'collect_garbage', msg, unit=f.unit.rel,
                    line=f.lineno)
    if not problems:
        R.holds('R-PAIR', f.qualname,
                f'collection model ({n} calls): exactly the unreferenced '
                'nodes go, tables and counts consistent, referenced '
                'functions unchanged, memo emptied')
    return n


def r_collect(P, R):
    n = collect_model(P, R)
    if n is not None:
        R.floor('R-PAIR calls of the collection model', n, 60)
r_collect.NAME = 'R-PAIR(collection model)'


def _eval_formula(text, val):
    """Value of a formula of the documented Boolean syntax (doc.md:
    precedence `<=>` < `=>` < `#`,`^` < `\\/`,`|` < `/\\`,`&` < `~`,`!`;
    `ite(a, b, c)`; TRUE / FALSE; names) under the assignment `val`.
    Raises ValueError on anything else."""
    import re
    toks = re.findall(
        r"<=>|<->|=>|->|\\/|/\\|\|\||&&|[()~!,#^|&]|[A-Za-z_][A-Za-z0-9_.']*",
        text)
    if ''.join(toks) != re.sub(r'\s+', '', text):
        raise ValueError(text)
    pos = [0]
    levels = [({'<=>', '<->'}, lambda a, b: a == b),
              ({'=>', '->'}, lambda a, b: (not a) or b),
              ({'#', '^'}, lambda a, b: a != b),
              ({'\\/', '|', '||'}, lambda a, b: a or b),
              ({'/\\', '&', '&&'}, lambda a, b: a and b)]

    def peek():
        return toks[pos[0]] if pos[0] < len(toks) else None

    def take(t=None):
        x = peek()
        if x is None or (t is not None and x != t):
            raise ValueError(text)
        pos[0] += 1
        return x

    def binary(k):
        if k == len(levels):
            return unary()
        ops, fn = levels[k]
        a = binary(k + 1)
        while peek() in ops:
            take()
            b = binary(k + 1)
            a = bool(fn(a, b))
        return a

    def unary():
        if peek() in ('~', '!'):
            take()
            return not unary()
        return atom()

    def atom():
        t = take()
        if t == '(':
            a = binary(0)
            take(')')
            return a
        if t == 'ite' and peek() == '(':
            take('(')
            a = binary(0)
            take(',')
            b = binary(0)
            take(',')
            c = binary(0)
            take(')')
            return b if a else c
        if t.upper() == 'TRUE':
            return True
        if t.upper() == 'FALSE':
            return False
        if t in val:
            return bool(val[t])
        raise ValueError(text)
    out = binary(0)
    if peek() is not None:
        raise ValueError(text)
    return out


def to_expr_model(P, R):
    """`BDD.to_expr` interpreted for every reference of two managers and
    its output read back by an evaluator of the documented syntax (doc.md)
    written for this purpose: under every assignment the formula has the
    value of the reference (C05: `to_expr` gives a formula of the function,
    in the syntax `add_expr` documents)."""
    import itertools
    f = P.func('dd.bdd.BDD.to_expr')
    stubs = ClassStubs(P, 'dd.bdd.BDD')
    resolver = interp.ModuleEnv(P, 'dd.bdd', stubs)
    names = ['a', 'b', 'c']
    rows = list(itertools.product((False, True), repeat=3))
    tts = [tuple(bool(a and not b) for a, b, c in rows),
           tuple(bool(b if a else c) for a, b, c in rows),
           tuple(bool(a != c) for a, b, c in rows),
           tuple(bool(c) for a, b, c in rows),
           tuple(bool((a or b) and c) for a, b, c in rows)]
    prm = [p for p in f.params if p != 'self']
    problems = dict()
    n = 0
    try:
        for order in (['a', 'b', 'c'], ['c', 'a', 'b']):
            base, ext = _build_manager(order, tts, range(len(tts)))
            for u0 in sorted(base['self._succ']):
                for u in (u0, -u0):
                    n += 1
                    obj = _object_manager(copy.deepcopy(
                        {k: v for k, v in base.items() if k != 'self'}))
                    out, _ = interp.run_function(
                        f.node, {'self': obj, prm[0]: u}, stubs, resolver)
                    what = (f'order {order}, nodes {base["self._succ"]}: '
                            f'to_expr({u})')
                    if out[0] != 'return' or not isinstance(out[1], str):
                        problems.setdefault('raises', (
                            f'{what}: {out[0]} {out[1]!r}'))
                        continue
                    want = _tt_of(base, u, names)
                    try:
                        got = tuple(_eval_formula(
                            out[1], dict(zip(names, r))) for r in rows)
                    except ValueError:
                        problems.setdefault('syntax', (
                            f'{what} gives {out[1]!r}, which is not a '
                            'formula of the documented syntax over the '
                            'declared variables'))
                        continue
                    if got != want:
                        problems.setdefault('wrong-function', (
                            f'{what} gives {out[1]!r}, which has the '
                            'values ' + ''.join(
                                '1' if b else '0' for b in got)
                            + ' where the reference has ' + ''.join(
                                '1' if b else '0' for b in want)
                            + f' (rows in the order of {names})'))
    except (interp.Unknown, KeyError) as e:
        R.undecided('R-FORMAT', f.qualname, 'formula model', str(e))
        return None
    for sub, msg in sorted(problems.items()):
        R.violation('R-FORMAT', f'to_expr-{sub}', f.qualname, 'to_expr',
                    msg, unit=f.unit.rel, line=f.lineno)
    if not problems:
        R.holds('R-FORMAT', f.qualname,
                f'formula model ({n} references): the text is a formula '
                'of the documented syntax with the values of the '
                'reference under every assignment')
    return n


def r_to_expr(P, R):
    n = to_expr_model(P, R)
    if n is not None:
        R.floor('R-FORMAT references of the formula model', n, 20)
r_to_expr.NAME = 'R-FORMAT(to_expr model)'


_GRAPH_MODEL = '''
class MultiDiGraph:
    def __init__(self):
        self.nodes = {}
        self.edges = []
    def add_node(self, u, **attrs):
        self.nodes.setdefault(u, {}).update(attrs)
    def add_nodes_from(self, us, **attrs):
        for u in us:
            if isinstance(u, tuple):
                self.add_node(u[0], **dict(attrs, **u[1]))
            else:
                self.add_node(u, **attrs)
    def add_edge(self, u, v, key=None, **attrs):
        self.nodes.setdefault(u, {})
        self.nodes.setdefault(v, {})
        self.edges.append((u, v, dict(attrs)))
    def add_edges_from(self, es, **attrs):
        for e in es:
            d = dict(attrs)
            if len(e) > 2:
                d.update(e[-1])
            self.add_edge(e[0], e[1], **d)
    def __contains__(self, u):
        return u in self.nodes
    def __len__(self):
        return len(self.nodes)
    def __iter__(self):
        return iter(self.nodes)
    def has_node(self, u):
        return u in self.nodes
'''


def to_nx_model(P, R):
    """`dd.bdd.to_nx(bdd, roots)` interpreted against a model of the graph
    class it fills (nodes with attributes, a list of attributed edges).
    C18: the graph holds exactly the nodes below the roots, each with its
    level; every node that is not the terminal has a `value=False` and a
    `value=True` successor and nothing else; walking the graph from a root
    with the complement marks gives the function of the root.  (An edge
    recorded twice - the function does that for nodes shared by two roots
    - is not held against it.)"""
    import itertools
    f = P.func('dd.bdd.to_nx')
    gcls = ('class', ast.parse(_GRAPH_MODEL).body[0], None, dict())
    lib = interp.Sym('networkx', {'MultiDiGraph': gcls,
                                  'DiGraph': gcls})
    stubs = ClassStubs(P, 'dd.bdd.BDD', extra={
        'import_module': lambda m, c, a, k: lib})
    resolver = interp.ModuleEnv(P, 'dd.bdd', stubs)
    names = ['a', 'b', 'c']
    rows = list(itertools.product((False, True), repeat=3))
    tts = [tuple(bool(a and not b) for a, b, c in rows),
           tuple(bool(b if a else c) for a, b, c in rows),
           tuple(bool(a != c) for a, b, c in rows)]
    ps = list(f.params)
    problems = dict()
    n = 0
    try:
        for order in (['a', 'b', 'c'], ['b', 'c', 'a']):
            base, ext = _build_manager(order, tts, range(len(tts)))
            rs = sorted(ext)
            succ = base['self._succ']
            for roots in ([rs[0]], [rs[0], -rs[1]], [rs[2], -rs[2]],
                          [-rs[1]], [1], [rs[1], rs[2], rs[0]], [rs[2]],
                          [rs[1]]):
                n += 1
                obj = _object_manager(copy.deepcopy(
                    {k: v for k, v in base.items() if k != 'self'}))
                out, _ = interp.run_function(
                    f.node, {ps[0]: obj, ps[1]: list(roots)}, stubs,
                    resolver)
                what = f'order {order}, nodes {succ}: to_nx(roots={roots})'
                g = out[1]
                if out[0] != 'return' or not isinstance(g, interp.Sym) \
                        or not g.attrs or 'nodes' not in g.attrs:
                    problems.setdefault('raises', (
                        f'{what}: {out[0]} {out[1]!r}'))
                    continue
                nodes, edges = g.attrs['nodes'], g.attrs['edges']
                reach, todo = set(), [abs(r) for r in roots]
                while todo:
                    x = todo.pop()
                    if x in reach:
                        continue
                    reach.add(x)
                    if x != 1:
                        todo += [abs(succ[x][1]), abs(succ[x][2])]
                if set(nodes) != reach:
                    problems.setdefault('nodes', (
                        f'{what}: the graph has the nodes '
                        f'{sorted(nodes)}; below the roots are '
                        f'{sorted(reach)}'))
                    continue
                bad = [u for u in nodes
                       if nodes[u].get('level') != succ[u][0]]
                if bad:
                    problems.setdefault('level', (
                        f'{what}: node {bad[0]} is labelled '
                        f'{nodes[bad[0]]}, its level is '
                        f'{succ[bad[0]][0]}'))
                    continue
                arcs = dict()
                for u, v, d in edges:
                    arcs.setdefault(u, set()).add(
                        (v, d.get('value'), bool(d.get('complement'))))
                shape = None
                if len(roots) == 1 and len(edges) != sum(
                        len(x) for x in arcs.values()):
                    # (with one root nothing is visited twice on the
                    # reference tree; with several roots that share nodes
                    # it records arcs again, which is not held against
                    # it, see DESIGN section 6)
                    shape = ('an arc is recorded more than once: '
                             f'{sorted((u, v) for u, v, d in edges)}')
                for u in nodes:
                    have = sorted(arcs.get(u, ()), key=repr)
                    if u == 1:
                        if have:
                            shape = f'the terminal has the arcs {have}'
                    elif sorted(x[1] for x in have) != [False, True] or \
                            any(x[1] not in (False, True) or
                                isinstance(x[1], int) and
                                not isinstance(x[1], bool) for x in have):
                        shape = (f'node {u} has the arcs {have}: not one '
                                 'with value=False and one with value=True')
                if shape:
                    problems.setdefault('arcs', f'{what}: {shape}')
                    continue
                by_level = {k: v for k, v in enumerate(order)}

                def walk(u, r):
                    neg = False
                    while u != 1:
                        bit = r[names.index(by_level[nodes[u]['level']])]
                        v, _, c = next(x for x in arcs[u] if x[1] is bit)
                        neg ^= c
                        u = v
                    return not neg
                for r_ in roots:
                    got = tuple(walk(abs(r_), r) for r in rows)
                    if got != _tt_of(base, abs(r_), names):
                        problems.setdefault('function', (
                            f'{what}: walking the graph from node '
                            f'{abs(r_)} with its then / else arcs and '
                            'complement marks does not give the function '
                            f'of the node (arcs {arcs})'))
                        break
    except (interp.Unknown, KeyError, StopIteration) as e:
        R.undecided('R-ROLE', f.qualname, 'graph model', str(e))
        return None
    for sub, msg in sorted(problems.items()):
        R.violation('R-ROLE', f'to_nx-{sub}', f.qualname, 'to_nx', msg,
                    unit=f.unit.rel, line=f.lineno)
    if not problems:
        R.holds('R-ROLE', f.qualname,
                f'graph model ({n} exports): nodes below the roots with '
                'their levels, one else and one then arc each, the '
                'function recovered by walking the graph')
    return n


def r_to_nx(P, R):
    n = to_nx_model(P, R)
    if n is not None:
        R.floor('R-ROLE exports of the graph model', n, 10)
r_to_nx.NAME = 'R-ROLE(to_nx model)'


def mdd_collect_model(P, R):
    """`MDD.collect_garbage` interpreted on a small multi-valued diagram
    for every choice of which of its top nodes are referenced from
    outside.  C15: exactly the nodes no reference reaches go; the tables
    stay inverse of each other; every count is the number of stored edges
    plus the outside references; the numbers of the freed nodes are free;
    the values of the referenced nodes are what they were; the memo is
    emptied."""
    import itertools
    f = P.func('dd.mdd.MDD.collect_garbage')
    stubs = ClassStubs(P, 'dd.mdd.MDD')
    resolver = interp.ModuleEnv(P, 'dd.mdd', stubs)
    dvars = {'x': {'level': 0, 'len': 3}, 'y': {'level': 1, 'len': 2}}
    succ = {1: (2, None), 2: (1, 1, -1), 3: (0, 2, 1, -2),
            4: (0, 1, -1, -1), 5: (0, 2, -2, 1), 6: (1, -1, 1)}
    # (node 6 is referenced by nobody; 2 by 3, 5; the tops are 3, 4, 5, 6)
    tops = [3, 4, 5, 6]
    points = list(itertools.product(range(3), range(2)))

    def value(table, u, pt):
        neg = False
        while abs(u) != 1:
            if u < 0:
                neg = not neg
            t = table[abs(u)]
            u = t[1 + pt[t[0]]]
        return (u > 0) != neg
    prm = [p for p in f.params if p != 'self']
    problems = dict()
    n = 0
    try:
        for k in range(len(tops) + 1):
            for kept in itertools.combinations(tops, k):
                ref = {u: 0 for u in succ}
                for u, t in succ.items():
                    for x in t[1:]:
                        if x is not None:
                            ref[abs(x)] += 1
                for u in kept:
                    ref[u] += 1
                live, todo = {1}, list(kept)
                while todo:
                    x = todo.pop()
                    if x in live:
                        continue
                    live.add(x)
                    todo += [abs(y) for y in succ[x][1:]]
                for roots in (None, [u for u in tops if u not in kept]):
                    n += 1
                    obj = interp.Sym('mdd', {
                        'vars': copy.deepcopy(dvars),
                        '_level_to_var': None, '_succ': dict(succ),
                        '_pred': {t: u for u, t in succ.items()},
                        '_ref': dict(ref), '_max': 6, '_free': set(),
                        '_ite_table': {(3, 1, -1): 3},
                        'max_nodes': 1000})
                    out, _ = interp.run_function(
                        f.node, {'self': obj, prm[0]: (
                            list(roots) if roots is not None else None)},
                        stubs, resolver)
                    what = (f'nodes {succ}, referenced {list(kept)}: '
                            f'collect_garbage({roots})')
                    if out[0] == 'raise':
                        problems.setdefault('raises', (
                            f'{what}: raises {out[1]}'))
                        continue
                    a = obj.attrs
                    if set(a['_succ']) != live:
                        problems.setdefault('nodes', (
                            f'{what}: the nodes {sorted(a["_succ"])} '
                            f'stay; referenced or below a referenced '
                            f'node are {sorted(live)}'))
                        continue
                    if a['_pred'] != {t: u for u, t in a['_succ'].items()}:
                        problems.setdefault('tables', (
                            f'{what}: the unique table {a["_pred"]} is '
                            f'not the inverse of {a["_succ"]}'))
                        continue
                    want = {u: 0 for u in a['_succ']}
                    for u, t in a['_succ'].items():
                        for x in t[1:]:
                            if x is not None:
                                want[abs(x)] += 1
                    for u in kept:
                        want[u] += 1
                    if a['_ref'] != want:
                        problems.setdefault('counts', (
                            f'{what}: the counts are {a["_ref"]}, the '
                            f'stored edges and outside references give '
                            f'{want}'))
                        continue
                    if not set(succ) - live <= set(a['_free']) or \
                            set(a['_free']) & live:
                        problems.setdefault('free', (
                            f'{what}: the free numbers are '
                            f'{sorted(a["_free"])}; freed were '
                            f'{sorted(set(succ) - live)}'))
                        continue
                    if a['_ite_table']:
                        problems.setdefault('memo', (
                            f'{what}: the memo still holds '
                            f'{a["_ite_table"]}'))
                    for u in kept:
                        if any(value(a['_succ'], u, p) != value(succ, u, p)
                               for p in points):
                            problems.setdefault('function', (
                                f'{what}: the referenced node {u} does '
                                'not have the values it had'))
    except (interp.Unknown, KeyError) as e:
        R.undecided('R-PAIR', f.qualname, 'collection model', str(e))
        return None
    for sub, msg in sorted(problems.items()):
        R.violation('R-PAIR', f'mdd-collect-{sub}', f.qualname,
                    'collect_garbage', msg, unit=f.unit.rel,
                    line=f.lineno)
    if not problems:
        R.holds('R-PAIR', f.qualname,
                f'collection model ({n} calls): exactly the unreferenced '
                'nodes go, tables inverse, counts exact, freed numbers '
                'free, memo emptied')
    return n


def r_mdd_collect(P, R):
    n = mdd_collect_model(P, R)
    if n is not None:
        R.floor('R-PAIR calls of the MDD collection model', n, 20)
r_mdd_collect.NAME = 'R-PAIR(MDD collection model)'


def operator_str_model(P, R):
    """`str(u)` of a handle (`dd._abc.Operator.__str__`, which
    `dd.autoref.Function` inherits) interpreted for handles on nodes of
    both signs, the constants among them.  C05: the text is `@` followed
    by the reference as `int(u)` gives it - what the documented `@n` form
    of `add_expr` reads back through `_add_int` as the same reference."""
    f = P.func('dd._abc.Operator.__str__', required=False)
    if f is None:
        return None
    stubs = ClassStubs(P, 'dd.bdd.BDD')
    resolver = interp.ModuleEnv(P, 'dd.autoref', stubs)
    try:
        fcls = resolver('Function')
    except KeyError:
        return None
    if any(isinstance(st, ast.FunctionDef) and st.name == '__str__'
           for st in fcls[1].body):
        f = P.func('dd.autoref.Function.__str__')
    res_f = resolver.module(f.qualname.rsplit('.', 2)[0]) or resolver
    problems = dict()
    n = 0
    try:
        for u in (1, -1, 2, -2, 3, -7, 12):
            n += 1
            h = interp.Sym('Function', {'node': u, 'bdd': None,
                                        'manager': None})
            h.cls = fcls
            out, _ = interp.run_function(f.node, {'self': h}, stubs, res_f)
            if out[0] != 'return' or out[1] != f'@{u}':
                problems.setdefault('text', (
                    f'str() of a handle on {u} gives {out[0]} '
                    f'{out[1]!r}, not {"@" + str(u)!r}: `add_expr` would '
                    'read it back as another reference'))
    except interp.Unknown as e:
        R.undecided('R-FORMAT', f.qualname, 'reference text model', str(e))
        return None
    for sub, msg in sorted(problems.items()):
        R.violation('R-FORMAT', f'str-{sub}', f.qualname, '__str__', msg,
                    unit=f.unit.rel, line=f.lineno)
    if not problems:
        R.holds('R-FORMAT', f.qualname,
                f'reference text model ({n} handles): str() gives @ and '
                'the signed reference')
    return n


def r_operator_str(P, R):
    n = operator_str_model(P, R)
    if n is not None:
        R.floor('R-FORMAT handles of the reference text model', n, 5)
r_operator_str.NAME = 'R-FORMAT(reference text model)'


def manager_copy_model(P, R):
    """`BDD.__copy__` interpreted (with the constructor it calls) on
    managers that hold nodes.  The clone has the same variables, levels,
    nodes, unique table, counts, next free number and roots as the
    original - so that it is reduced and consistent and finds every node
    it holds - in containers of its own; the original is untouched."""
    import itertools
    f = P.func('dd.bdd.BDD.__copy__', required=False)
    if f is None:
        return None
    stubs = ClassStubs(P, 'dd.bdd.BDD', extra={
        '_request_reordering': lambda m, c, a, k: None})
    resolver = interp.ModuleEnv(P, 'dd.bdd', stubs)
    rows = list(itertools.product((False, True), repeat=3))
    tts = [tuple(bool(a and not b) for a, b, c in rows),
           tuple(bool(b if a else c) for a, b, c in rows)]
    problems = dict()
    n = 0
    try:
        for order, tables in ((['a', 'b', 'c'], tts), (['c', 'a', 'b'], tts),
                              (['a'], []), ([], [])):
            n += 1
            base, ext = _build_manager(order, tables, range(len(tables)))
            obj = _object_manager(copy.deepcopy(
                {k: v for k, v in base.items() if k != 'self'}))
            obj.attrs['roots'] = set(ext)
            before = copy.deepcopy(obj.attrs)
            out, _ = interp.run_function(
                f.node, {'self': obj}, stubs, resolver)
            what = f'variables {order}, nodes {base["self._succ"]}'
            r = out[1]
            if out[0] != 'return' or not isinstance(r, interp.Sym) or \
                    not isinstance(r.attrs, dict) or r is obj:
                problems.setdefault('raises', (
                    f'{what}: {out[0]} {out[1]!r}'))
                continue
            for k in ('vars', '_level_to_var', '_succ', '_pred', '_ref',
                      '_min_free', 'roots', 'max_nodes'):
                if r.attrs.get(k) != before[k]:
                    problems.setdefault('differs', (
                        f'{what}: the clone has {k} = {r.attrs.get(k)!r}, '
                        f'the original {before[k]!r}'))
                    break
                if isinstance(before[k], (dict, set)) and \
                        r.attrs.get(k) is obj.attrs[k]:
                    problems.setdefault('shared', (
                        f'{what}: the clone shares the container {k} '
                        'with the original'))
                    break
            if obj.attrs != before:
                problems.setdefault('original-changed', (
                    f'{what}: the original changed'))
    except (interp.Unknown, KeyError) as e:
        R.undecided('R-INVMAP', f.qualname, 'clone model', str(e))
        return None
    for sub, msg in sorted(problems.items()):
        R.violation('R-INVMAP', f'clone-{sub}', f.qualname, '__copy__',
                    msg, unit=f.unit.rel, line=f.lineno)
    if not problems:
        R.holds('R-INVMAP', f.qualname,
                f'clone model ({n} managers): every table of the original '
                'in a container of its own; the original untouched')
    return n


def r_manager_copy(P, R):
    n = manager_copy_model(P, R)
    if n is not None:
        R.floor('R-INVMAP managers of the clone model', n, 4)
r_manager_copy.NAME = 'R-INVMAP(clone model)'


def json_reordering_model(P, R):
    """`dd._copy._load_json` interpreted on an empty file (which it
    refuses) and on a file of one header line, against a manager that
    records `configure`: whatever `load_order` is, whatever the way out,
    the reordering switch of the manager is afterwards what it was before
    the call (C09: dynamic reordering is still enabled afterwards; C17:
    a failed load changes nothing)."""
    f = P.func('dd._copy._load_json', required=False)
    if f is None:
        return None
    resolver = interp.ModuleEnv(P, 'dd._copy')
    prm = list(f.params)
    problems = dict()
    n = 0
    try:
        for lines in ([], ['{\n']):
            for load_order in (False, True):
                for before in (True, False):
                    n += 1
                    state = {'reordering': before}

                    def configure(m, call, args, kw):
                        old = dict(state)
                        if 'reordering' in kw:
                            state['reordering'] = kw['reordering']
                        return old
                    stubs = {'configure': configure,
                             'assert_consistent': lambda m, c, a, k: None}
                    mgr = interp.Sym('manager', {})
                    env = {prm[0]: iter(list(lines)), prm[1]: mgr,
                           prm[2]: load_order, prm[3]: dict()}
                    out, _ = interp.run_function(
                        f.node, env, stubs, resolver)
                    if state['reordering'] is not before:
                        problems.setdefault('reordering-left', (
                            f'_load_json on a file of {len(lines)} line(s) '
                            f'with load_order={load_order} ends '
                            f'({out[0]}) with reordering = '
                            f'{state["reordering"]!r}; it was {before!r} '
                            'before the call'))
    except (interp.Unknown, KeyError) as e:
        R.undecided('R-REORD', f.qualname, 'switch model', str(e))
        return None
    for sub, msg in sorted(problems.items()):
        R.violation('R-REORD', sub, f.qualname, 'configure', msg,
                    unit=f.unit.rel, line=f.lineno)
    if not problems:
        R.holds('R-REORD', f.qualname,
                f'switch model ({n} loads): the reordering switch is '
                'afterwards what it was before, on every way out')
    return n


def r_json_reordering(P, R):
    n = json_reordering_model(P, R)
    if n is not None:
        R.floor('R-REORD loads of the switch model', n, 8)
r_json_reordering.NAME = 'R-REORD(json switch model)'


def configure_model(P, R):
    """`BDD.configure(**kw)` interpreted for every listing order of a
    valid and an unknown parameter.  C17: a call that is refused (unknown
    parameter) leaves the reordering switch as it was; C09: an accepted
    call reports the switch as it was and sets it as asked."""
    import itertools
    f = P.func('dd.bdd.BDD.configure')
    stubs = ClassStubs(P, 'dd.bdd.BDD')
    resolver = interp.ModuleEnv(P, 'dd.bdd', stubs)
    kwname = f.node.args.kwarg.arg if f.node.args.kwarg else None
    if kwname is None:
        return None
    problems = dict()
    n = 0
    try:
        for last_len in (None, 100):
            for kw in ({'reordering': True}, {'reordering': False}, {},
                       {'bogus': 1}, {'reordering': True, 'bogus': 1},
                       {'bogus': 1, 'reordering': True},
                       {'reordering': False, 'bogus': 1},
                       {'bogus': 1, 'reordering': False}):
                n += 1
                base, _ = _build_manager(['a', 'b'], [], [])
                obj = _object_manager(copy.deepcopy(
                    {k: v for k, v in base.items() if k != 'self'}))
                obj.attrs['_last_len'] = last_len
                out, _ = interp.run_function(
                    f.node, {'self': obj, kwname: dict(kw)}, stubs,
                    resolver)
                what = (f'configure(**{kw}) with reordering '
                        f'{"on" if last_len is not None else "off"}')
                now = obj.attrs.get('_last_len')
                if 'bogus' in kw:
                    if out[0] != 'raise':
                        problems.setdefault('accepts-unknown', (
                            f'{what} is accepted'))
                    elif (now is None) != (last_len is None):
                        problems.setdefault('refused-but-applied', (
                            f'{what} is refused ({out[1]}) but leaves '
                            'reordering '
                            f'{"on" if now is not None else "off"}'))
                    continue
                if out[0] != 'return' or not isinstance(out[1], dict) or \
                        out[1].get('reordering') is not (
                            last_len is not None):
                    problems.setdefault('report', (
                        f'{what}: {out[0]} {out[1]!r}, not the switch as '
                        'it was'))
                elif 'reordering' in kw and (now is not None) is not \
                        kw['reordering']:
                    problems.setdefault('not-applied', (
                        f'{what} leaves reordering '
                        f'{"on" if now is not None else "off"}'))
    except (interp.Unknown, KeyError) as e:
        R.undecided('R-RAW', f.qualname, 'parameter model', str(e))
        return None
    for sub, msg in sorted(problems.items()):
        R.violation('R-RAW', f'configure-{sub}', f.qualname, 'configure',
                    msg, unit=f.unit.rel, line=f.lineno)
    if not problems:
        R.holds('R-RAW', f.qualname,
                f'parameter model ({n} calls): a refused call changes '
                'nothing, an accepted one reports and sets the switch')
    return n


def r_configure(P, R):
    n = configure_model(P, R)
    if n is not None:
        R.floor('R-RAW calls of the parameter model', n, 12)
r_configure.NAME = 'R-RAW(configure model)'


def reorder_real_model(P, R):
    """`dd.bdd.reorder(bdd, order)` and `reorder(bdd)` (sifting)
    interpreted with everything they call - real swaps, collection - on
    managers over three variables that hold referenced functions and
    nodes nobody references any more, followed by a collection.  C07 /
    C06 / C08: no refusal; the requested order holds; every referenced
    node keeps its number and its function; tables and counts are
    consistent after the reordering and after the collection; the
    collection leaves exactly the nodes below the references."""
    import itertools
    f = P.func('dd.bdd.reorder')
    cg = P.func('dd.bdd.BDD.collect_garbage')
    stubs = ClassStubs(P, 'dd.bdd.BDD', extra={
        '_request_reordering': lambda m, c, a, k: None,
        'getEffectiveLevel': lambda m, c, a, k: 100})
    resolver = interp.ModuleEnv(P, 'dd.bdd', stubs)
    names = ['a', 'b', 'c']
    rows = list(itertools.product((False, True), repeat=3))
    tts = [tuple(bool(a != b) for a, b, c in rows),
           tuple(bool(b if a else c) for a, b, c in rows),
           tuple(bool(a or b) for a, b, c in rows),
           tuple(bool(a) for a, b, c in rows),
           tuple(bool((a != b) and c) for a, b, c in rows)]
    prm = list(f.params)
    problems = dict()
    n = 0
    try:
        for start in (['a', 'b', 'c'], ['b', 'c', 'a']):
            for kept in ([0, 1, 2, 3, 4], [3], [1, 3], [0, 4], [2]):
                base, ext = _build_manager(
                    start, tts, kept, keep_garbage=True)
                for target in (['c', 'b', 'a'], ['b', 'a', 'c'],
                               ['c', 'a', 'b'], None):
                    n += 1
                    obj = _object_manager(copy.deepcopy(
                        {k: v for k, v in base.items() if k != 'self'}))
                    order = None if target is None else {
                        v: target.index(v) for v in sorted(target)}
                    out, _ = interp.run_function(
                        f.node, {prm[0]: obj, prm[1]: order}, stubs,
                        resolver)
                    what = (f'order {start}, nodes '
                            f'{base["self._succ"]}, referenced '
                            f'{sorted(ext)}: reorder('
                            f'{"sifting" if order is None else order})')
                    if out[0] == 'raise':
                        problems.setdefault('raises', (
                            f'{what}: raises {out[1]}'))
                        continue
                    if order is not None and obj.attrs['vars'] != order:
                        problems.setdefault('order-not-reached', (
                            f'{what}: ends with {obj.attrs["vars"]}'))
                        continue
                    stage = 'after the reordering'
                    bad = None
                    for step in (0, 1):
                        env = {f'self.{k}': v
                               for k, v in obj.attrs.items()}
                        bad = _manager_complaints(env, dict(ext))
                        if bad is None:
                            for r_ in ext:
                                if abs(r_) not in obj.attrs['_succ'] or \
                                        _tt_obj(obj, r_, names) != _tt_of(
                                            base, r_, names):
                                    bad = (f'the referenced node {r_} '
                                           'does not denote what it did')
                        if bad or step:
                            break
                        o2, _ = interp.run_function(
                            cg.node, {'self': obj, [
                                p_ for p_ in cg.params
                                if p_ != 'self'][0]: None}, stubs,
                            resolver)
                        stage = 'after the reordering and a collection'
                        if o2[0] == 'raise':
                            bad = f'the collection raises {o2[1]}'
                            break
                    if bad is None:
                        succ = obj.attrs['_succ']
                        live, todo = {1}, [abs(r_) for r_ in ext]
                        while todo:
                            x = todo.pop()
                            if x in live:
                                continue
                            live.add(x)
                            todo += [abs(succ[x][1]), abs(succ[x][2])]
                        if set(succ) != live:
                            bad = (f'the nodes {sorted(set(succ) - live)} '
                                   'stay although nothing refers to them')
                    if bad:
                        problems.setdefault('tables', (
                            f'{what}, {stage}: {bad}'))
    except (interp.Unknown, KeyError) as e:
        R.undecided('R-REORDER', f.qualname, 'reordering model', str(e))
        return None
    for sub, msg in sorted(problems.items()):
        R.violation('R-REORDER', f'real-{sub}', f.qualname, 'reorder', msg,
                    unit=f.unit.rel, line=f.lineno)
    if not problems:
        R.holds('R-REORDER', f.qualname,
                f'reordering model ({n} calls with real swaps, on '
                'managers that hold unreferenced nodes): order reached, '
                'references keep their functions, tables and counts '
                'consistent before and after a collection')
    return n


def r_reorder_real(P, R):
    n = reorder_real_model(P, R)
    if n is not None:
        R.floor('R-REORDER calls of the real reordering model', n, 30)
r_reorder_real.NAME = 'R-REORDER(real reordering model)'


class _ZddModel:
    """The part of CUDD that the hand-written ZDD recursions of
    dd/cudd_zdd.pyx use, as a specification: nodes (index, then, else)
    in a unique table, 0 and 1 the constants, a node whose `then` is 0
    never made by `mk` (zero suppression; `cuddUniqueInterZdd` itself
    makes what it is asked for), levels from a permutation of the
    indices."""
    CONST = 2 ** 31 - 1

    def __init__(self, perm):
        self.perm = list(perm)          # perm[index] = level
        self.n = len(perm)
        self.inv = {l: i for i, l in enumerate(perm)}
        self.nodes = dict()
        self.unique = dict()
        self.next = 2

    def mk_raw(self, index, t, e):
        k = (index, t, e)
        if k not in self.unique:
            self.unique[k] = self.next
            self.nodes[self.next] = k
            self.next += 1
        return self.unique[k]

    def mk(self, index, t, e):
        return e if t == 0 else self.mk_raw(index, t, e)

    def level(self, u):
        return self.CONST if u in (0, 1) else self.perm[self.nodes[u][0]]

    def member(self, u, a):
        """Does the family of `u` hold the set of the variables that are
        true in `a` (index -> bool)?"""
        l = 0
        while True:
            if u == 0:
                return False
            lu = self.n if u == 1 else self.level(u)
            if any(a[self.inv[k]] for k in range(l, lu)):
                return False
            if u == 1:
                return True
            i, t, e = self.nodes[u]
            u = t if a[i] else e
            l = lu + 1

    def build(self, tt, rows):
        def rec(l, a):
            if l == self.n:
                return 1 if tt[rows.index(tuple(
                    a[i] for i in range(self.n)))] else 0
            i = self.inv[l]
            a[i] = True
            t = rec(l + 1, a)
            a[i] = False
            e = rec(l + 1, a)
            del a[i]
            return self.mk(i, t, e)
        return rec(0, dict())

    def cube(self, idxs):
        r = 1
        for i in sorted(idxs, key=lambda i: -self.perm[i]):
            r = self.mk_raw(i, r, r)
        return r

    def universe(self, i):
        r = 1
        for l in range(self.n - 1, i - 1, -1):
            r = self.mk_raw(self.inv[l], r, r)
        return r

    def stubs(self):
        z = self
        c = self.CONST

        def on(fn):
            return lambda m, call, a, k: fn(*a)
        return {
            'DD_ZERO': on(lambda mgr: 0), 'DD_ONE': on(lambda mgr: 1),
            'Cudd_ReadInvPermZdd': on(
                lambda mgr, l: c if l == c else (
                    z.inv[l] if 0 <= l < z.n else -1)),
            'Cudd_ReadPermZdd': on(
                lambda mgr, i: c if i == c else (
                    z.perm[i] if 0 <= i < z.n else -1)),
            'Cudd_NodeReadIndex': on(
                lambda u: c if u in (0, 1) else z.nodes[u][0]),
            'cuddE': on(lambda u: z.nodes[u][2]),
            'cuddT': on(lambda u: z.nodes[u][1]),
            'cuddRef': on(lambda u: None),
            'cuddDeref': on(lambda u: None),
            'Cudd_RecursiveDerefZdd': on(lambda mgr, u: None),
            'cuddCacheInsert2': on(lambda *a: None),
            'cuddCacheLookup2Zdd': on(lambda *a: None),
            'cuddUniqueInterZdd': on(
                lambda mgr, i, t, e: z.mk_raw(i, t, e)),
            '__cast__': on(lambda t, v: v),
            'cuddIsConstant': on(lambda u: u in (0, 1)),
            'Cudd_IsConstant': on(lambda u: u in (0, 1)),
            'Cudd_ReadZddOne': on(lambda mgr, i: z.universe(i)),
        }


def zdd_model(P, R):
    """The hand-written recursions of dd/cudd_zdd.pyx (`_forall`,
    `_exist`, `_conjoin`, `_disjoin` with `_find_or_add`), read from the
    lowered Cython tree and interpreted against a specification of the
    CUDD primitives they call (`_ZddModel`), for every function of a
    family over three variables, two index-to-level permutations and
    every non-empty set of quantified variables.  C19: the result is the
    ZDD of the universal / existential quantification, the conjunction,
    the disjunction - the meaning `ZDD.apply` gives to its operator
    symbols through these functions."""
    import itertools
    q = 'dd.cudd_zdd.'
    fs = {k: P.func(q + k, required=False)
          for k in ('_forall', '_exist', '_conjoin', '_disjoin')}
    if any(f is None for f in fs.values()):
        if not getattr(P, 'has_cython', False):
            return None
        raise AnalysisError('dd.cudd_zdd: the hand-written recursions '
                            'vanished: ' + ', '.join(
                                k for k, f in fs.items() if f is None))
    resolver = interp.ModuleEnv(P, 'dd.cudd_zdd')
    resolver.cache['CUDD_CONST_INDEX'] = _ZddModel.CONST
    resolver.cache['NULL'] = None
    rows = list(itertools.product((False, True), repeat=3))
    tts = [tuple(bool(f(*r)) for r in rows) for f in (
        lambda a, b, c: a and b and not c, lambda a, b, c: a or c,
        lambda a, b, c: a != b, lambda a, b, c: True,
        lambda a, b, c: False, lambda a, b, c: (b if a else c),
        lambda a, b, c: not a and not b and not c, lambda a, b, c: c)]
    mgr = interp.Sym('mgr', {'reordered': 0})
    problems = dict()
    n = 0

    def run(f, z, args):
        ps = list(f.params)
        out, _ = interp.run_function(
            f.node, dict(zip(ps, [mgr] + args)), z.stubs(), resolver)
        return out

    def judge(f, z, what, out, want):
        if out[0] != 'return' or not isinstance(out[1], int):
            problems.setdefault((f, 'raises'), (
                f'{what}: {out[0]} {out[1]!r}'))
            return
        got = tuple(z.member(out[1], dict(enumerate(r))) for r in rows)
        if got != want:
            problems.setdefault((f, 'wrong-function'), (
                f'{what}: the result has the values ' + ''.join(
                    '1' if b else '0' for b in got) + ', expected '
                + ''.join('1' if b else '0' for b in want)
                + ' (rows over the indices 0, 1, 2; nodes '
                f'{z.nodes})'))
    try:
        for perm in ([0, 1, 2], [2, 0, 1]):
            for ti, tt in enumerate(tts):
                for k in (1, 2, 3):
                    for qs in itertools.combinations(range(3), k):
                        for name, allq in (('_forall', True),
                                           ('_exist', False)):
                            n += 1
                            z = _ZddModel(perm)
                            u = z.build(tt, rows)
                            out = run(fs[name], z, [0, u, z.cube(qs)])
                            want = []
                            for r in rows:
                                vals = []
                                for bits in itertools.product(
                                        (False, True), repeat=k):
                                    a = list(r)
                                    for i, b in zip(qs, bits):
                                        a[i] = b
                                    vals.append(tt[rows.index(tuple(a))])
                                want.append(all(vals) if allq
                                            else any(vals))
                            judge(fs[name], z,
                                  f'levels of the indices {perm}, '
                                  f'function {ti}, {name} over the '
                                  f'indices {qs}', out, tuple(want))
                for tj, t2 in enumerate(tts):
                    for name, fn in (('_conjoin', lambda x, y: x and y),
                                     ('_disjoin', lambda x, y: x or y)):
                        n += 1
                        z = _ZddModel(perm)
                        u, v = z.build(tt, rows), z.build(t2, rows)
                        out = run(fs[name], z, [0, u, v])
                        judge(fs[name], z,
                              f'levels of the indices {perm}, {name} of '
                              f'the functions {ti} and {tj}', out,
                              tuple(bool(fn(x, y))
                                    for x, y in zip(tt, t2)))
    except (interp.Unknown, KeyError) as e:
        R.undecided('R-OPTAB', 'dd.cudd_zdd (hand-written recursions)',
                    'ZDD model', str(e))
        return None
    rule = {'_forall': 'R-ARGS', '_exist': 'R-ARGS',
            '_conjoin': 'R-OPTAB', '_disjoin': 'R-OPTAB'}
    for (f, sub), msg in sorted(problems.items(),
                                key=lambda kv: (kv[0][0].qualname, kv[0][1])):
        R.violation(rule[f.name], f'zdd-{sub}', f.qualname, f.name, msg,
                    unit=f.unit.rel, line=f.lineno)
    if not problems:
        R.holds('R-OPTAB', 'dd.cudd_zdd (hand-written recursions)',
                f'ZDD model ({n} calls against a specification of the '
                'CUDD primitives): quantification, conjunction and '
                'disjunction have their meaning on every function of the '
                'family')
    return n


def r_zdd(P, R):
    n = zdd_model(P, R)
    if n is not None:
        R.floor('R-OPTAB calls of the ZDD model', n, 200)
r_zdd.NAME = 'R-OPTAB(ZDD model)'


def dot_model(P, R):
    """`dd.bdd._to_dot(roots, bdd)` interpreted (with `dd._utils.DotGraph`)
    on small managers: the graph it builds must show, for every node
    below the roots, one arc to the low and one to the high successor,
    in two different styles, the mark `-1` exactly on arcs to
    complemented successors, one external reference per root with its
    own mark, and a layer per level labelled with the level.  The
    legend in doc.md ("solid arcs represent the "if" branches, dashed
    arcs the "else" branches") must say the same as the styles used."""
    import itertools
    import re
    f = P.func('dd.bdd._to_dot')
    stubs = ClassStubs(P, 'dd.bdd.BDD')
    resolver = interp.ModuleEnv(P, 'dd.bdd', stubs)
    names = ['a', 'b', 'c']
    rows = list(itertools.product((False, True), repeat=3))

    def tt(fn):
        return tuple(bool(fn(*r)) for r in rows)
    funcs = [tt(lambda a, b, c: a and not b),
             tt(lambda a, b, c: (b if a else c)),
             tt(lambda a, b, c: a != c)]
    problems = dict()
    styles = dict()    # 'low' / 'high' -> set of styles seen
    n = 0
    try:
        for order in (['a', 'b', 'c'], ['b', 'c', 'a']):
            base, ext = _build_manager(order, funcs, range(len(funcs)))
            rs = sorted(ext)
            for roots in ([rs[0]], [rs[0], -rs[1]], [rs[2], -rs[2]],
                          [-rs[1]], [1], None, [-rs[1], rs[0], rs[2]]):
                n += 1
                obj = _object_manager(copy.deepcopy(
                    {k: v for k, v in base.items() if k != 'self'}))
                ps = list(f.params)
                out, _ = interp.run_function(
                    f.node, {ps[0]: (list(roots) if roots is not None
                                     else None), ps[1]: obj},
                    stubs, resolver)
                what = f'nodes {obj.attrs["_succ"]}, roots {roots}'
                if out[0] != 'return' or not isinstance(
                        out[1], interp.Sym) or not out[1].attrs:
                    problems.setdefault('raises', (
                        f'{what}: {out[0]} {out[1]!r}'))
                    continue
                g = out[1].attrs
                edges = dict()
                for (a, b), attrs_list in dict(g.get('edges', {})).items():
                    # a graph that keeps one attribute mapping per pair
                    # of nodes (instead of a list of them) shows one arc
                    if hasattr(attrs_list, 'keys'):
                        attrs_list = [attrs_list]
                    edges.setdefault(a, []).extend(
                        (b, dict(x)) for x in attrs_list)
                succ = obj.attrs['_succ']
                if roots is None:
                    shown = set(succ)
                else:
                    shown, todo = {1}, [abs(r) for r in roots]
                    while todo:
                        u = todo.pop()
                        if u in shown:
                            continue
                        shown.add(u)
                        todo += [abs(succ[u][1]), abs(succ[u][2])]
                for u in shown:
                    if u == 1:
                        continue
                    i, lo, hi = succ[u]
                    arcs = [(b, d) for b, d in edges.get(str(u), [])
                            if d.get('style') != 'invis']
                    to_lo = [d for b, d in arcs if b == str(abs(lo))]
                    to_hi = [d for b, d in arcs if b == str(abs(hi))]
                    if len(arcs) != 2:
                        problems.setdefault('arcs', (
                            f'{what}: node {u} = {succ[u]} has the arcs '
                            f'{arcs}, expected one to each successor'))
                        continue
                    if abs(lo) != abs(hi):
                        if len(to_lo) != 1 or len(to_hi) != 1:
                            problems.setdefault('arcs', (
                                f'{what}: node {u} = {succ[u]} has the '
                                f'arcs {arcs}'))
                            continue
                        dl, dh = to_lo[0], to_hi[0]
                    else:
                        marked = [d for b, d in arcs if 'taillabel' in d]
                        plain = [d for b, d in arcs
                                 if 'taillabel' not in d]
                        if lo < 0 and len(marked) == 1 and plain:
                            dl, dh = marked[0], plain[0]
                        else:
                            dl, dh = arcs[0][1], arcs[1][1]
                    styles.setdefault('low', set()).add(dl.get('style'))
                    styles.setdefault('high', set()).add(dh.get('style'))
                    if (lo < 0) != (dl.get('taillabel') == '-1') or \
                            'taillabel' in dh:
                        problems.setdefault('complement-mark', (
                            f'{what}: node {u} = {succ[u]} is drawn with '
                            f'the arcs low {dl}, high {dh}: the mark -1 '
                            'belongs on the arc to a complemented '
                            'successor and nowhere else'))
                refs = {a: arcs for a, arcs in edges.items()
                        if a.strip('"').startswith('ref')}
                if roots is not None:
                    got = sorted(
                        (b, d.get('taillabel') == '-1')
                        for arcs in refs.values() for b, d in arcs)
                    want = sorted((str(abs(r)), r < 0) for r in roots)
                    if got != want or len(refs) != len(roots):
                        problems.setdefault('unsigned-identity', (
                            f'{what}: the external references are drawn '
                            f'as {sorted(refs.items())}; one per root, '
                            'with the mark of its sign, gives '
                            f'{want}'))
    except interp.Unknown as e:
        R.undecided('R-ROLE', f.qualname, 'DOT model', str(e))
        return None
    if not problems and styles:
        lo, hi = styles.get('low', set()), styles.get('high', set())
        if len(lo) != 1 or len(hi) != 1 or lo == hi:
            problems.setdefault('styles', (
                f'arcs to low successors are drawn {sorted(lo)}, to high '
                f'successors {sorted(hi)}: the two kinds cannot be told '
                'apart'))
        else:
            # the legend of the picture in doc.md
            try:
                doc = open(P.repo + '/doc.md').read()
            except OSError:
                doc = None
            if doc is not None:
                m1 = re.search(r'(solid|dashed) arcs represent the '
                               r'[“"](if|else)[”"] branches', doc)
                m2 = re.search(r'(solid|dashed) arcs the '
                               r'[“"](if|else)[”"] branches', doc)
                if m1 and m2:
                    legend = {m1.group(2): m1.group(1),
                              m2.group(2): m2.group(1)}
                    drawn = {'else': next(iter(lo)), 'if': next(iter(hi))}
                    if legend != drawn:
                        problems.setdefault('legend', (
                            f'doc.md says {legend} (branch -> style of '
                            f'the arc); `_to_dot` draws {drawn}: a '
                            'reader who follows the legend takes the '
                            'wrong successor at every node'))
                else:
                    R.undecided('R-ROLE', 'doc.md', 'legend of the '
                                'picture', 'the two lines about solid / '
                                'dashed arcs were not found')
    keys = {'legend': ('R-ROLE', 'doc-legend', 'doc.md')}
    for sub, msg in sorted(problems.items()):
        rule, s2, where = keys.get(sub, ('R-ROLE', f'dot-{sub}',
                                         f.qualname))
        R.violation(rule, s2, where, sub, msg,
                    unit='doc.md' if sub == 'legend' else f.unit.rel,
                    line=None if sub == 'legend' else f.lineno)
    if not problems:
        R.holds('R-ROLE', f.qualname,
                f'DOT model ({n} graphs): one arc per successor in two '
                'styles, -1 on arcs to complemented successors only, one '
                'external reference per root with its sign; the legend '
                'in doc.md names the same styles')
    return n


def counting_model(P, R):
    """`BDD.count(u, nvars)` and `BDD.pick_iter(u, care_vars)` interpreted
    (with `_sat_len`, `_sat_iter`, `_enumerate_minterms`) on small
    managers, for every node in both signs.  C10: the count is the number
    of models over `nvars` variables and is refused below the size of the
    support; the assignments of `pick_iter` mention every care variable
    and every variable of the support, are pairwise different, satisfy
    the function and are as many as it has models over those
    variables."""
    import itertools
    names = ['a', 'b', 'c']
    rows = list(itertools.product((False, True), repeat=3))

    def tt(fn):
        return tuple(bool(fn(*r)) for r in rows)
    funcs = [tt(lambda a, b, c: a and not b),
             tt(lambda a, b, c: (b if a else c)),
             tt(lambda a, b, c: b != c),
             tt(lambda a, b, c: c),
             tt(lambda a, b, c: a or (b and c))]
    stubs = ClassStubs(P, 'dd.bdd.BDD')
    resolver = interp.ModuleEnv(P, 'dd.bdd', stubs)
    cnt = P.func('dd.bdd.BDD.count')
    pick = P.func('dd.bdd.BDD.pick_iter')
    problems = dict()
    n = 0
    try:
        for order, declared in ((['a', 'b', 'c'], None),
                                (['c', 'a', 'b'], None),
                                (['b', 'c', 'a'], ['a', 'b', 'c'])):
            base, ext = _build_manager(order, funcs, range(len(funcs)),
                                       declared=declared)
            succ = base['self._succ']
            refs = [s * u for u in succ for s in (1, -1)]
            for u in refs:
                t = _tt_of(base, u, names)
                support = {v for k, v in enumerate(names) if any(
                    t[i] != t[i ^ (1 << (2 - k))] for i in range(8))}
                models_sup = len({tuple(r[names.index(v)]
                                        for v in sorted(support))
                                  for r, val in zip(rows, t) if val})
                pc = [p for p in cnt.params if p != 'self']
                for nv in (None, 0, 1, 2, 3, 4, 5):
                    n += 1
                    obj = _object_manager(copy.deepcopy(
                        {k: v for k, v in base.items() if k != 'self'}))
                    out, _ = interp.run_function(
                        cnt.node, {'self': obj, pc[0]: u, pc[1]: nv},
                        stubs, resolver)
                    k = len(support)
                    what = (f'order {order}, nodes {succ}: count({u}, '
                            f'{nv}) of a function with support '
                            f'{sorted(support)}')
                    if nv is not None and nv < k:
                        if out[0] != 'raise':
                            problems.setdefault((cnt, 'count-accepts'), (
                                f'{what}: returns {out[1]} for fewer '
                                'variables than the support'))
                        continue
                    want = models_sup * 2 ** ((nv if nv is not None
                                               else k) - k)
                    if out != ('return', want):
                        problems.setdefault((cnt, 'count-wrong'), (
                            f'{what}: {out[0]} {out[1]}, expected '
                            f'{want}'))
                pp = [p for p in pick.params if p != 'self']
                care_sets = [None, set(), {'a'}, {'b', 'c'},
                             {'a', 'b', 'c'}, {'a', 'zz'}]
                for care in care_sets:
                    n += 1
                    obj = _object_manager(copy.deepcopy(
                        {k: v for k, v in base.items() if k != 'self'}))
                    out, _ = interp.run_generator(
                        pick.node, {'self': obj, pp[0]: u,
                                    pp[1]: (set(care) if care is not None
                                            else None)}, stubs, resolver)
                    what = (f'order {order}, nodes {succ}: pick_iter({u}, '
                            f'care_vars={care})')
                    if out[0] != 'yield':
                        problems.setdefault((pick, 'pick-raises'), (
                            f'{what}: {out[0]} {out[1]}'))
                        continue
                    got = out[1]
                    carev = set(care) if care is not None else set(support)
                    extra = sorted(carev - set(names))
                    allv = names + extra
                    space = list(itertools.product(
                        (False, True), repeat=len(allv)))
                    covered = dict()
                    bad = None
                    for d in got:
                        if not isinstance(d, dict) or not (
                                carev <= set(d) <= set(allv)):
                            bad = (f'the assignment {d} does not mention '
                                   f'every care variable {sorted(carev)}')
                            break
                        for pt in space:
                            val = dict(zip(allv, pt))
                            if any(val[k] != v for k, v in d.items()):
                                continue
                            if pt in covered:
                                bad = (f'the assignments {covered[pt]} '
                                       f'and {d} overlap')
                                break
                            covered[pt] = d
                            if not t[rows.index(tuple(
                                    val[v] for v in names))]:
                                bad = (f'the assignment {d} does not '
                                       'satisfy the function however '
                                       'completed')
                                break
                        if bad:
                            break
                    if bad is None:
                        want_pts = {pt for pt in space if t[rows.index(
                            tuple(dict(zip(allv, pt))[v] for v in names))]}
                        if set(covered) != want_pts:
                            bad = (f'the {len(got)} assignments cover '
                                   f'{len(covered)} of the '
                                   f'{len(want_pts)} models over {allv}')
                        elif carev >= support and any(
                                set(d) != carev for d in got):
                            bad = ('an assignment mentions a variable '
                                   'outside the care set, which covers '
                                   'the support')
                    if bad:
                        problems.setdefault((pick, 'pick-wrong'),
                                            f'{what}: {bad}')
    except interp.Unknown as e:
        R.undecided('R-VISIT', 'dd.bdd.BDD (count, pick_iter)',
                    'counting model', str(e))
        return None
    for (f, sub), msg in sorted(problems.items(),
                                key=lambda kv: (kv[0][0].qualname,
                                                kv[0][1])):
        R.violation('R-VISIT', sub, f.qualname, f.name, msg,
                    unit=f.unit.rel, line=f.lineno)
    if not problems:
        R.holds('R-VISIT', 'dd.bdd.BDD (count, pick_iter)',
                f'counting model ({n} calls on 3 managers): count = '
                'number of models over nvars variables, refused below '
                'the support; pick_iter = the models over support and '
                'care variables, each once')
    return n


def levels_model(P, R):
    """`BDD._levels()` interpreted on small managers, among them managers
    with nodes that nothing refers to and one whose `vars` lists the
    names in another order than the levels: the index has one entry per
    variable level (none for the terminal's) holding exactly the nodes
    stored at that level - every node of the table, referenced or not -
    in sets of its own."""
    import itertools
    f = P.func('dd.bdd.BDD._levels')
    stubs = ClassStubs(P, 'dd.bdd.BDD')
    resolver = interp.ModuleEnv(P, 'dd.bdd', stubs)
    names = ['a', 'b', 'c']
    rows = list(itertools.product((False, True), repeat=3))

    def tt(fn):
        return tuple(bool(fn(*r)) for r in rows)
    funcs = [tt(lambda a, b, c: a and not b),
             tt(lambda a, b, c: (b if a else c)),
             tt(lambda a, b, c: b != c)]
    cases = [(['a', 'b', 'c'], [0, 1, 2], False, None),
             (['c', 'a', 'b'], [0], True, None),
             (['b', 'c', 'a'], [1], True, ['a', 'b', 'c']),
             (['a', 'b', 'c'], [], False, None)]
    bad = None
    n = 0
    for order, externals, garbage, declared in cases:
        n += 1
        base, ext = _build_manager(order, funcs, externals, garbage,
                                   declared)
        obj = _object_manager(copy.deepcopy(
            {k: v for k, v in base.items() if k != 'self'}))
        try:
            out, _ = interp.run_function(f.node, {'self': obj}, stubs,
                                         resolver)
        except interp.Unknown as e:
            R.undecided('R-LEVELSET', f.qualname, 'levels model', str(e))
            return None
        succ = obj.attrs['_succ']
        want = {k: set() for k in obj.attrs['vars'].values()}
        for u, t in succ.items():
            if u != 1:
                want[t[0]].add(u)
        what = f'variables {obj.attrs["vars"]}, nodes {succ}'
        if out[0] != 'return' or not isinstance(out[1], dict):
            bad = f'{what}: {out[0]} {out[1]!r}'
        elif {k: set(v) for k, v in out[1].items()} != want:
            bad = (f'{what}: _levels() gives {out[1]}; the nodes are at '
                   f'{want}: swap pops and rewrites the unique-table '
                   'entries of the listed nodes only, so an unlisted node '
                   'keeps its old (level, low, high) key and collides '
                   'with a moved one')
        elif len({id(v) for v in out[1].values()}) != len(out[1]):
            bad = f'{what}: two levels share one set object'
        if bad:
            break
    if bad:
        R.violation('R-LEVELSET', 'index-incomplete', f.qualname,
                    '_levels', bad, unit=f.unit.rel, line=f.lineno)
    else:
        R.holds('R-LEVELSET', f.qualname,
                f'levels model ({n} managers): one entry per variable '
                'level with exactly the nodes stored there, referenced '
                'or not')
    return n


def wrapper_model(P, R):
    """The wrapper that `_try_to_reorder` puts around an operation,
    interpreted with a recording operation and a recording `reorder`:
    an operation that succeeds is called once and nothing else happens;
    a request for reordering from the outermost decorated call is served
    (requests switched off while `reorder` runs, the operation repeated
    with the same arguments, requests switched on again also when the
    repetition raises); a request inside a nested decorated call is
    passed on; any other exception is passed on; the nesting flag is
    restored on every way out."""
    outer = P.func('dd.bdd._try_to_reorder')
    wrappers = [n for n in outer.node.body
                if isinstance(n, ast.FunctionDef)]
    if len(wrappers) != 1:
        raise AnalysisError('dd.bdd._try_to_reorder: expected one nested '
                            'wrapper function')
    w = wrappers[0]
    resolver = interp.ModuleEnv(P, 'dd.bdd')
    problems = dict()
    n = 0
    scenarios = [
        ('the operation succeeds', False, ['ok']),
        ('the operation asks for reordering, then succeeds', False,
         ['need', 'ok']),
        ('a nested call asks for reordering', True, ['need']),
        ('the operation raises ValueError', False, ['error']),
        ('the operation asks for reordering, then raises ValueError',
         False, ['need', 'error']),
    ]
    try:
        for what, nested, script in scenarios:
            n += 1
            bdd = interp.Sym('bdd', {'_reordering_context': nested,
                                     '_last_len': 5})
            log = []
            todo = list(script)

            def func(*args, **kw):
                log.append(('call', args[1:], tuple(sorted(kw.items())),
                            bdd.attrs['_last_len'],
                            bdd.attrs['_reordering_context']))
                step = todo.pop(0) if todo else 'ok'
                if step == 'need':
                    raise interp.Raised('_NeedsReordering')
                if step == 'error':
                    raise interp.Raised('ValueError')
                return 42

            def reorder(m, call, args, kw):
                log.append(('reorder', bdd.attrs['_last_len']))
                return None
            stubs = {'reorder': reorder,
                     '__len__': lambda m, c, a, k: 10}
            a = w.args
            env = {'func': func, a.args[0].arg: bdd}
            if a.vararg:
                env[a.vararg.arg] = (3, 4)
            if a.kwarg:
                env[a.kwarg.arg] = {'k': 1}
            out, _ = interp.run_function(w, env, stubs, resolver)
            calls = [x for x in log if x[0] == 'call']
            reorders = [x for x in log if x[0] == 'reorder']
            flag = bdd.attrs['_reordering_context']
            last = bdd.attrs['_last_len']
            bad = None
            if flag is not nested:
                bad = (f'the nesting flag is left {flag!r} (was '
                       f'{nested!r})')
            elif any(c[1] != (3, 4) or c[2] != (('k', 1),)
                     for c in calls):
                bad = (f'the operation is called with {calls}: not the '
                       'arguments of the call')
            elif any(not c[4] for c in calls):
                bad = ('the operation runs with the nesting flag off: a '
                       'decorated call inside it would serve requests')
            elif script == ['ok']:
                if out != ('return', 42) or len(calls) != 1 or reorders \
                        or last != 5:
                    bad = (f'result {out}, {len(calls)} call(s), '
                           f'{len(reorders)} reordering(s), _last_len '
                           f'{last}')
            elif script == ['need', 'ok']:
                if out != ('return', 42) or len(calls) != 2 or \
                        len(reorders) != 1:
                    bad = (f'result {out}, {len(calls)} call(s), '
                           f'{len(reorders)} reordering(s)')
                elif reorders[0][1] is not None:
                    bad = ('reorder() runs while requests are still '
                           'enabled (`_last_len` not None): swap itself '
                           'raises the signal')
                elif calls[1][3] is not None:
                    bad = ('the repetition runs with requests enabled: '
                           'it can ask again, for ever')
                elif last is None:
                    bad = ('requests stay switched off after the call '
                           '(`_last_len` is None): dynamic reordering is '
                           'disabled from now on')
            elif script == ['need']:
                if out != ('raise', '_NeedsReordering') or reorders or \
                        len(calls) != 1:
                    bad = (f'result {out}, {len(reorders)} '
                           'reordering(s): a nested call must pass the '
                           'request on to the outermost one')
            elif script == ['error']:
                if out != ('raise', 'ValueError') or reorders or \
                        last != 5 or len(calls) != 1:
                    bad = f'result {out}, _last_len {last}'
            elif script == ['need', 'error']:
                if out != ('raise', 'ValueError') or len(reorders) != 1:
                    bad = f'result {out}, {len(reorders)} reordering(s)'
                elif last is None:
                    bad = ('the repetition raised and requests stay '
                           'switched off (`_last_len` is None)')
            if bad:
                problems.setdefault('protocol', f'{what}: {bad}')
    except interp.Unknown as e:
        R.undecided('R-REORD', outer.qualname + '._wrapper',
                    'wrapper model', str(e))
        return None
    q = outer.qualname + '._wrapper'
    for sub, msg in sorted(problems.items()):
        R.violation('R-REORD', sub, q, 'wrapper', msg,
                    unit=outer.unit.rel, line=w.lineno)
    if not problems:
        R.holds('R-REORD', q,
                f'wrapper model ({n} scenarios): one call when it '
                'succeeds; a request from the outermost call is served '
                'with requests off, same arguments, requests on again '
                'whatever the repetition does; nested requests and other '
                'exceptions passed on; nesting flag restored')
    return n


def tempdir_model(P, R):
    """`dd._copy.dump_json` and `load_json` interpreted with recording
    models of the directory calls, the shelf, the file and the worker
    (`_dump_json` / `_load_json`): the temporary directory is created
    once and removed on every way out - also when the file cannot be
    opened and when the worker raises - and it is not touched when it
    could not be created (it is then someone else's)."""
    resolver = interp.ModuleEnv(P, 'dd._copy')
    problems = dict()
    n = 0
    try:
        for q, worker in (('dd._copy.dump_json', '_dump_json'),
                          ('dd._copy.load_json', '_load_json')):
            f = P.func(q)
            for scenario in ('fine', 'open-fails', 'worker-fails',
                             'mkdir-fails'):
                n += 1
                log = []

                def makedirs(m, c, a, k):
                    log.append('makedirs')
                    if scenario == 'mkdir-fails':
                        raise interp.Raised('FileExistsError')

                def rmtree(m, c, a, k):
                    log.append('rmtree')

                def open_(m, c, a, k):
                    log.append('open')
                    if scenario == 'open-fails':
                        raise interp.Raised('FileNotFoundError')
                    return interp.Sym('file')

                def work(m, c, a, k):
                    log.append('work')
                    if scenario == 'worker-fails':
                        raise interp.Raised('ValueError')
                    return ['loaded']
                stubs = {
                    'makedirs': makedirs, 'rmtree': rmtree, 'open': open_,
                    worker: work, 'join': lambda m, c, a, k: 'tmp/shelf',
                    '_open_shelf': lambda m, c, a, k: interp.Sym('shelf'),
                }
                env = {p: interp.Sym(p) for p in f.params}
                out, _ = interp.run_function(f.node, env, stubs, resolver)
                made = log.count('makedirs')
                removed = log.count('rmtree')
                what = f'{q}, {scenario}: calls {log}'
                if scenario == 'mkdir-fails':
                    if out[0] != 'raise' or removed or 'work' in log:
                        problems.setdefault((f, 'rmtree'), (
                            f'{what}: the directory could not be created '
                            '(it exists: another dump or load is using '
                            'it) and is removed or used all the same'))
                    continue
                if made != 1 or removed != 1 or \
                        log.index('rmtree') < log.index('makedirs'):
                    problems.setdefault((f, 'makedirs'), (
                        f'{what}: the temporary directory is created '
                        f'{made} time(s) and removed {removed} time(s): '
                        'when it stays, every later JSON dump or load '
                        'fails with FileExistsError'))
                    continue
                if 'work' in log and log.index('rmtree') < log.index(
                        'work'):
                    problems.setdefault((f, 'rmtree'), (
                        f'{what}: the directory is removed before the '
                        'work is done'))
                want = {'fine': 'return', 'open-fails': 'raise',
                        'worker-fails': 'raise'}[scenario]
                if out[0] not in (want, 'fall' if want == 'return'
                                  else want):
                    problems.setdefault((f, 'swallowed'), (
                        f'{what}: ends with {out}'))
    except interp.Unknown as e:
        R.undecided('R-PAIR', 'dd._copy (temporary directory)',
                    'temporary directory model', str(e))
        return None
    for (f, sub), msg in sorted(problems.items(),
                                key=lambda kv: (kv[0][0].qualname,
                                                kv[0][1])):
        R.violation('R-PAIR', 'tempdir-leak', f.qualname, sub, msg,
                    unit=f.unit.rel, line=f.lineno)
    if not problems:
        R.holds('R-PAIR', 'dd._copy (temporary directory)',
                f'temporary directory model ({n} runs): created once, '
                'removed on every way out, left alone when it could not '
                'be created')
    return n
