"""R-REORD: the dynamic-reordering protocol and raw paths to find_or_add."""
import ast

from .. import astutil as au
from ..callgraph import CallGraph
from ..frontend import AnalysisError

DECORATOR = '_try_to_reorder'
ANCHORS = ['var', 'reduction', 'compose', 'rename', 'cofactor', 'quantify',
           'ite', 'add_expr', 'cube']
TARGET = 'dd.bdd.BDD.find_or_add'
# entries whose route to find_or_add is not raw, one reason each
JUSTIFIED = {
    'dd._copy.load_json':
        'reaches reorder() only through _store_line under load_order, the '
        'flag under which _load_json first calls '
        'configure(reordering=False); its node creation goes through '
        'autoref methods that delegate to decorated dd.bdd methods or is '
        'listed separately (dd.autoref.BDD.find_or_add)',
    'dd._copy.copy_bdd': 'every call goes through a decorated method and '
                         'every intermediate is a Function',
    'dd._copy.copy_bdds_from': 'as dd._copy.copy_bdd',
    'dd._copy.copy_zdd': 'as dd._copy.copy_bdd',
}


def decorated(f):
    return DECORATOR in f.decorators


def protocol(P, R):
    """The retry protocol of the decorator: decided on the wrapper model
    (rules/models.py), whatever the wrapper is built from (the context
    manager class, an explicit try / except / finally)."""
    from . import models
    models.wrapper_model(P, R)
    if P.func('dd.bdd._ReorderingContext.__enter__',
              required=False) is None or P.func(
                  'dd.bdd._ReorderingContext.__exit__',
                  required=False) is None:
        return
    # context manager: interpreted over every state of a small model
    # (ddverif/interp.py) - how its conditions are written does not matter
    from .. import interp
    ent = P.func('dd.bdd._ReorderingContext.__enter__')
    ex = P.func('dd.bdd._ReorderingContext.__exit__')
    SIGNAL = interp.Sym('_NeedsReordering')
    OTHER = interp.Sym('ValueError')
    ex_params = [p for p in ex.params if p != 'self']
    problems_enter, problems_exit = [], []
    undecided = None
    n_models = 0
    for outer in (False, True):          # flag when the context is entered
        env = {'self.bdd._reordering_context': outer,
               'self.nested': None, 'self.bdd': interp.Sym('bdd'),
               '_NeedsReordering': SIGNAL}
        try:
            out, m = interp.run_function(ent.node, env)
        except interp.Unknown as e:
            undecided = f'__enter__: {e}'
            break
        if m.env.get('self.bdd._reordering_context') is not True:
            problems_enter.append('the flag is not set while inside')
        saved_key = [k for k, v in m.env.items()
                     if k.startswith('self.') and k not in (
                         'self.bdd._reordering_context', 'self.bdd')
                     and v is outer]
        if not saved_key:
            problems_enter.append(
                'the value the flag had before is not kept')
        for exc in (None, SIGNAL, OTHER):
            n_models += 1
            env2 = dict(m.env)
            for prm, val in zip(ex_params, (exc, None, None)):
                env2[prm] = val
            try:
                out2, m2 = interp.run_function(ex.node, env2)
            except interp.Unknown as e:
                undecided = f'__exit__: {e}'
                break
            if out2[0] == 'raise':
                problems_exit.append(('restore', f'__exit__ raises '
                                      f'{out2[1]} itself'))
                continue
            if m2.env.get('self.bdd._reordering_context') is not outer:
                problems_exit.append((
                    'restore',
                    'the nesting flag is not put back to what it was '
                    f'before the context (entered with {outer}, exception '
                    f'{exc})'))
            suppressed = bool(out2[1]) if out2[0] == 'return' else False
            want = (exc is SIGNAL) and not outer
            if suppressed and not want:
                problems_exit.append((
                    'suppress',
                    f'an exception ({exc}) is swallowed when the context '
                    f'was entered with the flag {outer}: only the '
                    'reordering signal, and only at the outermost level, '
                    'may be'))
            if want and not suppressed:
                problems_exit.append((
                    'suppress',
                    'the reordering signal is not suppressed at the '
                    'outermost level: it reaches the caller'))
        if undecided:
            break
    if undecided:
        R.undecided('R-REORD', ex.qualname, 'context manager', undecided)
    else:
        if problems_enter:
            R.violation('R-REORD', 'context', ent.qualname, 'enter',
                        '; '.join(sorted(set(problems_enter))),
                        unit=ent.unit.rel, line=ent.lineno)
        else:
            R.holds('R-REORD', ent.qualname,
                    'saves the flag, then sets it (both states)')
        for sub in ('restore', 'suppress'):
            msgs = sorted({m for k, m in problems_exit if k == sub})
            if msgs:
                R.violation(
                    'R-REORD', 'context', ex.qualname, sub,
                    '; '.join(msgs) + (
                        ': after an exception the manager stays marked as '
                        'inside a decorated call and reordering is never '
                        'served again' if sub == 'restore' else ''),
                    unit=ex.unit.rel, line=ex.lineno)
            else:
                R.holds('R-REORD', ex.qualname,
                        ('the saved flag is restored on every exit'
                         if sub == 'restore' else
                         'suppresses only _NeedsReordering, only at the '
                         f'outermost level') + f' ({n_models} models)')
    # the request: raised exactly when enabled and the threshold is
    # reached
    rq = P.func('dd.bdd._request_reordering')
    prm = rq.params[0] if rq.params else 'bdd'
    fac = P.unit('dd.bdd').tree
    factor = None
    for st in fac.body:
        if isinstance(st, ast.Assign) and au.is_name(
                st.targets[0], 'REORDER_FACTOR'):
            factor = au.const_int(st.value)
        if isinstance(st, ast.AnnAssign) and au.is_name(
                st.target, 'REORDER_FACTOR') and st.value is not None:
            factor = au.const_int(st.value)
    bad = None
    und = None
    nm = 0
    if factor is None:
        und = 'REORDER_FACTOR is not an integer constant'
    else:
        for last in (None, 1, 2, 3):
            for size in range(1, 9):
                nm += 1
                env = {prm: tuple(range(size)),
                       f'{prm}._last_len': last,
                       'REORDER_FACTOR': factor}
                try:
                    out, m = interp.run_function(rq.node, env)
                except interp.Unknown as e:
                    und = str(e)
                    break
                raised = out[0] == 'raise'
                want = last is not None and size >= factor * last
                if raised != want and bad is None:
                    bad = (last, size, raised)
            if und:
                break
    if und:
        R.undecided('R-REORD', rq.qualname, 'request', und)
    elif bad:
        last, size, raised = bad
        R.violation(
            'R-REORD', 'request', rq.qualname, 'disabled',
            f'with _last_len = {last} and {size} nodes a request is '
            + ('raised' if raised else 'not raised')
            + ': requests are due exactly when reordering is enabled '
            f'(_last_len is not None) and len(bdd) >= {factor} * '
            '_last_len', unit=rq.unit.rel, line=rq.lineno)
    else:
        R.holds('R-REORD', rq.qualname,
                f'a request is raised exactly when enabled and the '
                f'threshold is reached ({nm} models)')
    foa = P.func(TARGET)
    first = [s for s in foa.node.body if not (
        isinstance(s, ast.Expr) and isinstance(s.value, ast.Constant))][0]
    if isinstance(first, ast.Expr) and au.call_name(
            first.value) == '_request_reordering':
        R.holds('R-REORD', foa.qualname, 'the request is raised before '
                'anything is written')
    else:
        R.violation(
            'R-REORD', 'request', foa.qualname, 'first',
            'find_or_add no longer starts with _request_reordering(self): '
            'a request raised later leaves a half-inserted node',
            unit=foa.unit.rel, line=foa.lineno)
    # configure(reordering=True/False) arms / disarms
    cf = P.func('dd.bdd.BDD.configure')
    text = au.src(cf.node).replace(' ', '')
    if 'self._last_len=max(REORDER_STARTS,len(self))' in text and \
            'self._last_len=None' in text and \
            'reordering=self._last_lenisnotNone' in text:
        R.holds('R-REORD', cf.qualname, 'reports and sets the threshold')
    else:
        R.undecided('R-REORD', cf.qualname, 'configure', 'unrecognised')


def decorated_set(P, R, only=None):
    for name in ANCHORS:
        if only is not None and name not in only:
            continue
        f = P.func(f'dd.bdd.BDD.{name}')
        if decorated(f):
            R.holds('R-REORD', f.qualname, 'served by _try_to_reorder')
        else:
            R.violation(
                'R-REORD', 'decorator-missing', f.qualname, name,
                f'BDD.{name} is no longer wrapped by _try_to_reorder: a '
                'reordering request raised inside it escapes to the '
                'caller (or is served by an outer call that collects its '
                'intermediates)', unit=f.unit.rel, line=f.lineno)


def public_entries(P):
    out = []
    for mod in ('dd.bdd', 'dd.autoref', 'dd._copy'):
        u = P.units[mod]
        for q, f in u.funcs.items():
            rest = q[len(mod) + 1:].split('.')
            if len(rest) == 1:
                if not rest[0].startswith('_'):
                    out.append(f)
            elif len(rest) == 2:
                cls, name = rest
                if cls.startswith('_'):
                    continue
                if mod == 'dd._copy':
                    continue
                if not name.startswith('_') or (
                        name.startswith('__') and name.endswith('__')
                        and name not in ('__init__', '__del__',
                                         '__str__', '__repr__')):
                    out.append(f)
    return out


def raw_path(G, P, entry):
    """A path entry -> ... -> find_or_add through undecorated frames."""
    if decorated(entry):
        return None
    if entry.qualname == TARGET:
        return [TARGET]
    seen = {entry.qualname}
    stack = [(entry.qualname, [entry.qualname])]
    while stack:
        q, path = stack.pop()
        for e in G.out.get(q, []):
            c = e.callee
            if c is None or c in seen:
                continue
            cf = P.func(c, required=False)
            if cf is None:
                continue
            if c == TARGET:
                return path + [c]
            if decorated(cf):
                continue
            seen.add(c)
            stack.append((c, path + [c]))
    return None


def raw_entries(P, R):
    G = CallGraph(P)
    R.counters.update({f'calls {k}': v for k, v in G.stats().items()})
    entries = public_entries(P)
    n_raw = 0
    for f in sorted(entries, key=lambda f: f.qualname):
        path = raw_path(G, P, f)
        if path is None:
            R.holds('R-REORD', f.qualname,
                    'no undecorated route to find_or_add',
                    nontrivial=decorated(f))
            continue
        if f.qualname in JUSTIFIED:
            R.holds('R-REORD', f.qualname,
                    f'route {" -> ".join(path)} is justified: '
                    f'{JUSTIFIED[f.qualname]}')
            continue
        n_raw += 1
        R.violation(
            'R-REORD', 'raw-entry', f.qualname, 'find_or_add',
            'public entry reaches find_or_add outside _try_to_reorder: '
            + ' -> '.join(path) + '; with dynamic reordering enabled the '
            'reordering signal escapes to the caller or intermediates are '
            'collected mid-way', unit=f.unit.rel, line=f.lineno,
            path=' -> '.join(path))
    R.floor('R-REORD public entries examined', len(entries), 80)
    return n_raw


INTERNAL_CALLS = {'reorder', 'len', 'info', 'debug', 'warning',
                  'getLogger', 'max', 'min'}


def is_disable(s):
    """`X._last_len = None` or `X.configure(reordering=False)`."""
    if isinstance(s, ast.Assign) and len(s.targets) == 1:
        ch = au.chain(s.targets[0])
        if ch and ch[-1] == '_last_len' and isinstance(
                s.value, ast.Constant) and s.value.value is None:
            return True
    for c in au.calls_in(s, 'configure'):
        for k in c.keywords:
            if k.arg == 'reordering' and isinstance(
                    k.value, ast.Constant) and k.value.value is False:
                return True
    return False


def is_restore(s):
    if isinstance(s, ast.Assign) and len(s.targets) == 1:
        ch = au.chain(s.targets[0])
        if ch and ch[-1] == '_last_len' and not (isinstance(
                s.value, ast.Constant) and s.value.value is None):
            return True
    for c in au.calls_in(s, 'configure'):
        for k in c.keywords:
            if k.arg == 'reordering' and not (isinstance(
                    k.value, ast.Constant) and k.value.value is False):
                return True
    return False


def restore_flags(P, R):
    """A function that switches dynamic reordering off for the duration of
    some work and switches it on again afterwards must do the latter on
    every exit: the work in between contains user-level operations that
    may be rejected (an undeclared variable in the retried call, an
    unreadable file), and a rejected call must leave reordering as it
    was."""
    from .. import scope
    mods = {'dd.bdd', 'dd._copy', 'dd.autoref', 'dd.mdd'}
    n = 0
    for f in sorted(P.all_funcs(mods), key=lambda f: f.qualname):
        fn = f.node
        au.set_parents(fn)
        stmts = [s for s in au.walk_no_defs(fn)
                 if isinstance(s, ast.stmt) and s is not fn]
        dis = [s for s in stmts if not isinstance(
            s, (ast.If, ast.For, ast.While, ast.Try, ast.With))
            and is_disable(s)]
        res = [s for s in stmts if not isinstance(
            s, (ast.If, ast.For, ast.While, ast.Try, ast.With))
            and is_restore(s)]
        if not dis or not res:
            continue
        d = min(dis, key=lambda s: s.lineno)
        later = [s for s in res if s.lineno > d.lineno]
        if not later:
            continue
        n += 1

        def in_finally(s):
            p, child = getattr(s, '_parent', None), s
            while p is not None and p is not fn:
                if isinstance(p, ast.Try) and any(
                        child is x or any(child is y for y in ast.walk(x))
                        for x in p.finalbody):
                    return p
                child, p = p, getattr(p, '_parent', None)
            return None
        tries = [t for t in (in_finally(s) for s in later) if t is not None]
        # the restored value is the saved one, not the record it came in
        for s in later:
            for c in au.calls_in(s, 'configure'):
                for k in c.keywords:
                    if k.arg != 'reordering' or not isinstance(
                            k.value, ast.Name):
                        continue
                    src = au.assignments_to(fn, k.value.id)
                    if len(src) == 1 and isinstance(
                            src[0].value, ast.Call) and au.call_name(
                                src[0].value) == 'configure':
                        R.violation(
                            'R-REORD', 'restore-value', f.qualname,
                            k.value.id,
                            f'`{au.short(c, 50)}` passes back the whole '
                            'dictionary that configure() returned, which '
                            'is truthy whatever it says: reordering is '
                            'switched ON after the work also when it was '
                            'off before', unit=f.unit.rel, line=c.lineno)
        if not tries:
            R.violation(
                'R-REORD', 'restore-on-error', f.qualname, 'restore',
                f'`{au.short(d, 50)}` (line {d.lineno}) switches dynamic '
                f'reordering off and `{au.short(later[-1], 50)}` (line '
                f'{later[-1].lineno}) switches it on again, but not in a '
                '`finally`: when the work in between is rejected (an '
                'error in the retried operation, an unreadable file) '
                'the manager is left with dynamic reordering disabled',
                unit=f.unit.rel, line=later[-1].lineno)
            continue
        t = tries[0]
        # everything that may be rejected lies inside the try
        outside = []
        for s in stmts:
            if not (d.lineno < s.lineno < t.lineno):
                continue
            if isinstance(s, (ast.If, ast.For, ast.While, ast.With,
                              ast.Try)):
                continue
            names = {au.call_name(c) for c in au.calls_in(s)} - {None}
            if names - INTERNAL_CALLS:
                outside.append(s)
        if outside:
            R.violation(
                'R-REORD', 'restore-on-error', f.qualname, 'unprotected',
                f'`{au.short(outside[0], 50)}` runs after reordering was '
                'switched off and before the `try` whose `finally` '
                'switches it on again', unit=f.unit.rel,
                line=outside[0].lineno)
        else:
            R.holds('R-REORD', f.qualname,
                    'dynamic reordering is switched off for the work and '
                    'on again in a `finally`')
    R.floor('R-REORD functions that switch reordering off and on', n, 2)


def r_reord(P, R):
    au.set_parents(P.func('dd.bdd._ReorderingContext.__exit__').node)
    protocol(P, R)
    decorated_set(P, R)
    raw_entries(P, R)
    restore_flags(P, R)
r_reord.NAME = 'R-REORD'


def r_context(P, R):
    """Only the protocol / context-manager part (used by C17)."""
    au.set_parents(P.func('dd.bdd._ReorderingContext.__exit__').node)
    protocol(P, R)
    restore_flags(P, R)
r_context.NAME = 'R-REORD(context restores its flag)'


# ----------------------------------------------------------- retry hazards
LEVEL_CALLS = {'level_of_var', '_map_to_level', '_top_var'}
CONSUMERS = {'set', 'list', 'tuple', 'sorted', 'any', 'all', 'map',
             'filter', 'frozenset', 'dict', 'enumerate', 'zip', 'iter',
             'sum', 'min', 'max', 'next'}


def level_valued(e):
    """Expression that evaluates to level(s) of the current order."""
    if isinstance(e, ast.Call):
        name = au.call_name(e)
        if name in LEVEL_CALLS:
            return True
        if name == 'support':
            for k in e.keywords:
                if k.arg == 'as_levels' and not (isinstance(
                        k.value, ast.Constant) and not k.value.value):
                    return True
            if len(e.args) >= 2 and not (isinstance(
                    e.args[1], ast.Constant) and not e.args[1].value):
                return True
    if isinstance(e, ast.Subscript):
        ch = au.chain(e.value)
        if ch and ch[-1] == 'vars':
            return True
    if isinstance(e, (ast.SetComp, ast.ListComp, ast.DictComp)):
        parts = [e.key, e.value] if isinstance(e, ast.DictComp) else [e.elt]
        return any(level_valued(x) for x in parts)
    return False


def stale_levels(P, R):
    """Levels computed outside a decorated call must not be passed into
    it: the retry after a reordering would use the old numbers."""
    G = CallGraph(P)
    n = 0
    for f in sorted(P.all_funcs({'dd.bdd', 'dd.autoref', 'dd._copy',
                                 'dd._parser'}), key=lambda f: f.qualname):
        if decorated(f):
            continue
        edges = [e for e in G.out.get(f.qualname, [])
                 if e.callee and e.call is not None]
        dec_calls = [e for e in edges if (P.func(
            e.callee, required=False) and decorated(P.func(e.callee)))]
        if not dec_calls:
            continue
        # locals holding levels
        lv = set()
        for node in au.walk_no_defs(f.node):
            if isinstance(node, ast.Assign) and level_valued(node.value):
                lv |= au.assigned_names(node)
        for e in dec_calls:
            n += 1
            args = list(e.call.args) + [k.value for k in e.call.keywords]
            bad = [a for a in args if level_valued(a) or (
                au.names_loaded(a) & lv and not isinstance(a, ast.Call))]
            if bad:
                R.violation(
                    'R-REORD', 'stale-level', f.qualname,
                    e.callee.rsplit('.', 1)[-1],
                    f'`{au.short(e.call, 70)}` passes '
                    f'`{au.short(bad[0])}`, a level computed before the '
                    f'call, to the decorated {e.callee}: if a reordering '
                    'request is served inside it, the retry runs with '
                    'level numbers of the old order (other variables)',
                    unit=f.unit.rel, line=e.call.lineno)
    R.holds('R-REORD', 'undecorated callers',
            f'{n} call(s) from undecorated frames into decorated methods '
            'pass no level computed outside the retry scope')
    R.floor('R-REORD calls into decorated methods', n, 5)


def one_shot(P, R):
    """A decorated method that consumes an iterable argument sees it
    exhausted when it is retried (F11)."""
    for name in ANCHORS:
        f = P.func(f'dd.bdd.BDD.{name}')
        if not decorated(f):
            continue
        for a in f.node.args.args:
            ann = au.src(a.annotation) if a.annotation is not None else ''
            if 'Iterable' not in ann:
                continue
            uses = []
            for node in au.walk_no_defs(f.node):
                if isinstance(node, ast.Call) and au.call_name(
                        node) in CONSUMERS and any(
                            au.is_name(x, a.arg) for x in node.args):
                    uses.append(node)
                if isinstance(node, ast.comprehension) and au.is_name(
                        node.iter, a.arg):
                    uses.append(node.iter)
                if isinstance(node, ast.For) and au.is_name(
                        node.iter, a.arg):
                    uses.append(node.iter)
            uses.sort(key=lambda x: (x.lineno, x.col_offset))
            if uses:
                R.violation(
                    'R-REORD', 'one-shot-argument', f.qualname, a.arg,
                    f'`{a.arg}` is declared as an Iterable and is consumed '
                    f'inside the decorated method '
                    f'(`{au.short(getattr(uses[0], "_parent", uses[0]), 60)}`): '
                    'when a reordering request is served, the retry '
                    'receives the same, already exhausted iterator and '
                    'computes with an empty collection',
                    unit=f.unit.rel, line=f.lineno)
            else:
                R.holds('R-REORD', f.qualname,
                        f'iterable argument `{a.arg}` is not consumed '
                        'before the retry scope')


def live_levels(P, R):
    """Loops that reorder must read levels from the manager, not from a
    snapshot taken before the loop."""
    for q in ('dd.bdd.reorder_to_pairs', 'dd.bdd._sort_to_order',
              'dd.bdd._reorder_var', 'dd.bdd._apply_sifting'):
        f = P.func(q)
        snap = dict()
        for node in f.node.body:
            if isinstance(node, ast.Assign) and isinstance(
                    node.targets[0], ast.Name):
                v = au.src(node.value).replace(' ', '')
                if v.endswith('.var_levels') or v in (
                        'dict(bdd.vars)', 'bdd.vars.copy()',
                        'dict(bdd._level_to_var)'):
                    snap[node.targets[0].id] = node
        loops = [x for x in au.walk_no_defs(f.node)
                 if isinstance(x, (ast.For, ast.While)) and any(
                     au.call_name(c) in ('swap', '_shift', 'reorder',
                                         '_reorder_var')
                     for c in au.calls_in(x))]
        bad = None
        for lp in loops:
            for x in ast.walk(lp):
                if isinstance(x, ast.Subscript) and isinstance(
                        x.value, ast.Name) and x.value.id in snap:
                    bad = x
        if bad is not None:
            R.violation(
                'R-REORD', 'stale-snapshot', q, bad.value.id,
                f'`{au.short(bad)}` reads a level from a copy of the order '
                'made before the loop, although the loop itself swaps '
                'levels: later iterations work with levels that are no '
                'longer current', unit=f.unit.rel, line=bad.lineno)
        elif loops:
            R.holds('R-REORD', q, 'levels are read from the manager '
                    'inside the reordering loop')


_BROAD = {'Exception', 'BaseException', '_NeedsReordering'}


def _broad_handlers(tree, protocol=False):
    """(try statement, handler) pairs whose handler would catch the
    reordering request - it derives from `Exception` - raised by a call
    in the `try` body, and does not pass it on with a bare `raise`."""
    out = []
    for t in ast.walk(tree):
        if not isinstance(t, ast.Try):
            continue
        # (conversions and container built-ins raise nothing of the
        # package)
        plain = {'int', 'float', 'str', 'len', 'iter', 'next', 'getattr',
                 'hasattr', 'isinstance', 'open', 'sorted', 'list', 'dict',
                 'set', 'tuple', 'min', 'max', 'abs', 'repr', 'format'}
        if not any(isinstance(x, ast.Call) and not (
                isinstance(x.func, ast.Name) and x.func.id in plain)
                for st in t.body for x in ast.walk(st)):
            continue
        for h in t.handlers:
            types = [] if h.type is None else (
                h.type.elts if isinstance(h.type, ast.Tuple) else [h.type])
            names = {au.src(x).rsplit('.', 1)[-1] for x in types}
            if h.type is not None and not names & _BROAD:
                continue
            if h.type is not None and names <= {'_NeedsReordering'} \
                    and protocol:
                # the wrapper of `_try_to_reorder` (and the context
                # manager it may use) is where the request is meant to be
                # caught: what it does with it is decided by the wrapper
                # model
                continue
            last = h.body[-1] if h.body else None
            if isinstance(last, ast.Raise) and last.exc is None:
                continue
            out.append((t, h))
    return out


def swallowed(P, R):
    """No handler between an operation and `find_or_add` catches the
    reordering request: the request is an exception (a subclass of
    `Exception`) that must travel from `find_or_add` up to the wrapper of
    `_try_to_reorder`; a `try ... except Exception` (or a bare `except`)
    around a call, anywhere in the modules the operations run through,
    stops it on the way and the operation fails instead of being
    repeated."""
    sample = ast.parse(
        'def f(b):\n    try:\n        return b.quantify(1)\n'
        '    except Exception as e:\n        raise ValueError(1) from e\n')
    if len(_broad_handlers(sample)) != 1:
        raise AnalysisError('R-REORD swallowed: the matcher does not see '
                            'its own example')
    n = 0
    found = False
    for modname in ('dd.bdd', 'dd._parser', 'dd._copy', 'dd.autoref',
                    'dd._utils', 'dd._abc'):
        u = P.units.get(modname)
        if u is None:
            continue
        seen = set()
        # (innermost functions first, each handler once)
        pairs = []
        for f in sorted(u.funcs.values(),
                        key=lambda f: -len(f.qualname)):
            n += sum(1 for t in au.walk_no_defs(f.node)
                     if isinstance(t, ast.Try))
            for t, h in _broad_handlers(f.node, protocol=(
                    f.qualname.startswith('dd.bdd._try_to_reorder')
                    or f.qualname.startswith(
                        'dd.bdd._ReorderingContext'))):
                if id(h) not in seen:
                    seen.add(id(h))
                    pairs.append((f, h))
        for f, h in pairs:
            found = True
            what = au.src(h.type) if h.type is not None else ''
            R.violation(
                'R-REORD', 'swallowed', f.qualname, what or 'except',
                f'`except {what}` at line {h.lineno} catches every '
                '`Exception` raised by the calls in its `try` block, the '
                'reordering request among them: raised under a decorated '
                'operation, the request never reaches the wrapper that '
                'would reorder and repeat the operation', unit=u.rel,
                line=h.lineno)
    if not found:
        R.holds('R-REORD', 'dd.bdd / dd._parser / dd._copy / dd.autoref',
                f'{n} try statements: no handler around a call catches '
                '`Exception`, `BaseException` or the request itself '
                'without passing it on')


def r_retry(P, R):
    au.set_parents(P.func('dd.bdd.BDD.cube').node)
    au.set_parents(P.func('dd.bdd.BDD.quantify').node)
    stale_levels(P, R)
    one_shot(P, R)
    swallowed(P, R)
r_retry.NAME = 'R-REORD(retry hazards)'


def r_stale_levels(P, R):
    stale_levels(P, R)
r_stale_levels.NAME = 'R-REORD(no stale levels into decorated calls)'


def r_live_levels(P, R):
    live_levels(P, R)
r_live_levels.NAME = 'R-REORD(live levels in reordering loops)'


def r_let_decorated(P, R):
    """The three operations behind `let` serve reordering requests at
    their own level (their intermediates are unreferenced integers)."""
    decorated_set(P, R, only={'cofactor', 'compose', 'rename'})
r_let_decorated.NAME = 'R-REORD(let operations are decorated)'
