"""R-REORD: the dynamic-reordering protocol and raw paths to find_or_add."""
import ast

from .. import astutil as au
from ..callgraph import CallGraph
from ..frontend import AnalysisError

DECORATOR = '_try_to_reorder'
ANCHORS = ['var', 'reduction', 'compose', 'rename', 'cofactor', 'quantify',
           'ite', 'add_expr', 'cube']
TARGET = 'dd.bdd.BDD.find_or_add'
# entries whose route to find_or_add is not raw, one reason each
JUSTIFIED = {
    'dd._copy.load_json':
        'reaches reorder() only through _store_line under load_order, the '
        'flag under which _load_json first calls '
        'configure(reordering=False); its node creation goes through '
        'autoref methods that delegate to decorated dd.bdd methods or is '
        'listed separately (dd.autoref.BDD.find_or_add)',
    'dd._copy.copy_bdd': 'every call goes through a decorated method and '
                         'every intermediate is a Function',
    'dd._copy.copy_bdds_from': 'as dd._copy.copy_bdd',
    'dd._copy.copy_zdd': 'as dd._copy.copy_bdd',
}


def decorated(f):
    return DECORATOR in f.decorators


def protocol(P, R):
    """Shape of the decorator and of the context manager (typestate)."""
    w = P.func('dd.bdd._try_to_reorder._wrapper')
    q = w.qualname
    params = w.params
    mgr = params[0] if params else 'bdd'
    state = 0
    problems = []
    for s in w.node.body:
        calls = [au.call_name(c) for c in au.calls_in(s)]
        in_ctx = isinstance(s, ast.With) and any(
            au.call_name(it.context_expr) == '_ReorderingContext'
            for it in s.items)
        if 'func' in calls:
            if not in_ctx:
                problems.append(
                    f'an attempt `{au.short(s, 50)}` runs outside '
                    '_ReorderingContext: nested decorated calls serve '
                    'requests themselves and collect live intermediates')
            if state == 0:
                state = 1
            elif state == 2:
                problems.append('the retry runs before reordering')
            elif state == 3:
                state = 4
            continue
        if isinstance(s, ast.Assign) and au.chain(s.targets[0]) == [
                mgr, '_last_len']:
            none = isinstance(s.value, ast.Constant) and \
                s.value.value is None
            if none and state == 1:
                state = 2
            elif none and state >= 4:
                problems.append('reordering is left disabled after the '
                                'retry (`_last_len = None`)')
            elif not none and state == 4:
                state = 5
            elif not none and state in (1, 2, 3):
                problems.append('requests are re-armed before the retry '
                                'finished: the retry can raise the '
                                'reordering signal again')
            continue
        if 'reorder' in calls:
            if state == 2:
                state = 3
            else:
                problems.append(
                    'reorder() is called while reordering requests are '
                    'still enabled (no `_last_len = None` before it): '
                    'swap itself raises the reordering signal')
            continue
        if isinstance(s, ast.Return):
            if state != 5:
                problems.append(
                    'the wrapper returns without re-arming `_last_len` '
                    'after the retry: dynamic reordering stays disabled')
    if state < 5 and not problems:
        problems.append('the retry protocol is incomplete '
                        f'(reached state {state} of 5)')
    if problems:
        R.violation('R-REORD', 'protocol', q, 'wrapper',
                    '; '.join(problems), unit=w.unit.rel, line=w.lineno)
    else:
        R.holds('R-REORD', q, 'first attempt in context -> disable '
                'requests -> reorder -> retry in context -> re-arm -> '
                'return')
    # context manager
    ent = P.func('dd.bdd._ReorderingContext.__enter__')
    ex = P.func('dd.bdd._ReorderingContext.__exit__')
    save = None
    setflag = None
    for i, st in enumerate(ent.node.body):
        if isinstance(st, ast.Assign):
            if au.src(st.value).replace(' ', '') == \
                    'self.bdd._reordering_context' and save is None:
                save = (i, au.src(st.targets[0]))
            if au.src(st.targets[0]).replace(' ', '') == \
                    'self.bdd._reordering_context' and isinstance(
                        st.value, ast.Constant) and st.value.value is True:
                setflag = i
    if save is not None and setflag is not None and save[0] < setflag:
        R.holds('R-REORD', ent.qualname, 'saves the flag, then sets it')
        saved_in = save[1]
    else:
        saved_in = 'self.nested'
        R.violation('R-REORD', 'context', ent.qualname, 'enter',
                    '__enter__ does not save the nesting flag before '
                    'setting it', unit=ent.unit.rel, line=ent.lineno)
    body = [st for st in ex.node.body if not (
        isinstance(st, ast.Expr) and isinstance(st.value, ast.Constant))]
    restore = bool(body) and isinstance(body[0], ast.Assign) and au.src(
        body[0].targets[0]).replace(' ', '') == \
        'self.bdd._reordering_context' and au.src(
            body[0].value).replace(' ', '') == saved_in.replace(' ', '')
    if restore:
        R.holds('R-REORD', ex.qualname,
                'the saved flag is restored by the first statement (on '
                'every exit, normal or exceptional)')
    else:
        R.violation(
            'R-REORD', 'context', ex.qualname, 'restore',
            '__exit__ does not restore the nesting flag as its first '
            'statement: after an exception the manager stays marked as '
            'inside a decorated call and reordering is never served again',
            unit=ex.unit.rel, line=ex.lineno)
    # suppression only for the signal at the outermost level

    def conjuncts(e, depth=0):
        if isinstance(e, ast.BoolOp) and isinstance(e.op, ast.And):
            out = set()
            for v in e.values:
                out |= conjuncts(v, depth)
            return out
        if isinstance(e, ast.Name) and depth < 4:
            defs = [n for n in au.walk_no_defs(ex.node)
                    if isinstance(n, ast.Assign) and au.is_name(
                        n.targets[0], e.id)]
            if len(defs) == 1:
                return conjuncts(defs[0].value, depth + 1)
        return {au.src(e).replace(' ', '').replace('(', '').replace(
            ')', '')}
    truthy = [n for n in au.walk_no_defs(ex.node)
              if isinstance(n, ast.Return) and n.value is not None
              and not (isinstance(n.value, ast.Constant)
                       and not n.value.value)]
    need = {'ex_typeis_NeedsReordering', 'not' + saved_in.replace(' ', '')}
    bad = []
    for r in truthy:
        conds = set()
        p = r
        while getattr(p, '_parent', None) is not None and \
                p._parent is not ex.node:
            par = p._parent
            if isinstance(par, ast.If) and p in par.body:
                conds |= conjuncts(par.test)
            p = par
        if isinstance(r.value, ast.Constant):
            pass
        else:
            conds |= conjuncts(r.value)
        if not need <= conds:
            bad.append((r, conds))
    if truthy and not bad:
        R.holds('R-REORD', ex.qualname,
                'suppresses only _NeedsReordering, only at the outermost '
                'level')
    elif not truthy:
        R.violation(
            'R-REORD', 'context', ex.qualname, 'suppress',
            '__exit__ never suppresses the reordering signal: it reaches '
            'the caller', unit=ex.unit.rel, line=ex.lineno)
    else:
        R.violation(
            'R-REORD', 'context', ex.qualname, 'suppress',
            '__exit__ can suppress an exception under the condition '
            f'{sorted(bad[0][1])}, which does not imply '
            f'{sorted(need)}: other exceptions are swallowed or nested '
            'calls serve requests', unit=ex.unit.rel,
            line=bad[0][0].lineno)
    # the request: disabled when _last_len is None, raised from the first
    # statement of find_or_add
    rq = P.func('dd.bdd._request_reordering')
    raises = [n for n in au.walk_no_defs(rq.node)
              if isinstance(n, ast.Raise)]
    guard = [n for n in au.walk_no_defs(rq.node) if isinstance(n, ast.If)
             and 'bdd._last_lenisNone' in au.src(n.test).replace(' ', '')
             and any(isinstance(b, ast.Return) for b in n.body)]
    if raises and guard and guard[0].lineno < min(
            r.lineno for r in raises):
        R.holds('R-REORD', rq.qualname, 'no request while disabled')
    else:
        R.violation('R-REORD', 'request', rq.qualname, 'disabled',
                    'requests can be raised although `_last_len is None` '
                    '(or are never raised)',
                    unit=rq.unit.rel, line=rq.lineno)
    foa = P.func(TARGET)
    first = [s for s in foa.node.body if not (
        isinstance(s, ast.Expr) and isinstance(s.value, ast.Constant))][0]
    if isinstance(first, ast.Expr) and au.call_name(
            first.value) == '_request_reordering':
        R.holds('R-REORD', foa.qualname, 'the request is raised before '
                'anything is written')
    else:
        R.violation(
            'R-REORD', 'request', foa.qualname, 'first',
            'find_or_add no longer starts with _request_reordering(self): '
            'a request raised later leaves a half-inserted node',
            unit=foa.unit.rel, line=foa.lineno)
    # configure(reordering=True/False) arms / disarms
    cf = P.func('dd.bdd.BDD.configure')
    text = au.src(cf.node).replace(' ', '')
    if 'self._last_len=max(REORDER_STARTS,len(self))' in text and \
            'self._last_len=None' in text and \
            'reordering=self._last_lenisnotNone' in text:
        R.holds('R-REORD', cf.qualname, 'reports and sets the threshold')
    else:
        R.undecided('R-REORD', cf.qualname, 'configure', 'unrecognised')


def decorated_set(P, R):
    for name in ANCHORS:
        f = P.func(f'dd.bdd.BDD.{name}')
        if decorated(f):
            R.holds('R-REORD', f.qualname, 'served by _try_to_reorder')
        else:
            R.violation(
                'R-REORD', 'decorator-missing', f.qualname, name,
                f'BDD.{name} is no longer wrapped by _try_to_reorder: a '
                'reordering request raised inside it escapes to the '
                'caller (or is served by an outer call that collects its '
                'intermediates)', unit=f.unit.rel, line=f.lineno)


def public_entries(P):
    out = []
    for mod in ('dd.bdd', 'dd.autoref', 'dd._copy'):
        u = P.units[mod]
        for q, f in u.funcs.items():
            rest = q[len(mod) + 1:].split('.')
            if len(rest) == 1:
                if not rest[0].startswith('_'):
                    out.append(f)
            elif len(rest) == 2:
                cls, name = rest
                if cls.startswith('_'):
                    continue
                if mod == 'dd._copy':
                    continue
                if not name.startswith('_') or (
                        name.startswith('__') and name.endswith('__')
                        and name not in ('__init__', '__del__',
                                         '__str__', '__repr__')):
                    out.append(f)
    return out


def raw_path(G, P, entry):
    """A path entry -> ... -> find_or_add through undecorated frames."""
    if decorated(entry):
        return None
    if entry.qualname == TARGET:
        return [TARGET]
    seen = {entry.qualname}
    stack = [(entry.qualname, [entry.qualname])]
    while stack:
        q, path = stack.pop()
        for e in G.out.get(q, []):
            c = e.callee
            if c is None or c in seen:
                continue
            cf = P.func(c, required=False)
            if cf is None:
                continue
            if c == TARGET:
                return path + [c]
            if decorated(cf):
                continue
            seen.add(c)
            stack.append((c, path + [c]))
    return None


def raw_entries(P, R):
    G = CallGraph(P)
    R.counters.update({f'calls {k}': v for k, v in G.stats().items()})
    entries = public_entries(P)
    n_raw = 0
    for f in sorted(entries, key=lambda f: f.qualname):
        path = raw_path(G, P, f)
        if path is None:
            R.holds('R-REORD', f.qualname,
                    'no undecorated route to find_or_add',
                    nontrivial=decorated(f))
            continue
        if f.qualname in JUSTIFIED:
            R.holds('R-REORD', f.qualname,
                    f'route {" -> ".join(path)} is justified: '
                    f'{JUSTIFIED[f.qualname]}')
            continue
        n_raw += 1
        R.violation(
            'R-REORD', 'raw-entry', f.qualname, 'find_or_add',
            'public entry reaches find_or_add outside _try_to_reorder: '
            + ' -> '.join(path) + '; with dynamic reordering enabled the '
            'reordering signal escapes to the caller or intermediates are '
            'collected mid-way', unit=f.unit.rel, line=f.lineno,
            path=' -> '.join(path))
    R.floor('R-REORD public entries examined', len(entries), 80)
    return n_raw


def r_reord(P, R):
    au.set_parents(P.func('dd.bdd._ReorderingContext.__exit__').node)
    protocol(P, R)
    decorated_set(P, R)
    raw_entries(P, R)
r_reord.NAME = 'R-REORD'


def r_context(P, R):
    """Only the protocol / context-manager part (used by C17)."""
    au.set_parents(P.func('dd.bdd._ReorderingContext.__exit__').node)
    protocol(P, R)
r_context.NAME = 'R-REORD(context restores its flag)'
