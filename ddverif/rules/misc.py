"""Smaller structural rules: R-VISIT (traversals reach both successors),
R-ARGS (argument roles of entry points), R-SIZE (size views)."""
import ast

from .. import astutil as au
from .. import paths as pa
from ..frontend import AnalysisError


# ------------------------------------------------------------------ R-VISIT
VISITORS = {
    'C10': ['dd.bdd.BDD._support', 'dd.bdd.BDD.is_essential',
            'dd.bdd.BDD._sat_iter', 'dd.bdd.BDD._sat_len'],
    'C18': ['dd.bdd.BDD._descendants'],
    'C06': ['dd.bdd.BDD._descendants'],
}


def child_names(fn):
    """Names bound to (LOW, HIGH) by the unpacking of a successor triple."""
    for n in sorted((x for x in au.walk_no_defs(fn)
                     if isinstance(x, ast.Assign)),
                    key=lambda x: x.lineno):
        if isinstance(n, ast.Assign) and isinstance(
                n.targets[0], ast.Tuple) and len(
                    n.targets[0].elts) == 3 and isinstance(
                        n.value, ast.Subscript):
            ch = au.chain(n.value.value)
            if ch and ch[-1] == '_succ':
                e = n.targets[0].elts
                if all(isinstance(x, ast.Name) for x in e[1:]) and \
                        e[1].id != e[2].id and '_' not in (
                            e[1].id, e[2].id):
                    return n, e[1].id, e[2].id
    return None


def _memo_hit(path, params):
    """Did the path find its node in a table that is a parameter
    (`k in memo` taken, or `memo.get(k)` that is not None)?"""
    got = set()
    for it in path:
        if it[0] == 'stmt' and isinstance(it[1], ast.Assign) and len(
                it[1].targets) == 1 and isinstance(
                    it[1].targets[0], ast.Name):
            v = it[1].value
            nm = it[1].targets[0].id
            got.discard(nm)
            if isinstance(v, ast.Call) and au.call_name(v) == 'get' and \
                    isinstance(v.func, ast.Attribute) and isinstance(
                        v.func.value, ast.Name) and \
                    v.func.value.id in params:
                got.add(nm)
        if it[0] != 'test':
            continue
        t, taken = it[1], it[2]
        if isinstance(t, ast.UnaryOp) and isinstance(t.op, ast.Not):
            t, taken = t.operand, not taken
        if not (isinstance(t, ast.Compare) and len(t.ops) == 1):
            continue
        op, right = t.ops[0], t.comparators[0]
        if isinstance(op, (ast.In, ast.NotIn)) and isinstance(
                right, ast.Name) and right.id in params:
            if taken == isinstance(op, ast.In):
                return True
        if isinstance(op, (ast.Is, ast.IsNot)) and isinstance(
                t.left, ast.Name) and t.left.id in got and isinstance(
                    right, ast.Constant) and right.value is None:
            if taken == isinstance(op, ast.IsNot):
                return True
    return False


def r_visit(P, R):
    n = 0
    covered = {'dd.bdd.BDD._support', 'dd.bdd.BDD.is_essential',
               'dd.bdd.BDD._descendants'}
    if R.prop in ('C10', 'C18', 'C06'):
        # what the traversals compute, whatever their shape
        from . import models
        models.traversal_model(P, R)
    for q in VISITORS.get(R.prop, []):
        f = P.func(q)
        fn = f.node
        recursive = any(au.call_name(c) == f.name
                        for c in au.calls_in(fn))
        if not recursive and q in covered:
            # an iterative traversal (explicit stack): the path rule
            # below reads recursive calls; the traversal model decides
            n += 1
            R.holds('R-VISIT', q, 'iterative traversal: decided by the '
                    'traversal model', nontrivial=False)
            continue
        cn = child_names(fn)
        if cn is None:
            raise AnalysisError(f'{q}: successor triple no longer unpacked')
        unpack, lo, hi = cn
        plist = pa.function_paths(fn)
        R.count('paths', len(plist))
        last = fn.body[-1]
        # collector: returns nothing, fills a container it was given
        collector = all(
            r.value is None or (isinstance(r.value, ast.Constant)
                                and r.value.value is None)
            for r in au.walk_no_defs(fn) if isinstance(r, ast.Return)) \
            and not any(isinstance(x, (ast.Yield, ast.YieldFrom))
                        for x in au.walk_no_defs(fn))
        bad = None
        full = 0
        for path in plist:
            stmts = [it[1] for it in path if it[0] == 'stmt']
            if unpack not in stmts:
                continue
            ex = path[-1]
            # complete traversals: the path runs to the end of the body
            # (fall through, or the final return)
            final = (ex[2] == 'fall') or (ex[1] is last) or (
                isinstance(last, (ast.For, ast.If)) and any(
                    x is ex[1] for x in ast.walk(last)))
            if ex[2] in ('abort', 'raise'):
                continue
            if not final and not collector:
                # a search (is_essential) or a memoised count may stop
                # early; a collector may not: whatever it has not looked
                # at is missing from the collection
                continue
            if not collector and _memo_hit(path, set(f.params)):
                # the result of this node was found in the memo handed
                # down: the successors were visited when it was stored
                continue
            visited = set()
            for it in path:
                node = None
                if it[0] == 'stmt':
                    node = it[1]
                elif it[0] == 'test':
                    node = it[1]
                elif it[0] == 'loop' and isinstance(it[1], ast.For):
                    node = it[1].iter
                if node is None:
                    continue
                for c in au.calls_in(node):
                    if au.call_name(c) == f.name and c.args and isinstance(
                            c.args[0], ast.Name):
                        visited.add(c.args[0].id)
            full += 1
            missing = {lo, hi} - visited
            if missing:
                bad = (path, missing)
        n += 1
        if bad:
            R.violation(
                'R-VISIT', 'child-skipped', q, ','.join(sorted(bad[1])),
                f'a complete traversal of a non-terminal node does not '
                f'descend into successor(s) {sorted(bad[1])}: part of the '
                'diagram is never looked at', unit=f.unit.rel,
                line=unpack.lineno, path=pa.describe(bad[0]))
        elif full == 0:
            R.undecided('R-VISIT', q, 'traversal', 'no complete path')
        else:
            R.holds('R-VISIT', q,
                    f'both successors are visited on each of {full} '
                    'complete traversal path(s)')
    R.floor(f'R-VISIT traversals for {R.prop}', n,
            len(VISITORS.get(R.prop, [])))
    if R.prop in ('C10', 'C03', 'C06', 'C18'):
        collector_pruning(P, R)
    if R.prop == 'C10':
        from . import models
        models.counting_model(P, R)
        support_levels(P, R)
        pick_first(P, R)
        count_refusal(P, R)
        count_compaction(P, R)
        count_scaling(P, R)
        pick_yields(P, R)
        minterm_bits(P, R)
    if R.prop in ('C18', 'C06'):
        descendants_root(P, R)
    if R.prop == 'C18':
        sizes(P, R)
        dot_layers(P, R)
        # what the exported picture shows, and the legend of doc.md
        from . import models
        models.dot_model(P, R)
r_visit.NAME = 'R-VISIT'


def support_levels(P, R):
    f = P.func('dd.bdd.BDD._support')
    unpack, lo, hi = child_names(f.node)
    lvl = unpack.targets[0].elts[0].id
    adds = [c for c in au.calls_in(f.node, 'add')
            if au.call_recv(c) == ['levels'] and c.args
            and au.is_name(c.args[0], lvl)]
    if adds:
        R.holds('R-VISIT', f.qualname, 'the level of every visited '
                'non-terminal is recorded')
    else:
        R.violation('R-VISIT', 'support', f.qualname, 'levels.add',
                    'the level of a visited node is no longer added to '
                    'the support', unit=f.unit.rel, line=f.lineno)
    g = P.func('dd.bdd.BDD.support')
    rets = [n for n in au.walk_no_defs(g.node) if isinstance(n, ast.Return)]
    names = any(isinstance(r.value, ast.SetComp) and 'var_at_level' in
                au.src(r.value) for r in rets)
    if names:
        R.holds('R-VISIT', g.qualname, 'levels are mapped back to '
                'variable names', nontrivial=False)
    else:
        R.undecided('R-VISIT', g.qualname, 'names', 'unrecognised form')
    # is_essential: variable above / at / below the node
    e = P.func('dd.bdd.BDD.is_essential')
    plist = pa.function_paths(e.node)
    verdicts = dict()
    for path in plist:
        for it in path:
            if it[0] == 'test' and isinstance(it[1], ast.Compare) and \
                    it[2] is True and len(it[1].ops) == 1:
                t = it[1]
                l, r = au.src(t.left), au.src(t.comparators[0])
                ex = path[-1]
                if ex[0] == 'exit' and isinstance(
                        ex[1], ast.Return) and isinstance(
                            ex[1].value, ast.Constant) and \
                        path.index(it) == len(path) - 3:
                    verdicts[(l, type(t.ops[0]).__name__, r)] = \
                        ex[1].value.value
    vl = au.names_defined_by(e.node, lambda v: isinstance(
        v, ast.Call) and au.call_name(v) == 'get' and au.chain(
            v.func.value) == ['self', 'vars'])
    tu = child_names(e.node)
    nl = tu[0].targets[0].elts[0].id if tu and isinstance(
        tu[0].targets[0].elts[0], ast.Name) else None
    vl = vl[0] if vl else None
    want = {(vl, 'Lt', nl): False, (vl, 'Eq', nl): True}
    if all(verdicts.get(k) == v for k, v in want.items()):
        R.holds('R-VISIT', e.qualname, 'variable above the node: not '
                'essential; at the node: essential')
    elif any(k in verdicts and verdicts[k] != v for k, v in want.items()):
        R.violation('R-VISIT', 'essential', e.qualname, 'levels',
                    f'is_essential answers {verdicts} for the comparisons '
                    'of the variable level with the node level',
                    unit=e.unit.rel, line=e.lineno)
    else:
        R.undecided('R-VISIT', e.qualname, 'level tests', 'unrecognised')


def pick_first(P, R):
    f = P.func('dd._abc.BDD.pick')
    rets = [n for n in au.walk_no_defs(f.node) if isinstance(n, ast.Return)]
    ok = False
    for r in rets:
        v = r.value
        if isinstance(v, ast.Call) and au.call_name(v) == 'next' and len(
                v.args) == 2 and isinstance(
                    v.args[1], ast.Constant) and v.args[1].value is None:
            ok = True
    picks = [c for c in au.calls_in(f.node, 'pick_iter')]
    if ok and picks and [au.src(a) for a in picks[0].args] == [
            'u', 'care_vars']:
        R.holds('R-VISIT', f.qualname, 'pick = first element of '
                'pick_iter(u, care_vars), None when there is none')
    elif not picks:
        R.violation('R-VISIT', 'pick', f.qualname, 'pick_iter',
                    'pick no longer takes its answer from pick_iter',
                    unit=f.unit.rel, line=f.lineno)
    else:
        R.undecided('R-VISIT', f.qualname, 'pick', 'unrecognised form')


def count_refusal(P, R):
    f = P.func('dd.bdd.BDD.count')
    guard = None
    # the surplus of the requested variable count over the support: a
    # local assigned from a difference, tested `< 0`, raising ValueError
    diffs = set(au.names_defined_by(f.node, lambda v: isinstance(
        v, ast.BinOp) and isinstance(v.op, ast.Sub)))
    for n in au.walk_no_defs(f.node):
        if isinstance(n, ast.If) and n.body and isinstance(
                n.body[-1], ast.Raise) and isinstance(
                    n.test, ast.Compare) and len(n.test.ops) == 1:
            t = n.test
            l, r = t.left, t.comparators[0]
            if (isinstance(l, ast.Name) and l.id in diffs
                    and au.const_int(r) == 0 and isinstance(
                        t.ops[0], ast.Lt)) or (
                    isinstance(r, ast.Name) and r.id in diffs
                    and au.const_int(l) == 0 and isinstance(
                        t.ops[0], ast.Gt)):
                guard = n
    first = [c.lineno for c in au.calls_in(f.node, '_sat_len')]
    if guard is not None and first and guard.lineno < min(first):
        R.holds('R-VISIT', f.qualname, 'a variable count below the size '
                'of the support is refused before counting')
    elif guard is None:
        R.violation('R-VISIT', 'count', f.qualname, 'slack',
                    'count no longer refuses a variable count smaller '
                    'than the support', unit=f.unit.rel, line=f.lineno)
    else:
        R.undecided('R-VISIT', f.qualname, 'slack test', 'unrecognised')


def resolve_local(fn, e, depth=0):
    """Follow a Name to its single assignment in `fn`."""
    while isinstance(e, ast.Name) and depth < 4:
        defs = [x for x in au.walk_no_defs(fn) if isinstance(x, ast.Assign)
                and au.is_name(x.targets[0], e.id)]
        if len(defs) != 1:
            break
        e = defs[0].value
        depth += 1
    return e


def names_or_levels(fn, e):
    """'levels' / 'names' / None for a collection expression."""
    e = resolve_local(fn, e)
    if isinstance(e, ast.Call):
        name = au.call_name(e)
        if name == 'support':
            lv = any(k.arg == 'as_levels' and isinstance(
                k.value, ast.Constant) and k.value.value
                for k in e.keywords) or (len(e.args) >= 2 and isinstance(
                    e.args[1], ast.Constant) and e.args[1].value)
            return 'levels' if lv else 'names'
        if name in ('set', 'list', 'sorted', 'tuple') and e.args:
            return names_or_levels(fn, e.args[0])
        if name == '_map_to_level':
            return 'levels'
    if isinstance(e, (ast.SetComp, ast.ListComp, ast.GeneratorExp)):
        elt = e.elt
        if isinstance(elt, ast.Call) and au.call_name(
                elt) == 'level_of_var':
            return 'levels'
        if isinstance(elt, ast.Subscript) and au.chain(
                elt.value) and au.chain(elt.value)[-1] == 'vars':
            return 'levels'
        if isinstance(elt, ast.Call) and au.call_name(
                elt) == 'var_at_level':
            return 'names'
        if isinstance(elt, ast.Name):
            src = names_or_levels(fn, e.generators[0].iter)
            return src
    if isinstance(e, ast.Attribute) and e.attr == 'vars':
        return 'names'
    return None


def count_compaction(P, R):
    """count(): the compact index follows the *level* order."""
    f = P.func('dd.bdd.BDD.count')
    loops = [n for n in au.walk_no_defs(f.node) if isinstance(n, ast.For)
             and isinstance(n.iter, ast.Call) and au.call_name(
                 n.iter) == 'enumerate']
    verdict = None
    mname = None
    for c in au.calls_in(f.node, '_sat_len'):
        if len(c.args) >= 2 and isinstance(c.args[1], ast.Name):
            mname = c.args[1].id
    for lp in loops:
        if not any(isinstance(s, ast.Assign) and isinstance(
                s.targets[0], ast.Subscript) and mname and au.is_name(
                    s.targets[0].value, mname)
                for s in ast.walk(lp)):
            continue
        arg = lp.iter.args[0]
        if isinstance(arg, ast.Call) and au.call_name(arg) == 'sorted' \
                and arg.args and not arg.keywords:
            kind = names_or_levels(f.node, arg.args[0])
            verdict = (kind, arg)
        else:
            verdict = ('unsorted', arg)
    if verdict is None:
        R.undecided('R-VISIT', f.qualname, 'level compaction',
                    'unrecognised form')
    elif verdict[0] == 'levels':
        R.holds('R-VISIT', f.qualname, 'levels of the support are '
                'compacted in ascending level order')
    elif verdict[0] in ('names', 'unsorted'):
        R.violation(
            'R-VISIT', 'compaction-order', f.qualname, 'map_level',
            f'the compact indices of count() are assigned by enumerating '
            f'`{au.short(verdict[1])}`, i.e. in the order of '
            f'{"variable names" if verdict[0] == "names" else "an unsorted collection"}'
            ', not of levels: when the two orders differ a child gets a '
            'smaller index than its parent and the model count is wrong',
            unit=f.unit.rel, line=verdict[1].lineno)
    else:
        R.undecided('R-VISIT', f.qualname, 'level compaction',
                    'cannot tell names from levels')


def minterm_bits(P, R):
    f = P.func('dd.bdd._enumerate_minterms')
    t = au.src(f.node).replace(' ', '')
    removes = any(
        isinstance(c, ast.Call) and au.call_name(c) == 'difference'
        and c.args and au.is_name(c.args[0], 'cube')
        for c in au.calls_in(f.node))
    updates = any(
        au.call_name(c) == 'update' and au.call_recv(c)
        and len(au.call_recv(c)) == 1
        and c.args and au.is_name(c.args[0], 'cube')
        for c in au.calls_in(f.node))
    if removes and updates:
        R.holds('R-VISIT', f.qualname, "the cube's own variables are not "
                'enumerated and keep their values')
    elif not updates:
        R.violation('R-VISIT', 'minterms', f.qualname, 'cube',
                    'the values fixed by the cube are no longer part of '
                    'every enumerated assignment', unit=f.unit.rel,
                    line=f.lineno)
    else:
        R.violation('R-VISIT', 'minterms', f.qualname, 'bits',
                    'variables fixed by the cube are enumerated again: '
                    'assignments overlap', unit=f.unit.rel, line=f.lineno)
    # care_vars default and the cube passed down
    g = P.func('dd.bdd.BDD.pick_iter')
    calls = [c for c in au.calls_in(g.node, '_enumerate_minterms')]
    loopvars = {lp.target.id for lp in au.walk_no_defs(g.node)
                if isinstance(lp, ast.For) and isinstance(
                    lp.target, ast.Name)}
    if calls and len(calls[0].args) == 2 and isinstance(
            calls[0].args[0], ast.Name) and calls[0].args[
                0].id in loopvars and au.src(
                    calls[0].args[1]) == 'care_vars':
        R.holds('R-VISIT', g.qualname, 'each cube is completed over '
                'care_vars', nontrivial=False)
    else:
        R.undecided('R-VISIT', g.qualname, 'completion', 'unrecognised')
    dflt = [n for n in au.walk_no_defs(g.node) if isinstance(n, ast.If)
            and au.src(n.test).replace(' ', '') == 'care_varsisNone']
    if dflt and any(isinstance(s, ast.Assign) and au.src(
            s.value) == 'support' for s in dflt[0].body):
        R.holds('R-VISIT', g.qualname, 'care_vars defaults to the '
                'support', nontrivial=False)


def descendants_root(P, R):
    f = P.func('dd.bdd.BDD._descendants')
    adds = [c for c in au.calls_in(f.node, 'add')
            if au.call_recv(c) == ['visited']]
    if adds:
        R.holds('R-VISIT', f.qualname, 'the node itself is recorded')
    else:
        R.violation('R-VISIT', 'descendants', f.qualname, 'visited.add',
                    'a visited node is not recorded as a descendant',
                    unit=f.unit.rel, line=f.lineno)
    g = P.func('dd.bdd.BDD.descendants')
    calls = [c for c in au.calls_in(g.node, '_descendants')]
    t = au.src(g.node).replace(' ', '')
    if calls and 'visited.add(1)' in t:
        R.holds('R-VISIT', g.qualname, 'every root is traversed, the '
                'terminal is included')
    else:
        R.undecided('R-VISIT', g.qualname, 'roots', 'unrecognised form')


def sizes(P, R):
    f = P.func('dd.autoref.Function.__len__')
    t = au.src(f.node).replace(' ', '')
    if 'len(self.manager.descendants([self.node]))' in t:
        R.holds('R-SIZE', f.qualname, 'len(u) = number of descendants of '
                'its node')
    else:
        R.undecided('R-SIZE', f.qualname, 'len(u)', 'unrecognised form')
    g = P.func('dd.autoref.Function.dag_size')
    if 'len(self)' in au.src(g.node).replace(' ', ''):
        R.holds('R-SIZE', g.qualname, 'dag_size = len(u)',
                nontrivial=False)
    else:
        R.undecided('R-SIZE', g.qualname, 'dag_size', 'unrecognised')
    h = P.func('dd.bdd.BDD.__len__')
    if au.src(h.node.body[-1]).replace(' ', '') == \
            'returnlen(self._succ)':
        R.holds('R-SIZE', h.qualname, 'len(bdd) = size of the node table')
    else:
        R.undecided('R-SIZE', h.qualname, 'len(bdd)', 'unrecognised')
    a = P.func('dd.autoref.BDD.__len__')
    if 'len(self._bdd)' in au.src(a.node).replace(' ', ''):
        R.holds('R-SIZE', a.qualname, 'len(wrapper) = len(manager)',
                nontrivial=False)


# ------------------------------------------------------------------- R-ARGS
def r_args(P, R):
    """Argument roles of image / preimage / copy_vars / name->level."""
    if R.prop == 'C13':
        image_roles(P, R)
    if R.prop == 'C11':
        copy_vars_levels(P, R)
    if R.prop in ('C03', 'C13', 'C04'):
        map_to_level(P, R)
r_args.NAME = 'R-ARGS'


def image_roles(P, R):
    core = P.func('dd.bdd._image')
    cparams = core.params
    for q, side in (('dd.bdd.image', 'umap'), ('dd.bdd.preimage', 'vmap')):
        f = P.func(q)
        calls = [c for c in au.calls_in(f.node, '_image')]
        if len(calls) != 1:
            raise AnalysisError(f'{q} no longer calls _image once')
        bound = dict(zip(cparams, calls[0].args))
        for k in calls[0].keywords:
            bound[k.arg] = k.value

        def value_of(e):
            """None / 'rename' for a Name assigned once in f."""
            if isinstance(e, ast.Constant) and e.value is None:
                return None
            if isinstance(e, ast.Name):
                defs = [s for s in au.walk_no_defs(f.node)
                        if isinstance(s, ast.Assign)
                        and au.is_name(s.targets[0], e.id)]
                if len(defs) == 1:
                    return value_of(defs[0].value) if isinstance(
                        defs[0].value, (ast.Name, ast.Constant)) \
                        else e.id
                return e.id
            return '?'
        got = {k: value_of(bound.get(k)) for k in ('umap', 'vmap')}
        other = 'vmap' if side == 'umap' else 'umap'
        if got[side] is not None and got[other] is None:
            R.holds('R-ARGS', q,
                    f'the renaming is applied on the {side} side only '
                    f'({"after" if side == "umap" else "before"} the '
                    'conjunction)')
        else:
            R.violation(
                'R-ARGS', 'rename-side', q, side,
                f'{q.split(".")[-1]} hands the renaming to _image as '
                f'{got}; it must be the `{side}` argument alone',
                unit=f.unit.rel, line=calls[0].lineno)
        # operands in order (trans, source/target), quantified variables
        params = f.params
        a0 = [au.src(a) for a in calls[0].args[:2]]
        if a0 == params[:2]:
            R.holds('R-ARGS', q, 'operands passed in order',
                    nontrivial=False)
        else:
            R.violation('R-ARGS', 'operands', q, 'order',
                        f'_image receives {a0} instead of {params[:2]}',
                        unit=f.unit.rel, line=calls[0].lineno)
        # both keys and values of the renaming are mapped to levels
        dc = [n for n in au.walk_no_defs(f.node)
              if isinstance(n, ast.DictComp) and 'rename' in au.src(
                  n.generators[0].iter)]
        if dc:
            d = dc[0]
            tk, tv = [au.src(e) for e in d.generators[0].target.elts]
            ks = au.src(d.key).replace(' ', '')
            vs = au.src(d.value).replace(' ', '')
            if ks == f'bdd.vars.get({tk},{tk})' and \
                    vs == f'bdd.vars.get({tv},{tv})':
                R.holds('R-ARGS', q, 'keys and values of the renaming '
                        'are mapped from names to levels')
            elif tk not in ks or tv not in vs:
                R.violation('R-ARGS', 'rename-levels', q, 'rename',
                            f'the renaming is rebuilt as {{{ks}: {vs}}}: '
                            'keys and values are exchanged or dropped',
                            unit=f.unit.rel, line=d.lineno)
            else:
                R.undecided('R-ARGS', q, 'name -> level of the renaming',
                            'unrecognised form')
        # preconditions precede the recursion
        checks = [c.lineno for c in au.calls_in(f.node)
                  if au.call_name(c) in ('_assert_no_overlap',
                                         '_assert_valid_rename')]
        if checks and max(checks) < calls[0].lineno:
            R.holds('R-ARGS', q, 'precondition checks precede the '
                    'recursion')
        else:
            R.violation('R-ARGS', 'precondition', q, 'checks',
                        'the precondition checks on the renaming no '
                        'longer precede the computation',
                        unit=f.unit.rel, line=f.lineno)
    # the quantified levels reach _image as mapped from the argument: a
    # restriction by the support of an operand that is still to be renamed
    # compares variables of two different name spaces
    for q, renamed in (('dd.bdd.preimage', 1), ('dd.bdd.image', None)):
        f = P.func(q)
        params = f.params
        muts = []
        for node in au.walk_no_defs(f.node):
            if isinstance(node, ast.Call) and isinstance(
                    node.func, ast.Attribute) and au.is_name(
                        node.func.value, 'qvars') and node.func.attr in (
                            'intersection_update', 'difference_update',
                            'discard', 'remove', 'clear', 'pop'):
                muts.append(node)
            if isinstance(node, ast.AugAssign) and au.is_name(
                    node.target, 'qvars'):
                muts.append(node)
        if not muts:
            R.holds('R-ARGS', q, 'the set of quantified levels reaches '
                    '_image as given')
            continue
        # which operand supports flow into the restriction?
        tainted = set()
        if renamed is not None:
            opnd = params[renamed]
            for node in au.walk_no_defs(f.node):
                if isinstance(node, (ast.Assign, ast.Expr)):
                    calls = [c for c in au.calls_in(node, 'support')
                             if c.args and au.is_name(c.args[0], opnd)]
                    if calls:
                        tainted |= au.assigned_names(node) if isinstance(
                            node, ast.Assign) else set()
                        for c2 in au.calls_in(node):
                            if isinstance(c2.func, ast.Attribute) and \
                                    isinstance(c2.func.value, ast.Name):
                                tainted.add(c2.func.value.id)
        hit = [m for m in muts if au.names_loaded(m) & tainted]
        # a restriction by the support of ONE operand, whichever it is:
        # the quantified variable may occur in the other one only
        one = []
        for m in muts:
            for c in au.calls_in(m, 'support'):
                if c.args and isinstance(c.args[0], ast.Name) and \
                        c.args[0].id in params[:2]:
                    one.append((m, c.args[0].id))
        if one and not hit:
            m, opnd = one[0]
            R.violation(
                'R-ARGS', 'qvars-restricted', q, 'qvars',
                f'`{au.short(m, 70)}` keeps only the quantified variables '
                f'that occur in `{opnd}`: a quantified variable that '
                'occurs in the other operand only is no longer '
                'quantified and stays free in the result',
                unit=f.unit.rel, line=m.lineno)
            continue
        if hit:
            R.violation(
                'R-ARGS', 'qvars-restricted', q, 'qvars',
                f'`{au.short(hit[0], 70)}` restricts the quantified '
                f'variables by the support of `{params[renamed]}`, which '
                'is taken before that operand is renamed: a quantified '
                'variable that occurs only in the renamed operand is '
                'dropped and stays free in the result',
                unit=f.unit.rel, line=hit[0].lineno)
        else:
            R.undecided('R-ARGS', q, 'qvars is modified before _image',
                        au.short(muts[0], 60))
    # image only: rename targets must be quantified or absent
    f = P.func('dd.bdd.image')
    t = au.src(f.node).replace(' ', '')
    if 's.difference_update(qvars)' in t and \
            's.intersection_update(rename.values())' in t and \
            'ifs:\nraiseAssertionError(s)' in t.replace('    ', ''):
        R.holds('R-ARGS', f.qualname, 'rename targets in the support must '
                'be quantified')
    else:
        R.undecided('R-ARGS', f.qualname, 'support precondition',
                    'unrecognised form')


def copy_vars_levels(P, R):
    f = P.func('dd._copy.copy_vars')
    params = f.params
    adds = [c for c in au.calls_in(f.node, 'add_var')]
    if len(params) != 2 or len(adds) != 1:
        R.undecided('R-ARGS', f.qualname, 'copy_vars', 'unrecognised')
        return
    src_m, tgt_m = params
    a = adds[0]
    kws = {k.arg: k.value for k in a.keywords}
    lvl = kws.get('level', a.args[1] if len(a.args) > 1 else None)
    var = a.args[0] if a.args else kws.get('var')
    if lvl is None or var is None or au.call_recv(a) != [tgt_m]:
        R.violation('R-ARGS', 'copy-vars', f.qualname, 'level',
                    'copy_vars no longer declares each variable in the '
                    'target at an explicit level', unit=f.unit.rel,
                    line=a.lineno)
        return
    le = resolve_local(f.node, lvl)
    good = (isinstance(le, ast.Call) and au.call_name(
        le) == 'level_of_var' and au.call_recv(le) == [src_m]
        and le.args and au.src(le.args[0]) == au.src(var)) or (
            isinstance(le, ast.Subscript) and au.chain(le.value) == [
                src_m, 'vars'] and au.src(le.slice) == au.src(var))
    # is the level a position in an enumeration?
    enum = False
    for lp in au.walk_no_defs(f.node):
        if isinstance(lp, ast.For) and isinstance(
                lp.iter, ast.Call) and au.call_name(
                    lp.iter) == 'enumerate' and isinstance(
                        le, ast.Name) and le.id in au.target_names(
                            lp.target):
            enum = True
    if good:
        R.holds('R-ARGS', f.qualname, 'each variable is declared in the '
                'target at its level in the source')
    elif enum:
        R.violation(
            'R-ARGS', 'copy-vars', f.qualname, 'level',
            f'copy_vars declares variables at their position in an '
            f'enumeration (`{au.short(a)}`), not at their level in the '
            'source: after a reordering of the source the two differ',
            unit=f.unit.rel, line=a.lineno)
    else:
        R.undecided('R-ARGS', f.qualname, 'level of each variable',
                    'unrecognised form')


def map_to_level(P, R):
    f = P.func('dd.bdd.BDD._map_to_level')
    comps = [n for n in au.walk_no_defs(f.node)
             if isinstance(n, (ast.DictComp, ast.SetComp))]
    by_name = []
    for c in comps:
        key = c.key if isinstance(c, ast.DictComp) else c.elt
        if isinstance(key, ast.Subscript) and au.chain(key.value) == [
                'self', 'vars']:
            tgt = c.generators[0].target
            first = tgt.elts[0] if isinstance(tgt, ast.Tuple) else tgt
            by_name.append(au.src(key.slice) == au.src(first))
    if by_name and all(by_name) and len(by_name) >= 2:
        R.holds('R-ARGS', f.qualname, 'names are mapped to levels through '
                'self.vars (mapping and set forms)')
    elif by_name and not all(by_name):
        R.violation('R-ARGS', 'name-level', f.qualname, 'vars',
                    'a name is not mapped to its own level',
                    unit=f.unit.rel, line=f.lineno)
    else:
        R.undecided('R-ARGS', f.qualname, 'name -> level', 'unrecognised')


# ---------------------------------------------------------------- R-ONESHOT
ONESHOT = {
    'C03': ['dd.bdd.BDD.quantify', 'dd.bdd.BDD.forall', 'dd.bdd.BDD.exist',
            'dd.autoref.BDD.quantify', 'dd.autoref.BDD.forall',
            'dd.autoref.BDD.exist'],
    'C13': ['dd.bdd.image', 'dd.bdd.preimage', 'dd.autoref.image',
            'dd.autoref.preimage'],
}


MATERIALISE = {'list', 'set', 'tuple', 'sorted', 'dict', 'frozenset'}
NONCONSUMING = {'isinstance', 'hasattr', 'callable', 'len', 'type', 'id'}


def iterable_params(fn):
    a = fn.args
    out = []
    for p in a.posonlyargs + a.args + a.kwonlyargs:
        ann = au.src(p.annotation) if p.annotation is not None else ''
        if 'Iterable' in ann:
            out.append(p.arg)
    return out


def consuming_uses(node, name):
    """Loads of `name` inside `node` that traverse it (anything but an
    identity/type test)."""
    au.set_parents(node)
    out = []
    for x in ast.walk(node):
        if not (isinstance(x, ast.Name) and x.id == name
                and isinstance(x.ctx, ast.Load)):
            continue
        par = getattr(x, '_parent', None)
        if isinstance(par, ast.Compare) and all(
                isinstance(op, (ast.Is, ast.IsNot)) for op in par.ops):
            continue
        if isinstance(par, ast.Call) and au.call_name(
                par) in NONCONSUMING and x in par.args:
            continue
        out.append(x)
    return out


def oneshot_function(R, f, param, rule_where=None):
    """Along every path: at most one traversal of `param` before it is
    rebound to something materialised."""
    fn = f.node
    try:
        plist = pa.function_paths(fn, limit=4000)
    except pa.PathExplosion:
        R.undecided('R-ONESHOT', f.qualname, f'argument `{param}`',
                    'path explosion')
        return
    au.set_parents(fn)
    worst = None
    for path in plist:
        uses = []
        for it in path:
            if it[0] == 'stmt':
                node = it[1]
            elif it[0] == 'test':
                node = it[1]
            elif it[0] == 'loop' and isinstance(it[1], ast.For) and \
                    it[2] >= 1:
                node = it[1].iter
            else:
                continue
            us = consuming_uses(node, param)
            for u in us:
                # inside a loop that is not the traversal itself the use
                # is repeated
                anc = getattr(u, '_parent', None)
                rep = 1
                while anc is not None and anc is not fn:
                    if isinstance(anc, (ast.For, ast.While)) and not any(
                            u is y for y in ast.walk(
                                getattr(anc, 'iter', anc.test
                                        if isinstance(anc, ast.While)
                                        else anc))):
                        rep = 2
                    anc = getattr(anc, '_parent', None)
                uses.extend([u] * rep)
            if it[0] == 'stmt' and isinstance(
                    node, (ast.Assign, ast.AnnAssign)) and \
                    param in au.assigned_names(node):
                break
        if len(uses) > 1 and (worst is None or len(uses) > len(worst[0])):
            worst = (uses, path)
    if worst:
        uses, path = worst
        R.violation(
            'R-ONESHOT', 'traversed-twice', f.qualname, param,
            f'the Iterable argument `{param}` is traversed '
            f'{len(uses)} times on one path (lines '
            f'{sorted({u.lineno for u in uses})}) before it is rebound: '
            'a generator or other one-shot iterator is exhausted by the '
            'first traversal, so the later one sees no (or the '
            'remaining) elements', unit=f.unit.rel,
            line=uses[1].lineno, path=pa.describe(path))
    else:
        R.holds('R-ONESHOT', f.qualname,
                f'iterable argument `{param}` is traversed at most once '
                f'on each of {len(plist)} path(s)')


def r_oneshot(P, R):
    """An argument declared as an Iterable is traversed at most once
    before it is rebound: a second traversal sees an exhausted iterator.
    Checked for the listed entry points (floor) and for every function in
    the scope of the property that declares an Iterable parameter."""
    from .. import scope
    n = 0
    done = set()
    for q in ONESHOT.get(R.prop, []):
        f = P.func(q)
        for prm in iterable_params(f.node):
            n += 1
            done.add((q, prm))
            oneshot_function(R, f, prm)
    funcs = scope.functions_of(P, R.prop) if R.prop in scope.ENTRY else ()
    for q in sorted(funcs):
        f = P.func(q, required=False)
        if f is None:
            continue
        for prm in iterable_params(f.node):
            if (q, prm) not in done:
                done.add((q, prm))
                oneshot_function(R, f, prm)
    R.floor(f'R-ONESHOT iterable parameters for {R.prop}', n,
            {'C03': 6, 'C13': 2}.get(R.prop, 0))
r_oneshot.NAME = 'R-ONESHOT'


# ---------------------------------------------------- MDD bit significance
def r_mdd_bits(P, R):
    """bdd_to_mdd enumerates the values of an integer over its bits in the
    listing order of `bitnames` (first listed bit least significant)."""
    f = P.func('dd.mdd.bdd_to_mdd')
    calls = [c for c in au.calls_in(f.node, '_enumerate_integer')]
    if len(calls) != 1 or not calls[0].args:
        raise AnalysisError('dd.mdd.bdd_to_mdd no longer calls '
                            '_enumerate_integer once')
    arg = calls[0].args[0]
    # nearest assignment of the argument before the call
    e = arg
    if isinstance(arg, ast.Name):
        defs = [x for x in au.walk_no_defs(f.node)
                if isinstance(x, ast.Assign) and au.is_name(
                    x.targets[0], arg.id) and x.lineno < calls[0].lineno]
        if defs:
            e = max(defs, key=lambda x: x.lineno).value
    t = au.src(e).replace(' ', '')
    reordered = any(isinstance(x, ast.Call) and au.call_name(x) in (
        'sorted', 'reversed') for x in ast.walk(e)) or any(
            isinstance(x, ast.Slice) and x.step is not None
            for x in ast.walk(e))
    if t.endswith("['bitnames']") and not reordered:
        R.holds('R-ARGS', f.qualname, 'integer values are enumerated over '
                '`bitnames` in listing order')
    elif reordered:
        R.violation(
            'R-ARGS', 'bit-significance', f.qualname, 'bitnames',
            f'the bits handed to _enumerate_integer are `{au.short(e)}`: '
            'their significance follows that order, not the listing '
            'order of `bitnames` (first listed bit least significant)',
            unit=f.unit.rel, line=calls[0].lineno)
    else:
        R.undecided('R-ARGS', f.qualname, 'bit list', 'unrecognised form')
    g = P.func('dd.mdd._enumerate_integer')
    t = au.src(g.node).replace(' ', '')
    if "reversed(bin(i).lstrip('-0b').zfill(n))" in t and \
            'zip(bits,values)' in t:
        R.holds('R-ARGS', g.qualname, 'first bit of the list gets the '
                'least significant binary digit')
    elif 'zip(bits,values)' in t and 'reversed' not in t:
        R.violation('R-ARGS', 'bit-significance', g.qualname, 'reversed',
                    'the binary digits are no longer reversed: the first '
                    'listed bit becomes the most significant one',
                    unit=g.unit.rel, line=g.lineno)
    else:
        R.undecided('R-ARGS', g.qualname, 'digit order', 'unrecognised')
r_mdd_bits.NAME = 'R-ARGS(MDD bit significance)'


# ------------------------------------------------------------------- DDDMP
def header_fields(P, R):
    """Each header field of the DDDMP parser is set by one grammar action,
    and every field that `reset()` declares has one."""
    writers = dict()
    for f in P.methods('dd.dddmp', 'Parser'):
        if not f.name.startswith('p_'):
            continue
        for s in au.walk_no_defs(f.node):
            if isinstance(s, ast.Assign):
                ch = au.chain(s.targets[0])
                if ch and ch[0] == 'self' and len(ch) == 2:
                    writers.setdefault(ch[1], []).append(f)
    if len(writers) < 10:
        raise AnalysisError(
            f'R-FORMAT/header-fields: only {len(writers)} header fields '
            'are set by grammar actions')
    declared = set()
    rs = P.func('dd.dddmp.Parser.reset', required=False)
    if rs is not None:
        for s in au.walk_no_defs(rs.node):
            if isinstance(s, ast.Assign) and isinstance(
                    s.value, ast.Constant) and s.value.value is None:
                ch = au.chain(s.targets[0])
                if ch and ch[0] == 'self' and len(ch) == 2:
                    declared.add(ch[1])
    bad = False
    for name, fs in sorted(writers.items()):
        if len({f.name for f in fs}) > 1:
            bad = True
            R.violation(
                'R-FORMAT', 'header-field-two-writers',
                'dd.dddmp.Parser', name,
                f'the header field `{name}` is set by '
                f'{sorted(f.name for f in fs)}: the value read from one '
                'line of the file overwrites the value read from another '
                '(whichever comes later in the file wins)',
                unit=fs[0].unit.rel, line=fs[1].lineno)
    # declared header lists that the body relies on but no action sets
    hdr = P.func('dd.dddmp.Parser._parse_header')
    used = {au.chain(x)[1] for x in ast.walk(hdr.node)
            if isinstance(x, ast.Attribute) and au.chain(x)
            and au.chain(x)[0] == 'self' and len(au.chain(x)) == 2}
    orphans = sorted((declared & used) - set(writers) - {
        'bdd', 'info2permid'})
    if not bad:
        R.holds('R-FORMAT', 'dd.dddmp.Parser',
                f'{len(writers)} header fields, each set by one grammar '
                'action')


def r_dddmp(P, R):
    header_fields(P, R)
    hdr = P.func('dd.dddmp.Parser._parse_header')
    # (1) parallel header lists are zipped as given
    n = 0
    for c in au.calls_in(hdr.node, 'zip'):
        n += 1
        bad = []
        for a in c.args:
            e = resolve_local(hdr.node, a)
            if isinstance(e, ast.Call) and au.call_name(e) in (
                    'sorted', 'reversed', 'set'):
                bad.append(e)
        if bad:
            R.violation(
                'R-ARGS', 'misaligned-zip', hdr.qualname, au.short(c, 50),
                f'`{au.short(c, 70)}` pairs two header lists position by '
                f'position after re-ordering one of them '
                f'(`{au.short(bad[0])}`): ids and names no longer '
                'correspond when the list was not already sorted',
                unit=hdr.unit.rel, line=c.lineno)
        else:
            R.holds('R-ARGS', hdr.qualname,
                    f'`{au.short(c, 60)}` pairs parallel lists as given')
    R.floor('R-ARGS zips in the DDDMP header', n, 2)
    # (2) sibling tables: names -> level come from the same list
    au.set_parents(hdr.node)
    enum_src = dict()
    for d in au.walk_no_defs(hdr.node):
        if isinstance(d, ast.DictComp) and isinstance(
                d.generators[0].iter, ast.Call) and au.call_name(
                    d.generators[0].iter) == 'enumerate':
            st = d
            while not isinstance(st, ast.Assign):
                st = st._parent
            tgt = au.src(st.targets[0]).replace(' ', '')
            src = au.src(d.generators[0].iter.args[0]).replace(' ', '')
            tn = [au.src(e) for e in d.generators[0].target.elts]
            name_to_level = au.src(d.key) == tn[1] and au.src(
                d.value) == tn[0]
            # the enclosing condition
            cond = st._parent
            ctext = au.src(cond.test).replace(' ', '') if isinstance(
                cond, ast.If) else ''
            enum_src[(tgt, ctext)] = (src, name_to_level, d)
    lv = [v for (t, c), v in enum_src.items() if '.' not in t
          and 'ordered_vars' in c]
    info = [v for (t, c), v in enum_src.items() if t == 'self.info2permid']
    if lv and info:
        if lv[0][0] == info[0][0] and info[0][1] and lv[0][1]:
            R.holds('R-ARGS', hdr.qualname,
                    'variable-name labels (varinfo 3) and the level table '
                    f'enumerate the same list ({lv[0][0]})')
        else:
            R.violation(
                'R-ARGS', 'sibling-tables', hdr.qualname, 'info2permid',
                f'node labels are mapped to levels by enumerating '
                f'`{info[0][0]}` while the levels of the manager come '
                f'from `{lv[0][0]}`: with unused variables in between, '
                'nodes are built on the wrong variables',
                unit=hdr.unit.rel, line=info[0][2].lineno)
    else:
        R.undecided('R-ARGS', hdr.qualname, 'name -> level tables',
                    'unrecognised form')
    # (3) load() rebuilds every node after its successors, whatever the
    # numbering of the file: decided on the loader model
    from . import models
    models.dddmp_load_model(P, R)
    # (4) the parser after the header grammar, on small files
    models.dddmp_parser_model(P, R)
r_dddmp.NAME = 'R-ARGS(DDDMP tables and rebuild order)'


# ------------------------------------------------ quantified variable sets
def walk_shape(P, f, depth=0):
    """'full' | 'single-path' | None for a function that collects
    something from the diagram below a reference."""
    fn = f.node
    names = {au.call_name(c) for c in au.calls_in(fn)}
    if names & {'support', '_support', 'descendants', '_descendants'}:
        return 'full'
    cn = child_names(fn)
    if cn is None:
        return None
    unpack, lo, hi = cn
    # recursion into both successors
    rec = [c for c in au.calls_in(fn) if au.call_name(c) == f.name]
    seen = {a.id for c in rec for a in c.args if isinstance(a, ast.Name)}
    if {lo, hi} <= seen:
        return 'full'
    # a loop that moves one cursor to one successor per iteration
    for loop in au.walk_no_defs(fn):
        if not isinstance(loop, ast.While):
            continue
        if not any(x is unpack for x in ast.walk(loop)):
            continue
        subj = None
        sl = unpack.value.slice
        subj = au.is_abs_of(sl) or (sl.id if isinstance(sl, ast.Name)
                                    else None)
        moves = [s for s in au.walk_no_defs(loop)
                 if isinstance(s, ast.Assign) and subj is not None
                 and au.is_name(s.targets[0], subj)]
        work = [c for c in au.calls_in(loop)
                if au.call_name(c) in ('append', 'add', 'extend', 'push',
                                       'update')
                and any(isinstance(a, ast.Name) and a.id in (lo, hi)
                        for a in ast.walk(c))]
        if moves and not work:
            return 'single-path'
        if work:
            both = {a.id for c in work for a in ast.walk(c)
                    if isinstance(a, ast.Name)} & {lo, hi}
            return 'full' if both == {lo, hi} else 'single-path'
    return None


def quant_vars(P, R):
    """`apply('\\\\A', u, v)` quantifies every variable that occurs in `u`:
    the variable set has to come from a walk over the whole diagram of
    `u`, not from one path through it."""
    f = P.func('dd.bdd.BDD.apply')
    n = 0
    for c in au.calls_in(f.node, 'quantify'):
        if len(c.args) < 2:
            continue
        qv = c.args[1]
        src = qv
        if isinstance(qv, ast.Name):
            au.set_parents(f.node)
            # the assignment in the same arm
            blk = None
            p = getattr(c, '_parent', None)
            while p is not None and not isinstance(p, ast.If):
                p = getattr(p, '_parent', None)
            cands = [s for s in (p.body if p is not None else f.node.body)
                     if isinstance(s, ast.Assign)
                     and au.is_name(s.targets[0], qv.id)]
            if len(cands) == 1:
                src = cands[0].value
        if not isinstance(src, ast.Call):
            # the collecting code may have been expanded in place (a
            # helper that is not part of the reference tree): look at the
            # statements of the arm themselves
            import types
            arm = p.body if p is not None else f.node.body
            fake = ast.FunctionDef(
                name='_expanded', args=f.node.args,
                body=(lambda k: arm[:k])(next(
                    (k for k, st in enumerate(arm)
                     if any(x is c for x in ast.walk(st))), len(arm))) or [
                    ast.Pass()], decorator_list=[], lineno=c.lineno,
                col_offset=0)
            shape = walk_shape(P, types.SimpleNamespace(
                node=fake, name='_expanded', qualname=f.qualname))
            n += 1
            if shape == 'single-path':
                R.violation(
                    'R-ARGS', 'variables-of-one-path', f.qualname,
                    au.short(qv),
                    f'the quantified variables `{au.short(qv)}` are '
                    'collected along one path of the first operand (a '
                    'loop that moves a single cursor to one successor '
                    'per step): a variable that occurs only off that '
                    'path is not quantified - right for a cube, wrong '
                    'for any other first operand', unit=f.unit.rel,
                    line=c.lineno)
            elif shape == 'full':
                R.holds('R-ARGS', f.qualname,
                        f'`{au.short(c, 50)}`: variables collected by a '
                        'walk over the whole diagram')
            else:
                R.undecided('R-ARGS', f.qualname,
                            f'quantified variables `{au.short(qv)}`',
                            'not the result of a call')
            continue
        n += 1
        name = au.call_name(src)
        g = P.func(f'dd.bdd.BDD.{name}', required=False)
        shape = None
        if name == 'support':
            shape = 'full'
        elif g is not None:
            shape = walk_shape(P, g)
        if shape == 'full':
            R.holds('R-ARGS', f.qualname,
                    f'`{au.short(c, 50)}`: variables collected by a walk '
                    f'over the whole diagram (`{name}`)')
        elif shape == 'single-path':
            R.violation(
                'R-ARGS', 'variables-of-one-path', f.qualname, name,
                f'`{au.short(src)}` collects the quantified variables '
                f'along one path of the first operand ({g.qualname} moves '
                'a single cursor to one successor per step): a variable '
                'that occurs only off that path is not quantified - right '
                'for a cube, wrong for any other first operand',
                unit=f.unit.rel, line=src.lineno)
        else:
            R.undecided('R-ARGS', f.qualname,
                        f'quantified variables from `{au.short(src)}`',
                        'shape of the walk not recognised')
    # (one call site when the two quantifiers share an arm)
    R.floor('R-ARGS quantifier arms of BDD.apply', n, 1)


def r_quant_vars(P, R):
    quant_vars(P, R)
r_quant_vars.NAME = 'R-ARGS(quantified variables)'


def count_scaling(P, R):
    """`_sat_len` counts the models below the root level; count() owes the
    factor 2**(compact level of the root) for the levels above it - also
    when the root is a terminal (its compact level is n, the factor
    2**n).  Every value that count() returns must carry that factor."""
    f = P.func('dd.bdd.BDD.count')
    fn = f.node
    raw = set()          # names bound to the un-scaled result of _sat_len
    for s in au.walk_no_defs(fn):
        if isinstance(s, ast.Assign) and isinstance(
                s.value, ast.Call) and au.call_name(
                    s.value) == '_sat_len' and isinstance(
                        s.targets[0], ast.Name):
            raw.add(s.targets[0].id)
    if not raw:
        R.undecided('R-VISIT', f.qualname, 'final scaling',
                    'no call of _sat_len bound to a name')
        return
    scaled = set()
    for s in sorted((x for x in au.walk_no_defs(fn)
                     if isinstance(x, ast.Assign)), key=lambda x: x.lineno):
        v = s.value
        if isinstance(s.targets[0], ast.Name) and isinstance(
                v, ast.BinOp) and isinstance(v.op, (ast.Mult, ast.LShift)):
            sides = (v.left, v.right)
            has_raw = any(isinstance(x, ast.Name) and x.id in raw
                          for x in sides)
            has_pow = any(isinstance(x, ast.BinOp) and isinstance(
                x.op, ast.Pow) and au.const_int(x.left) == 2
                for x in sides) or isinstance(v.op, ast.LShift)
            if has_raw and has_pow:
                scaled.add(s.targets[0].id)
    n = 0
    for r in au.walk_no_defs(fn):
        if not isinstance(r, ast.Return) or r.value is None:
            continue
        n += 1
        names = {x.id for x in ast.walk(r.value) if isinstance(x, ast.Name)}
        if names & raw and not (names & scaled) and not any(
                isinstance(x, ast.BinOp) and isinstance(x.op, ast.Pow)
                for x in ast.walk(r.value)):
            R.violation(
                'R-VISIT', 'scaling-skipped', f.qualname,
                au.short(r, 40),
                f'`{au.short(r, 60)}` returns the result of _sat_len '
                'without the factor 2**(level of the root): the levels '
                'above the root (all n of them for a constant) are not '
                'counted', unit=f.unit.rel, line=r.lineno)
    if n and scaled:
        R.holds('R-VISIT', f.qualname,
                f'{n} return(s): the result of _sat_len is scaled by '
                '2**(compact level of the root)')
    elif not scaled:
        R.undecided('R-VISIT', f.qualname, 'final scaling',
                    'no product of the _sat_len result with a power of 2')


def pick_yields(P, R):
    """Every assignment that pick_iter hands out went through
    `_enumerate_minterms(cube, care_vars)`, which is what makes it mention
    every care variable: no `yield` of anything else (a shortcut for a
    constant, say, would ignore the care set)."""
    f = P.func('dd.bdd.BDD.pick_iter')
    fn = f.node
    prm = [p for p in f.params if p != 'self']
    care = prm[1] if len(prm) > 1 else None
    au.set_parents(fn)
    n = 0
    for y in au.walk_no_defs(fn):
        if not isinstance(y, (ast.Yield, ast.YieldFrom)):
            continue
        n += 1
        ok = False
        v = y.value
        if isinstance(y, ast.YieldFrom):
            src = v
        else:
            # the loop whose variable is yielded
            src = None
            p = getattr(y, '_parent', None)
            while p is not None and p is not fn:
                if isinstance(p, ast.For) and isinstance(
                        v, ast.Name) and v.id in au.target_names(p.target):
                    src = p.iter
                    break
                p = getattr(p, '_parent', None)
        if isinstance(src, ast.Name):
            defs = au.assignments_to(fn, src.id)
            if len(defs) == 1:
                src = defs[0].value
        if isinstance(src, ast.Call) and au.call_name(
                src) == '_enumerate_minterms' and care is not None and any(
                    au.is_name(a, care) for a in list(src.args) + [
                        k.value for k in src.keywords]):
            ok = True
        if ok:
            R.holds('R-VISIT', f.qualname,
                    f'`{au.short(y, 40)}`: produced by '
                    f'_enumerate_minterms(..., {care})')
        else:
            R.violation(
                'R-VISIT', 'yield-bypasses-care-set', f.qualname,
                au.short(y, 30),
                f'`{au.short(y, 50)}` hands out an assignment that did '
                f'not go through _enumerate_minterms(..., {care}): it '
                'need not mention the care variables (for a constant '
                'function with a non-empty care set it mentions none)',
                unit=f.unit.rel, line=y.lineno)
    R.floor('R-VISIT yields of pick_iter', n, 1)


def dot_layers(P, R):
    """The number printed next to a layer of the DOT picture is the LEVEL
    of that layer (the legend of the picture says so), and the layer of a
    level is the subgraph filed under that level: both come from the
    element of the loop over the levels, not from a counter."""
    f = P.func('dd.bdd._to_dot')
    fn = f.node
    loops = [lp for lp in fn.body if isinstance(lp, ast.For) and any(
        au.call_name(c) == 'add_node' and any(
            k.arg == 'shape' for k in c.keywords)
        for c in au.calls_in(lp))]
    if not loops:
        R.undecided('R-ROLE', f.qualname, 'layer labels',
                    'the loop that creates the layers was not found')
        return
    lp = loops[0]
    counter = None
    elem = None
    if isinstance(lp.iter, ast.Call) and au.call_name(
            lp.iter) == 'enumerate' and isinstance(
                lp.target, ast.Tuple) and len(lp.target.elts) == 2:
        counter = lp.target.elts[0].id if isinstance(
            lp.target.elts[0], ast.Name) else None
        elem = lp.target.elts[1].id if isinstance(
            lp.target.elts[1], ast.Name) else None
    elif isinstance(lp.target, ast.Name):
        elem = lp.target.id
    labels = [s for s in au.walk_no_defs(lp) if isinstance(s, ast.Assign)
              and isinstance(s.targets[0], ast.Name)
              and isinstance(s.value, ast.Call)
              and au.call_name(s.value) == 'str']
    bad = [s for s in labels if counter and any(
        au.is_name(x, counter) for x in ast.walk(s.value))]
    keyed = [s for s in au.walk_no_defs(lp) if isinstance(s, ast.Assign)
             and isinstance(s.targets[0], ast.Subscript)
             and counter and au.is_name(s.targets[0].slice, counter)]
    if bad or keyed:
        s0 = (bad or keyed)[0]
        R.violation(
            'R-ROLE', 'layer-label-is-rank', f.qualname, 'label',
            f'`{au.short(s0, 50)}` uses the position `{counter}` of the '
            'layer among the layers that occur, not its level '
            f'`{elem}`: when a declared variable has no node in the '
            'picture, every layer below it is numbered one too low',
            unit=f.unit.rel, line=s0.lineno)
    elif labels and elem:
        R.holds('R-ROLE', f.qualname,
                f'layer labels are the levels themselves (`{elem}`)')
    else:
        R.undecided('R-ROLE', f.qualname, 'layer labels', 'unrecognised')


def collector_pruning(P, R):
    """A collector (`_support`, `_descendants`) may stop before it has
    looked at a node for three reasons only: the node was visited, it is
    the terminal, or the RESULT cannot grow any more (`len(<result>) ==
    len(self.vars)`).  Any other test - the number of visited nodes, say -
    prunes nodes whose part of the diagram was never looked at."""
    for q in ('dd.bdd.BDD._support', 'dd.bdd.BDD._descendants'):
        f = P.func(q, required=False)
        if f is None:
            continue
        fn = f.node
        cn = child_names(fn)
        if cn is None:
            continue
        unpack = cn[0]
        lvl = unpack.targets[0].elts[0]
        # containers: the one that receives the node, the one that
        # receives the level
        visited = result = None
        for c in au.calls_in(fn, 'add'):
            recv = au.call_recv(c)
            if not (recv and len(recv) == 1 and c.args):
                continue
            if isinstance(lvl, ast.Name) and au.is_name(c.args[0], lvl.id):
                result = recv[0]
            else:
                visited = visited or recv[0]
        if result is None:
            result = visited
        n = 0
        for s in fn.body:
            if s.lineno >= unpack.lineno:
                break
            if not (isinstance(s, ast.If) and s.body and isinstance(
                    s.body[-1], ast.Return)):
                continue
            n += 1
            t = s.test

            def is_len_of(e, name):
                return isinstance(e, ast.Call) and au.call_name(
                    e) == 'len' and e.args and (
                        au.is_name(e.args[0], name) or (
                            au.chain(e.args[0]) or [None])[-1] == name)

            def ok_test(t):
                if isinstance(t, ast.BoolOp) and isinstance(t.op, ast.Or):
                    return all(ok_test(x) for x in t.values)
                if not (isinstance(t, ast.Compare) and len(t.ops) == 1):
                    return False
                a, b = t.left, t.comparators[0]
                if isinstance(t.ops[0], ast.In) and isinstance(
                        b, ast.Name) and b.id == visited:
                    return True
                if isinstance(t.ops[0], ast.Eq) and (
                        au.const_int(b) == 1 or au.const_int(a) == 1):
                    return True
                if isinstance(t.ops[0], (ast.Eq, ast.GtE)) and \
                        is_len_of(a, result) and is_len_of(b, 'vars'):
                    return True
                return False
            ok = ok_test(t)
            if ok:
                R.holds('R-VISIT', q,
                        f'pruning test `{au.short(t, 40)}`: visited / '
                        'terminal / result saturated', nontrivial=False)
            else:
                R.violation(
                    'R-VISIT', 'unsound-pruning', q, au.short(t, 30),
                    f'`if {au.short(t, 50)}: return` stops the traversal '
                    'for a reason other than "visited", "terminal" or '
                    f'"the result `{result}` holds every variable": the '
                    'part of the diagram below is never looked at and '
                    'what it would have contributed is missing',
                    unit=f.unit.rel, line=s.lineno)
