"""R-ROLE / R-CONN: branch-role alignment and connective encodings.

Abstract domain {LOW, HIGH} per local name along enumerated paths.  Seeds
are the positions of the successor triple `(level, low, high)` wherever it
is unpacked; sinks are the two-slot consumers that must receive (LOW, HIGH)
or (HIGH, LOW).  A violation is a *crossed pair* (both slots definitely
wrong) or a definite mismatch of a single association.
"""
import ast

from .. import astutil as au
from .. import minieval as me
from .. import paths as pa
from ..frontend import AnalysisError

LOW, HIGH, MIXED = 'LOW', 'HIGH', 'MIXED'

# calls whose result is a (level, LOW, HIGH) triple
TRIPLE_CALLS = {'succ', '_low_high', '_swap_cofactor'}
# calls whose result is a (LOW, HIGH) pair
PAIR_CALLS = {'_top_cofactor'}
LOW_CALLS = {'cuddE'}
HIGH_CALLS = {'cuddT'}
# tables with the layout node -> (level, LOW, HIGH)
TRIPLE_TABLES = {'_succ', 'succ', 'bdd_succ'}
# calls that pass the role of their argument through
ROLE_PRESERVING = {'abs', '_flip', 'int', 'str', 'f', '__cast__',
                   'Cudd_Regular', 'Cudd_Not', 'wrap', '_wrap', 'Function',
                   '_node_from_int', '_decode_node', 'Cudd_NotCond'}


def is_triple_table(e, fn=None):
    """Expression denoting a table node -> (level, LOW, HIGH)."""
    ch = au.chain(e)
    if ch and ch[-1] in TRIPLE_TABLES:
        return True
    # a local unpacked at position 0 from `<parser>.parse(...)`
    if fn is not None and isinstance(e, ast.Name):
        for n in au.walk_no_defs(fn):
            if isinstance(n, ast.Assign) and isinstance(
                    n.targets[0], ast.Tuple) and isinstance(
                        n.value, ast.Call) and au.call_name(
                            n.value) == 'parse' and n.targets[0].elts and \
                    au.is_name(n.targets[0].elts[0], e.id):
                return True
    return False


def is_triple_source(e, fn=None):
    """Expression evaluating to a (level, LOW, HIGH) triple."""
    if isinstance(e, ast.Subscript):
        if is_triple_table(e.value, fn):
            return True
    if isinstance(e, ast.Call) and au.call_name(e) in TRIPLE_CALLS:
        return True
    return False


class Env:
    def __init__(self, fn, selfname, seeds=None):
        self.role = dict()
        self.fn = fn
        self.selfname = selfname   # name of the function (recursion)
        self.assoc = dict()        # dict name -> role via d[i] = False/True
        self.protected = set(seeds or ())
        if seeds:
            self.role.update(seeds)
        # parameters literally named low / high
        for a in fn.args.args:
            if a.arg in ('low', 'high'):
                self.role.setdefault(a.arg, a.arg.upper())

    def of(self, e):
        """Role of expression `e` (None if it carries none)."""
        if isinstance(e, ast.Name):
            return self.role.get(e.id)
        if isinstance(e, ast.UnaryOp) and isinstance(
                e.op, (ast.USub, ast.Invert)):
            return self.of(e.operand)
        if isinstance(e, ast.Attribute):
            if e.attr == 'low':
                return LOW
            if e.attr == 'high':
                return HIGH
            if e.attr in ('node', 'value'):
                return self.of(e.value)
            return None
        if isinstance(e, ast.IfExp):
            a, b = self.of(e.body), self.of(e.orelse)
            return a if a == b else None
        if isinstance(e, ast.Subscript):
            # memo / translation-map lookup of a role-carrying key
            roles = self.roles_in(e.slice)
            if len(roles) == 1:
                return roles.pop()
            return None
        if isinstance(e, ast.Call):
            name = au.call_name(e)
            if name in LOW_CALLS:
                return LOW
            if name in HIGH_CALLS:
                return HIGH
            args = list(e.args) + [k.value for k in e.keywords]
            roles = set()
            for a in args:
                r = self.of(a)
                if r is not None:
                    roles.add(r)
            if isinstance(e.func, ast.Attribute) and name in (
                    'get', 'pop') and not roles:
                return None
            if len(roles) == 1:
                return roles.pop()
            if len(roles) > 1:
                return MIXED
            return None
        return None

    def roles_in(self, e):
        roles = set()
        for n in ast.walk(e):
            if isinstance(n, ast.Name) and n.id in self.role and \
                    self.role[n.id] in (LOW, HIGH):
                roles.add(self.role[n.id])
            elif isinstance(n, ast.Attribute) and n.attr in ('low', 'high'):
                roles.add(n.attr.upper())
        return roles

    def bind_target(self, target, value):
        """Assignment `target = value` under the *old* environment."""
        new = dict()
        if isinstance(target, ast.Name):
            new[target.id] = self.of(value)
        elif isinstance(target, (ast.Tuple, ast.List)):
            elts = target.elts
            if isinstance(value, (ast.Tuple, ast.List)) and len(
                    value.elts) == len(elts):
                for t, v in zip(elts, value.elts):
                    if isinstance(t, ast.Name):
                        new[t.id] = self.of(v)
                    elif isinstance(t, (ast.Tuple, ast.List)):
                        for k, x in self._nested(t, v).items():
                            new[k] = x
            elif is_triple_source(value, self.fn) and len(elts) == 3:
                for t, r in zip(elts, (None, LOW, HIGH)):
                    if isinstance(t, ast.Name):
                        new[t.id] = r
            elif isinstance(value, ast.Call) and au.call_name(
                    value) in PAIR_CALLS and len(elts) == 2:
                for t, r in zip(elts, (LOW, HIGH)):
                    if isinstance(t, ast.Name):
                        new[t.id] = r
            else:
                for t in elts:
                    for n in ast.walk(t):
                        if isinstance(n, ast.Name):
                            new[n.id] = None
        for k, v in new.items():
            if v is None:
                if k not in self.protected:
                    self.role.pop(k, None)
            else:
                self.role[k] = v

    def _nested(self, t, v):
        out = dict()
        if is_triple_source(v, self.fn) and len(t.elts) == 3:
            for x, r in zip(t.elts, (None, LOW, HIGH)):
                if isinstance(x, ast.Name):
                    out[x.id] = r
        return out

    def bind_for(self, node):
        """`for` target roles from the iterable's layout."""
        t = node.target
        it = node.iter
        # for u, i, v, w in <levels()>
        layout = None
        if isinstance(it, ast.Name):
            defs = au.assignments_to(self.fn, it.id)
            if len(defs) == 1:
                it = defs[0].value
        name = au.call_name(it) if isinstance(it, ast.Call) else None
        if name == 'levels':
            layout = (None, None, LOW, HIGH)
        if layout and isinstance(t, ast.Tuple) and len(
                t.elts) == len(layout):
            for x, r in zip(t.elts, layout):
                if isinstance(x, ast.Name):
                    if r:
                        self.role[x.id] = r
                    else:
                        self.role.pop(x.id, None)
            return
        # for u, (k, v, w) in <triple table>.items()
        if name == 'items' and isinstance(it.func, ast.Attribute):
            if is_triple_table(it.func.value, self.fn) and isinstance(
                    t, ast.Tuple) and len(t.elts) == 2 and isinstance(
                        t.elts[1], ast.Tuple) and len(
                            t.elts[1].elts) == 3:
                for x, r in zip(t.elts[1].elts, (None, LOW, HIGH)):
                    if isinstance(x, ast.Name):
                        if r:
                            self.role[x.id] = r
                        else:
                            self.role.pop(x.id, None)
                return
        # for x in <call with role-carrying args>: x inherits
        r = self.of(it)
        for n in ast.walk(t):
            if isinstance(n, ast.Name):
                if r in (LOW, HIGH):
                    self.role[n.id] = r
                else:
                    self.role.pop(n.id, None)


class Checker:
    def __init__(self, R, func, rule='R-ROLE'):
        self.R = R
        self.func = func
        self.rule = rule
        self.sinks = 0
        self.undecided = 0
        self.bad = dict()

    def violation(self, sub, construct, msg, node, path):
        key = (sub, construct)
        if key in self.bad:
            return
        self.bad[key] = True
        self.R.violation(
            self.rule, sub, self.func.qualname, construct, msg,
            unit=self.func.unit.rel,
            line=getattr(node, 'lineno', self.func.lineno),
            path=pa.describe(path) if path else None,
            stmts=[au.short(node, 120)])

    # ---- sinks evaluated on a statement with the environment before it
    def check_calls(self, env, stmt, path):
        for c in au.calls_in(stmt):
            name = au.call_name(c)
            if name in ('find_or_add', '_find_or_add') and len(c.args) >= 3 \
                    and not any(isinstance(a, ast.Starred) for a in c.args):
                a, b = c.args[-2], c.args[-1]
                self.two_slot(env, c, a, b, (LOW, HIGH), path,
                              f'{name}(level, LOW, HIGH)')
            elif name in ('ite', '_ite', 'Cudd_bddIte', 'Cudd_zddIte',
                          'cuddZddIte') and len(c.args) >= 3:
                a, b = c.args[-2], c.args[-1]
                if au.const_int(a) is None and au.const_int(b) is None:
                    ra, rb = env.of(a), env.of(b)
                    if ra in (LOW, HIGH) and rb in (LOW, HIGH) and \
                            name != self.func.name:
                        self.two_slot(env, c, a, b, (HIGH, LOW), path,
                                      f'{name}(selector, HIGH, LOW)')
            elif name in ('cuddUniqueInter', 'cuddUniqueInterZdd') and \
                    len(c.args) == 4:
                self.two_slot(env, c, c.args[2], c.args[3], (HIGH, LOW),
                              path, f'{name}(mgr, index, HIGH, LOW)')
            elif name == 'add_edge' and len(c.args) >= 2:
                self.edge_sink(env, c, path)
            # homogeneity of recursive calls
            if name == self.func.name or (
                    name == self.func.name.lstrip('_')
                    and self.func.name.startswith('_')) is False and False:
                pass
            if name == self.func.name:
                roles = set()
                for a in list(c.args) + [k.value for k in c.keywords]:
                    r = env.of(a)
                    if r in (LOW, HIGH):
                        roles.add(r)
                    elif isinstance(a, ast.Name) and a.id in env.assoc:
                        roles.add(env.assoc[a.id])
                if roles:
                    self.sinks += 1
                    if len(roles) > 1:
                        self.violation(
                            'mixed-recursion', f'{name}:{au.short(c, 60)}',
                            f'recursive call `{au.short(c, 80)}` combines '
                            'a low cofactor with a high cofactor',
                            c, path)
                    else:
                        self.R.count('role sinks ok')

    def two_slot(self, env, call, a, b, want, path, label):
        ra, rb = env.of(a), env.of(b)
        self.sinks += 1
        if ra is None and rb is None:
            # variable node / constant children: carries no pair
            self.sinks -= 1
            return
        other = {LOW: HIGH, HIGH: LOW}
        if ra == other[want[0]] and rb == other[want[1]]:
            self.violation(
                'crossed', f'{au.call_name(call)}',
                f'`{au.short(call, 80)}`: {label} receives '
                f'({ra}, {rb}): the branches are exchanged',
                call, path)
        else:
            self.R.count('role sinks ok')

    def edge_sink(self, env, call, path):
        kws = {k.arg: k.value for k in call.keywords if k.arg}
        tgt = call.args[1]
        r = env.of(tgt)
        # to_nx: value=False <-> LOW
        if 'value' in kws and isinstance(kws['value'], ast.Constant):
            self.sinks += 1
            want = HIGH if kws['value'].value else LOW
            if r in (LOW, HIGH) and r != want:
                self.violation(
                    'edge-label', f'add_edge:value={kws["value"].value}',
                    f'`{au.short(call, 80)}`: the {r} successor is '
                    f'exported with value={kws["value"].value}',
                    call, path)
            return
        # _to_dot: dashed <-> LOW, solid <-> HIGH
        style = None
        if 'style' in kws and isinstance(kws['style'], ast.Constant):
            style = kws['style'].value
        else:
            for k in call.keywords:
                if k.arg is None and isinstance(k.value, ast.Name):
                    style = env.assoc.get(('style', k.value.id))
        if style in ('dashed', 'solid') and r in (LOW, HIGH):
            self.sinks += 1
            want = LOW if style == 'dashed' else HIGH
            if r != want:
                self.violation(
                    'edge-style', f'add_edge:{style}',
                    f'`{au.short(call, 80)}`: the {r} successor is drawn '
                    f'{style} (legend: dashed = else/low, solid = '
                    'then/high)', call, path)

    def check_fstring(self, env, stmt, path):
        for n in au.walk_no_defs(stmt):
            if not isinstance(n, ast.JoinedStr):
                continue
            text = ''.join(v.value if isinstance(v, ast.Constant) else '\0'
                           for v in n.values)
            fvals = [v.value for v in n.values
                     if isinstance(v, ast.FormattedValue)]
            if text.startswith('ite(\0, \0, \0)') and len(fvals) >= 3:
                # ite({var}, {HIGH}, {LOW})
                self.two_slot_expr(env, n, fvals[1], fvals[2], (HIGH, LOW),
                                   path, 'ite(var, HIGH, LOW) formula')
            elif '": [\0, \0, \0]' in text and len(fvals) >= 4:
                # JSON node: "id": [level, LOW, HIGH]
                self.two_slot_expr(env, n, fvals[-2], fvals[-1], (LOW, HIGH),
                                   path, 'JSON node [level, LOW, HIGH]')

    def two_slot_expr(self, env, node, a, b, want, path, label):
        ra, rb = env.of(a), env.of(b)
        self.sinks += 1
        other = {LOW: HIGH, HIGH: LOW}
        if ra == other[want[0]] and rb == other[want[1]]:
            self.violation(
                'crossed', label.split('(')[0].split(' ')[0] + '-text',
                f'`{au.short(node, 80)}`: {label} receives ({ra}, {rb})',
                node, path)
        else:
            self.R.count('role sinks ok')

    def check_compare_const(self, env, test, path):
        """`p == 'FALSE' and q == 'TRUE'` in the printer."""
        for n in ast.walk(test):
            if isinstance(n, ast.Compare) and len(n.ops) == 1 and \
                    isinstance(n.ops[0], ast.Eq) and isinstance(
                        n.comparators[0], ast.Constant):
                c = n.comparators[0].value
                r = env.of(n.left)
                if c in ('FALSE', 'TRUE') and r in (LOW, HIGH):
                    self.sinks += 1
                    want = LOW if c == 'FALSE' else HIGH
                    if r != want:
                        self.violation(
                            'const-assoc', f"== '{c}'",
                            f'`{au.short(n)}`: the {r} branch is compared '
                            f"with '{c}' in the variable shortcut",
                            n, path)

    def check_return(self, env, stmt, path):
        """Triple/pair-returning helpers and `low`/`high` accessors."""
        name = self.func.name
        v = stmt.value
        if v is None:
            return
        if name in TRIPLE_CALLS and isinstance(v, ast.Tuple) and len(
                v.elts) == 3:
            self.two_slot_expr(env, v, v.elts[1], v.elts[2], (LOW, HIGH),
                               path, f'{name}() -> (level, LOW, HIGH)')
        elif name in PAIR_CALLS and isinstance(v, ast.Tuple) and len(
                v.elts) == 2:
            self.two_slot_expr(env, v, v.elts[0], v.elts[1], (LOW, HIGH),
                               path, f'{name}() -> (LOW, HIGH)')
        elif name in ('low', 'high'):
            if isinstance(v, ast.Constant) and v.value is None:
                return
            r = env.of(v)
            self.sinks += 1
            if r in (LOW, HIGH) and r != name.upper():
                self.violation(
                    'accessor', name,
                    f'accessor `{name}` returns the {r} successor '
                    f'(`{au.short(v)}`)', v, path)


def run_function(R, func, seeds=None, extra=None, scope=None,
                 rule='R-ROLE'):
    """Walk all paths of `func` with the role environment."""
    fn = func.node
    ck = Checker(R, func, rule)
    try:
        if scope is None:
            plist = pa.function_paths(fn)
        else:
            plist = [items + [('exit', fn, out)]
                     for items, out in pa.block_paths(scope)]
    except pa.PathExplosion:
        R.undecided(rule, func.qualname, 'roles', 'path explosion')
        return ck
    R.count('paths', len(plist))
    for path in plist:
        env = Env(fn, func.name, seeds)
        for it in path:
            if it[0] == 'test':
                ck.check_compare_const(env, it[1], path)
                if extra:
                    extra(ck, env, it, path)
            elif it[0] == 'loop':
                node = it[1]
                if isinstance(node, ast.For) and it[2] >= 1:
                    ck.check_calls(env, node.iter, path)
                    env.bind_for(node)
            elif it[0] == 'stmt':
                s = it[1]
                if isinstance(s, (ast.FunctionDef, ast.ClassDef)):
                    continue
                ck.check_calls(env, s, path)
                ck.check_fstring(env, s, path)
                if isinstance(s, ast.Return):
                    ck.check_return(env, s, path)
                if extra:
                    extra(ck, env, it, path)
                if isinstance(s, ast.Assign):
                    # d0[i] = False  /  kw = dict(style='dashed')
                    t = s.targets[0]
                    if isinstance(t, ast.Subscript) and isinstance(
                            t.value, ast.Name) and isinstance(
                                s.value, ast.Constant) and \
                            s.value.value in (True, False):
                        env.assoc[t.value.id] = (
                            HIGH if s.value.value else LOW)
                    if isinstance(t, ast.Name) and isinstance(
                            s.value, ast.Call) and au.call_name(
                                s.value) == 'dict':
                        for k in s.value.keywords:
                            if k.arg == 'style' and isinstance(
                                    k.value, ast.Constant):
                                env.assoc[('style', t.id)] = k.value.value
                    for t in s.targets:
                        env.bind_target(t, s.value)
                elif isinstance(s, ast.AnnAssign) and s.value is not None:
                    env.bind_target(s.target, s.value)
    return ck


# ------------------------------------------------------------------ instances
INSTANCES = {
    'C01': ['dd.bdd.BDD._ite', 'dd.bdd.BDD._top_cofactor'],
    'C02': ['dd.bdd.BDD.reduction'],
    'C03': ['dd.bdd.BDD._quantify', 'dd.bdd.BDD._top_cofactor'],
    'C04': ['dd.bdd.BDD._compose', 'dd.bdd.BDD._vector_compose',
            'dd.bdd.BDD._cofactor', 'dd.bdd._copy_bdd',
            'dd.bdd.BDD._top_cofactor'],
    'C05': ['dd.bdd.BDD._to_expr'],
    'C07': ['dd.bdd.BDD._low_high', 'dd.bdd.BDD._swap_cofactor'],
    'C10': ['dd.bdd.BDD._sat_iter'],
    'C11': ['dd.bdd._copy_bdd', 'dd._copy._copy_bdd'],
    'C12': ['dd.bdd.BDD._load', 'dd._copy._dump_bdd',
            'dd._copy._make_node'],
    'C13': ['dd.bdd._image', 'dd.bdd.BDD._top_cofactor'],
    # (C16: the roles in dd.dddmp.load and Parser._add_node are decided by
    # the loader and parser models of rules/models.py)
    'C16': [],
    'C18': ['dd.autoref.Function.low', 'dd.autoref.Function.high',
            'dd.autoref.BDD.succ', 'dd.bdd.to_nx',
            'dd.bdd._to_dot'],
}
FLOORS = {'C01': 4, 'C02': 1, 'C03': 2, 'C04': 9, 'C05': 2, 'C07': 2,
          'C10': 2, 'C11': 3, 'C12': 4, 'C13': 3, 'C16': 0, 'C18': 8}


def seeds_for(P, func):
    q = func.qualname
    if q == 'dd._copy._make_node':
        # JSON node layout: {"id": [level, LOW, HIGH]}
        for s in func.node.body:
            if isinstance(s, ast.Assign) and isinstance(
                    s.value, ast.Call) and au.call_name(
                        s.value) == 'items':
                t = s.targets[0]
                names = [n for n in ast.walk(t) if isinstance(n, ast.Name)]
                # ((uid, (level, low, high)),) = d.items()
                inner = [n for n in ast.walk(t) if isinstance(
                    n, ast.Tuple) and len(n.elts) == 3 and all(
                        isinstance(x, ast.Name) for x in n.elts)]
                if inner:
                    a = inner[0].elts
                    return {a[1].id: LOW, a[2].id: HIGH}
        raise AnalysisError(
            f'{q}: the unpacking of the JSON node triple vanished')
    if q == 'dd.dddmp.Parser._add_node':
        # roles of the parameters from the call site in _parse_body:
        # DDDMP node line = "id info index THEN ELSE"
        body = P.func('dd.dddmp.Parser._parse_body')
        fmt = None
        call = None
        for n in ast.walk(body.node):
            if isinstance(n, ast.Assign) and isinstance(
                    n.value, ast.Call) and au.call_name(
                        n.value) == 'split' and isinstance(
                            n.targets[0], ast.Tuple) and len(
                                n.targets[0].elts) == 5:
                fmt = [x.id for x in n.targets[0].elts]
            if isinstance(n, ast.Call) and au.call_name(n) == '_add_node':
                call = n
        if fmt is None or call is None:
            raise AnalysisError(
                'dd.dddmp: the node line split / _add_node call vanished')
        line_role = {fmt[3]: HIGH, fmt[4]: LOW}   # THEN, ELSE
        params = [p for p in func.params if p != 'self']
        seeds = dict()
        for p, a in zip(params, call.args):
            if isinstance(a, ast.Name) and a.id in line_role:
                seeds[p] = line_role[a.id]
        if len(seeds) != 2:
            raise AnalysisError(
                'dd.dddmp._add_node: cannot map THEN/ELSE to parameters')
        return seeds
    return None


def extra_for(func):
    q = func.qualname
    if q == 'dd.dddmp.Parser._add_node':
        def extra(ck, env, it, path):
            # the store into the table is (level, LOW, HIGH); the edge
            # rejected as complemented is the HIGH one
            if it[0] == 'stmt' and isinstance(it[1], ast.Assign):
                s = it[1]
                t = s.targets[0]
                if isinstance(t, ast.Subscript) and isinstance(
                        s.value, ast.Tuple) and len(s.value.elts) == 3:
                    ck.two_slot_expr(
                        env, s, s.value.elts[1], s.value.elts[2],
                        (LOW, HIGH), path,
                        'table entry (level, LOW, HIGH)')
            if it[0] == 'test' and it[2] is True:
                node = it[3]
                if node.body and isinstance(node.body[-1], ast.Raise):
                    for n in ast.walk(it[1]):
                        if isinstance(n, ast.Compare) and isinstance(
                                n.ops[0], ast.Lt) and au.const_int(
                                    n.comparators[0]) == 0:
                            r = env.of(n.left)
                            ck.sinks += 1
                            if r == LOW:
                                ck.violation(
                                    'reject-complement', 'raise',
                                    f'`{au.short(it[1])}`: the LOW (else) '
                                    'edge is rejected as complemented; '
                                    'only the HIGH (then) edge must be '
                                    'regular', node, path)
        return extra
    if q == 'dd.bdd.BDD._cofactor':
        def extra(ck, env, it, path):
            # truthy value selects HIGH: remember the arm of the test on
            # the assigned value, check the recursion subject
            if it[0] == 'test' and any(
                    isinstance(n, ast.Name) and n.id == 'val'
                    for n in ast.walk(it[1])):
                # truth value of `val` implied by this arm
                e, truthy = it[1], it[2]
                while True:
                    if isinstance(e, ast.UnaryOp) and isinstance(
                            e.op, ast.Not):
                        e, truthy = e.operand, not truthy
                    elif isinstance(e, ast.Call) and au.call_name(
                            e) == 'bool' and len(e.args) == 1:
                        e = e.args[0]
                    else:
                        break
                if au.is_name(e, 'val'):
                    env.assoc['<val-arm>'] = HIGH if truthy else LOW
                else:
                    env.assoc.pop('<val-arm>', None)
            if it[0] == 'stmt' and '<val-arm>' in env.assoc:
                for c in au.calls_in(it[1], '_cofactor'):
                    r = env.of(c.args[0]) if c.args else None
                    want = env.assoc['<val-arm>']
                    ck.sinks += 1
                    if r in (LOW, HIGH) and r != want:
                        ck.violation(
                            'value-arm', 'val',
                            f'with the variable set to '
                            f'{"True" if want == HIGH else "False"} the '
                            f'recursion continues into the {r} successor',
                            c, path)
        return extra
    if q == 'dd.autoref.BDD.succ':
        def extra(ck, env, it, path):
            if it[0] == 'stmt' and isinstance(it[1], ast.Return) and \
                    isinstance(it[1].value, ast.Tuple) and len(
                        it[1].value.elts) == 3:
                v = it[1].value
                ck.two_slot_expr(env, v, v.elts[1], v.elts[2], (LOW, HIGH),
                                 path, 'succ() -> (level, LOW, HIGH)')
        return extra
    return None


def r_role(P, R):
    pid = R.prop
    total = 0
    for q in INSTANCES.get(pid, []):
        f = P.func(q)
        ck = run_function(R, f, seeds_for(P, f), extra_for(f))
        total += ck.sinks
        if ck.sinks == 0:
            R.undecided('R-ROLE', q, 'roles',
                        'no role-carrying sink found')
        elif not ck.bad:
            R.holds('R-ROLE', q,
                    f'{ck.sinks} role sink evaluation(s), none crossed')
    R.floor(f'R-ROLE sink evaluations for {pid}', total,
            FLOORS.get(pid, 1))
r_role.NAME = 'R-ROLE'


# ------------------------------------------------------------------- R-CONN
def r_conn(P, R):
    """`ite` with constant arguments under `if forall:` is AND / OR."""
    targets = {'C03': ['dd.bdd.BDD._quantify'], 'C13': ['dd.bdd._image']}
    n = 0
    for q in targets.get(R.prop, []):
        f = P.func(q)
        plist = pa.function_paths(f.node)
        seen = set()
        for path in plist:
            arm = None
            for it in path:
                if it[0] == 'test' and au.is_name(it[1], 'forall'):
                    arm = it[2]
                if it[0] == 'stmt' and arm is not None:
                    for c in au.calls_in(it[1], 'ite'):
                        if len(c.args) != 3:
                            continue
                        if all(au.const_int(a) is None for a in c.args):
                            continue
                        key = (c.lineno, arm)
                        if key in seen:
                            continue
                        seen.add(key)
                        n += 1
                        names = sorted({x.id for a in c.args
                                        for x in ast.walk(a)
                                        if isinstance(x, ast.Name)})
                        if len(names) != 2:
                            R.undecided('R-CONN', q, au.short(c),
                                        'not a two-operand encoding')
                            continue
                        ev = me.Evaluator(dict())
                        env = {nm: ('sym', nm) for nm in names}
                        vals = [me.as_bexp(ev.expr(a, env)) for a in c.args]
                        try:
                            tt = me.table(('ite',) + tuple(vals),
                                          tuple(names))
                        except me.Undecided as e:
                            R.undecided('R-CONN', q, au.short(c), str(e))
                            continue
                        a, b = ('sym', names[0]), ('sym', names[1])
                        want = me.table(
                            ('and', a, b) if arm else ('or', a, b),
                            tuple(names))
                        kind = 'conjunction' if arm else 'disjunction'
                        if tt == want:
                            R.holds('R-CONN', q,
                                    f'`{au.short(c)}` under forall={arm} '
                                    f'is the {kind}')
                        else:
                            R.violation(
                                'R-CONN', 'encoding', q,
                                f'forall={arm}',
                                f'`{au.short(c)}` under `forall` == {arm} '
                                f'is not the {kind} of the two cofactor '
                                'results', unit=f.unit.rel, line=c.lineno,
                                path=pa.describe(path))
    R.floor(f'R-CONN encodings for {R.prop}', n,
            2 * len(targets.get(R.prop, [])))
r_conn.NAME = 'R-CONN'


def r_quant_guard(P, R):
    """The arm that keeps the variable of a level is entered exactly when
    the level is not quantified (`<level> in qvars` is false)."""
    targets = {'C03': [('dd.bdd.BDD._quantify', 'find_or_add')],
               'C13': [('dd.bdd._image', 'ite')]}
    n = 0
    for q, sink in targets.get(R.prop, []):
        f = P.func(q)
        plist = pa.function_paths(f.node)
        bad = None
        keep = 0
        for path in plist:
            member = None     # truth of `<x> in qvars` on this path
            other = []
            for it in path:
                if it[0] == 'test':
                    t = it[1]
                    if isinstance(t, ast.Compare) and len(
                            t.ops) == 1 and isinstance(
                                t.ops[0], (ast.In, ast.NotIn)) and \
                            au.is_name(t.comparators[0], 'qvars') and \
                            isinstance(t.left, ast.Name):
                        val = it[2] if isinstance(
                            t.ops[0], ast.In) else not it[2]
                        member = val
                    elif 'qvars' in au.names_loaded(t):
                        other.append(it)
                if it[0] == 'stmt' and isinstance(it[1], ast.Assign):
                    c = it[1].value
                    is_keep = isinstance(c, ast.Call) and au.call_name(
                        c) == sink and len(c.args) == 3 and all(
                            au.const_int(a) is None for a in c.args[1:])
                    if is_keep:
                        keep += 1
                        if member is not False:
                            bad = (path, c, other)
        n += 1
        if bad:
            path, c, other = bad
            why = (f'under the composite test '
                   f'`{au.short(other[0][1])}`' if other else
                   'without a test of the level against qvars')
            R.violation(
                'R-CONN', 'quantified-level-kept', q, sink,
                f'`{au.short(c, 60)}` keeps the variable of the current '
                f'level in the result {why}: a level that is in qvars can '
                'reach this arm and is then not quantified',
                unit=f.unit.rel, line=c.lineno, path=pa.describe(path))
        elif keep:
            R.holds('R-CONN', q, f'the variable of a level is kept only '
                    f'when `level in qvars` is false ({keep} path(s))')
        else:
            R.undecided('R-CONN', q, 'keep arm', 'not found')
    R.floor(f'R-CONN keep-arm guards for {R.prop}', n,
            len(targets.get(R.prop, [])))
r_quant_guard.NAME = 'R-CONN(quantified levels never kept)'


def r_spaces(P, R):
    """`_image(u, v, umap, vmap, ...)`: the second operand is read through
    the renaming `vmap` (its level jv stands for level vmap[jv]), the first
    is not.  A node number of `u` and a node number of `v` therefore do
    not denote functions over the same variables, and comparing them
    (`u == v`, `u == -v`) says nothing about u /\\ v - unless the test also
    establishes that there is no renaming."""
    f = P.func('dd.bdd._image')
    params = f.params
    if len(params) < 4:
        raise AnalysisError('dd.bdd._image: signature changed')
    a, b, vmap = params[0], params[1], params[3]
    # names derived from each operand through _top_cofactor
    side = {a: 'first', b: 'second'}
    for s in sorted((x for x in au.walk_no_defs(f.node)
                     if isinstance(x, ast.Assign)), key=lambda x: x.lineno):
        if isinstance(s.value, ast.Call) and au.call_name(
                s.value) == '_top_cofactor' and s.value.args and \
                isinstance(s.value.args[0], ast.Name) and \
                s.value.args[0].id in side:
            for nm in au.target_names(s.targets[0]):
                side[nm] = side[s.value.args[0].id]
    au.set_parents(f.node)
    n = 0
    for c in au.walk_no_defs(f.node):
        if not isinstance(c, ast.Compare) or len(c.ops) != 1:
            continue
        n += 1
        l = {side[x.id] for x in ast.walk(c.left)
             if isinstance(x, ast.Name) and x.id in side}
        r = {side[x.id] for x in ast.walk(c.comparators[0])
             if isinstance(x, ast.Name) and x.id in side}
        if not ((l == {'first'} and r == {'second'}) or (
                l == {'second'} and r == {'first'})):
            continue
        # guarded by `vmap is None` in the same test or an enclosing one?
        ok = False
        p = c
        while p is not None and not ok:
            t = p.test if isinstance(p, (ast.If, ast.IfExp)) else (
                p if isinstance(p, ast.BoolOp) and isinstance(
                    p.op, ast.And) else None)
            if t is not None:
                for x in ast.walk(t):
                    if isinstance(x, ast.Compare) and au.is_name(
                            x.left, vmap) and isinstance(
                                x.ops[0], ast.Is) and isinstance(
                                    x.comparators[0], ast.Constant) and \
                            x.comparators[0].value is None:
                        ok = True
            p = getattr(p, '_parent', None)
        if not ok:
            R.violation(
                'R-DOMAIN', 'operands-of-two-spaces', f.qualname,
                au.short(c, 30),
                f'`{au.short(c)}` compares a reference of the first '
                'operand with one of the second: the second operand is '
                f'read through the renaming `{vmap}`, so equal (or '
                'complementary) node numbers do not mean equal (or '
                'complementary) functions', unit=f.unit.rel,
                line=c.lineno)
    R.holds('R-DOMAIN', f.qualname,
            f'{n} comparison(s): none relates a reference of `{a}` to a '
            f'reference of `{b}` without `{vmap} is None`')
r_spaces.NAME = 'R-DOMAIN(operands of _image)'
