"""R-RAW: validation before mutation; cleanup on exceptional exits."""
import ast

from .. import astutil as au
from .. import paths as pa
from ..frontend import AnalysisError

STATE = {'_succ', '_pred', '_ref', '_min_free', 'vars', '_level_to_var',
         '_ite_table', 'roots'}
# calls that change observable manager state
MUTATOR_CALLS = {'incref', 'decref', 'undeclare_vars', '_init_terminal',
                 'swap', 'add_var', 'declare', 'reorder', '_sort_to_order',
                 '_apply_sifting', 'reorder_to_pairs', '_shift',
                 '_reorder_var'}
# calls that may raise a user-facing error (the repository's validators)
VALIDATORS = {'_check_var', '_next_free_level', 'level_of_var',
              'var_at_level', '_map_to_level', '_assert_keys_are_levels',
              'assert_operator_arity', '_assert_valid_rename',
              '_assert_no_overlap', '_assert_valid_ordering', 'add_var',
              'declare'}
EXEMPT = {
    'dd.bdd.BDD.__init__': 'the object is not published before __init__ '
                           'returns',
    'dd.bdd.BDD.declare': 'each add_var is atomic; an extra declared '
                          'variable changes no function',
    'dd.autoref.BDD.declare': 'as dd.bdd.BDD.declare',
    'dd.bdd.BDD._load_pickle': 'variable loop: each add_var is atomic; an '
                               'extra declared variable changes no '
                               'function',
    'dd._copy.copy_vars': 'as declare',
    'dd._copy._store_line': 'declare of the loaded variables precedes the '
                            'optional reorder; both are atomic steps',
    'dd.bdd._sort_to_order': 'each swap is atomic and keeps the order a '
                             'bijection',
    'dd.bdd.reorder_to_pairs': 'as _sort_to_order',
    'dd.bdd._shift': 'as _sort_to_order',
    'dd.bdd._reorder_var': 'as _sort_to_order',
    'dd.bdd._apply_sifting': 'as _sort_to_order',
    'dd.bdd.reorder': 'as _sort_to_order',
    'dd.autoref.reorder': 'as _sort_to_order',
    'dd.autoref.BDD.reorder': 'as _sort_to_order',
    'dd.mdd.bdd_to_mdd': 'documented to reorder the BDD first',
}


# validators whose rejection is infeasible at a given call site
FEASIBILITY = {
    ('dd.bdd.BDD.swap', 'var_at_level'):
        'x and y were range-checked against len(self.vars) before the '
        'first write',
}


def events(stmt):
    """(kind, node, text) events of one statement, in evaluation order."""
    out = []
    for c in sorted(au.calls_in(stmt), key=lambda c: (
            getattr(c, 'end_lineno', c.lineno), c.col_offset)):
        name = au.call_name(c)
        if name in VALIDATORS:
            out.append(('raise', c, f'validator {name}()'))
        if name in MUTATOR_CALLS:
            out.append(('write', c, f'{name}()'))
        if isinstance(c.func, ast.Attribute) and c.func.attr in (
                'add', 'update', 'pop', 'clear', 'setdefault', 'discard',
                'remove') and isinstance(c.func.value, ast.Attribute) \
                and c.func.value.attr in STATE:
            out.append(('write', c, f'{c.func.value.attr}.{c.func.attr}()'))
    targets = []
    if isinstance(stmt, ast.Assign):
        targets = stmt.targets
    elif isinstance(stmt, (ast.AugAssign, ast.AnnAssign)):
        targets = [stmt.target]
    elif isinstance(stmt, ast.Delete):
        targets = stmt.targets
    for t in targets:
        for x in (t.elts if isinstance(t, ast.Tuple) else [t]):
            base = x
            if isinstance(x, ast.Subscript):
                base = x.value
            if isinstance(base, ast.Attribute) and base.attr in STATE:
                out.append(('write', stmt, f'store into {base.attr}'))
    return out


def infeasible_after_incref(path, raise_node, first_write):
    """`M.incref(x)` succeeded, so `x` is a node of `M`: a rejection under
    `x not in M` afterwards cannot happen (incref of an unknown node raises
    KeyError itself, before it writes)."""
    w = first_write[0]
    calls = [c for c in au.calls_in(w) if au.call_name(c) == 'incref']
    if not calls or not calls[0].args or not isinstance(
            calls[0].args[0], ast.Name):
        return False
    x = calls[0].args[0].id
    recv = au.call_recv(calls[0]) or []
    for it in path:
        if it[0] == 'test' and it[2] and any(
                raise_node is y for st in getattr(it[3], 'body', [])
                for y in ast.walk(st)):
            t = it[1]
            if isinstance(t, ast.Compare) and len(t.ops) == 1 and \
                    isinstance(t.ops[0], ast.NotIn) and au.is_name(
                        t.left, x):
                m = au.chain(t.comparators[0]) or []
                if m and recv and (m == recv or m[-1] == recv[-1]):
                    return True
    return False


def r_raw(P, R):
    mods = {'dd.bdd', 'dd.autoref', 'dd._copy'}
    n_mut = 0
    only = {'C14': {'dd.bdd.BDD.add_var', 'dd.bdd.BDD.undeclare_vars',
                    'dd.bdd.BDD._init_terminal', 'dd.autoref.BDD.add_var'},
            'C07': {'dd.bdd.BDD.swap', 'dd.bdd._shift',
                    'dd.bdd._sort_to_order', 'dd.bdd.reorder_to_pairs',
                    'dd.bdd._reorder_var'}}.get(R.prop)
    for f in sorted(P.all_funcs(mods), key=lambda f: f.qualname):
        if f.qualname.count('.') > 3:
            continue
        if only is not None and f.qualname not in only:
            continue
        try:
            plist = pa.function_paths(f.node, limit=4000)
        except pa.PathExplosion:
            plist = None
        if plist is None:
            # BDD.swap: straight-line order of the top-level statements
            first_write = None
            late = None
            for s in f.node.body:
                ev = []
                for n in au.walk_no_defs(s):
                    if isinstance(n, ast.stmt):
                        ev.extend(events(n) if not isinstance(
                            n, (ast.If, ast.For, ast.While, ast.Try,
                                ast.With, ast.Match)) else [])
                    if isinstance(n, ast.Raise) and not \
                            au.raises_assertion(n):
                        ev.append(('raise', n, 'raise '
                                   + str(au.raised_name(n))))
                for kind, node, text in ev:
                    if kind == 'raise' and any(
                            (f.qualname, v) in FEASIBILITY
                            and text == f'validator {v}()'
                            for v in VALIDATORS):
                        continue
                    if kind == 'write' and first_write is None and \
                            text != 'collect_garbage()':
                        first_write = (node, text)
                    if kind == 'raise' and first_write is not None and \
                            node.lineno > first_write[0].lineno:
                        late = (node, text)
            n_mut += 1
            if late:
                R.violation(
                    'R-RAW', 'raise-after-write', f.qualname,
                    late[1], f'{late[1]} at line {late[0].lineno} can '
                    f'reject the call after {first_write[1]} at line '
                    f'{first_write[0].lineno} already changed the manager',
                    unit=f.unit.rel, line=late[0].lineno)
            else:
                R.holds('R-RAW', f.qualname, 'every user-facing rejection '
                        'precedes the first write (statement order)')
            continue
        has_write = False
        bad = None
        for path in plist:
            first_write = None
            for it in path:
                if it[0] == 'stmt':
                    for kind, node, text in events(it[1]):
                        if kind == 'write':
                            has_write = True
                            if first_write is None:
                                first_write = (node, text)
                        elif kind == 'raise' and first_write is not None:
                            # the validator call itself may be the writer
                            if node is first_write[0]:
                                continue
                            if any((f.qualname, v) in FEASIBILITY
                                   and text == f'validator {v}()'
                                   for v in VALIDATORS):
                                continue
                            bad = bad or (path, node, text, first_write)
                if it[0] == 'exit' and it[2] == 'raise' and \
                        first_write is not None:
                    if infeasible_after_incref(path, it[1], first_write):
                        continue
                    bad = bad or (path, it[1],
                                  'raise ' + str(au.raised_name(it[1])),
                                  first_write)
        if not has_write:
            continue
        n_mut += 1
        if bad and f.qualname in EXEMPT:
            R.holds('R-RAW', f.qualname,
                    f'rejection after a write is exempt: '
                    f'{EXEMPT[f.qualname]}', nontrivial=False)
        elif bad:
            path, node, text, fw = bad
            R.violation(
                'R-RAW', 'raise-after-write', f.qualname, text,
                f'{text} at line {node.lineno} can reject the call after '
                f'{fw[1]} at line {fw[0].lineno} already changed the '
                'manager: a failed call leaves a partial update',
                unit=f.unit.rel, line=node.lineno, path=pa.describe(path))
        else:
            R.holds('R-RAW', f.qualname, 'every user-facing rejection '
                    'precedes the first write on all paths')
    R.floor('R-RAW functions that write manager state', n_mut,
            12 if only is None else 3)
r_raw.NAME = 'R-RAW(validation before mutation)'


# -------------------------------------------------------- guards still there
# (the argument checks of find_or_add and swap are decided by R-ACCEPT,
# which interprets them, not by the names they mention)
GUARDS = [
    # (function, argument that must be rejected when invalid,
    #  what the rejecting test has to mention, call it must precede)
    ('dd.bdd.BDD.var', 'var', ['self.vars'], 'find_or_add'),
    ('dd.bdd.BDD.cofactor', 'u', ['self'], '_cofactor'),
    ('dd.bdd.BDD.apply', 'u', ['self'], 'ite'),
    ('dd.bdd.BDD.apply', 'v', ['self'], 'ite'),
    ('dd.bdd.BDD.apply', 'w', ['self'], 'ite'),
    ('dd.bdd.BDD.to_expr', 'u', ['self'], '_to_expr'),
    ('dd.bdd.BDD.count', 'u', ['self'], '_sat_len'),
    ('dd.bdd.rename', 'u', ['bdd'], '_copy_bdd'),
    ('dd.autoref.BDD.__contains__', 'u', ['self', 'bdd'], None),
    ('dd.autoref.BDD._wrap', 'u', ['self._bdd'], 'Function'),
    # (no ordering against incref: incref of an unknown node raises
    # KeyError itself before it writes, see infeasible_after_incref)
    ('dd.autoref.Function.__init__', 'node', ['bdd'], None),
]


def raising_guards(fn):
    """`if <test>: ... raise <non-assertion>` statements of a function."""
    out = []
    for node in au.walk_no_defs(fn):
        if isinstance(node, ast.If) and node.body and isinstance(
                node.body[-1], ast.Raise) and not au.raises_assertion(
                    node.body[-1]):
            out.append(node)
    return out


def _expanded_test(fn, test):
    """Source of `test` with the local aliases of attribute chains
    written out (`manager = bdd._bdd` ... `node not in manager`)."""
    import re
    alias = dict()
    for s in au.walk_no_defs(fn):
        if isinstance(s, ast.Assign) and len(s.targets) == 1 and \
                isinstance(s.targets[0], ast.Name) and au.chain(s.value) \
                and len(au.assignments_to(fn, s.targets[0].id)) == 1:
            alias[s.targets[0].id] = au.src(s.value)
    t = au.src(test)
    for k, v in alias.items():
        t = re.sub(rf'(?<![\w.]){re.escape(k)}(?![\w])', v, t)
    return t.replace(' ', '')


def _position(fn):
    """Pre-order position of every node of the function (expanded
    helpers keep the line numbers of their own file position, so line
    numbers do not order statements)."""
    pos = dict()
    for k, n in enumerate(ast.walk(fn)):
        pos[id(n)] = k
    # ast.walk is breadth-first: use a depth-first order instead
    pos.clear()
    k = [0]

    def visit(n):
        pos[id(n)] = k[0]
        k[0] += 1
        for c in ast.iter_child_nodes(n):
            visit(c)
    visit(fn)
    return pos


def _is_membership_helper(h):
    from .. import normalise
    inv = normalise.load_inventory()
    if inv is None or h.qualname in inv or not h.name.startswith('_'):
        return False
    for node in raising_guards(h.node):
        t = au.src(node.test).replace(' ', '')
        if t.endswith('notinself'):
            return True
    return False


def r_guards(P, R):
    n = 0
    for q, param, mentions, before in GUARDS:
        f = P.func(q)
        found = None
        for node in raising_guards(f.node):
            t = _expanded_test(f.node, node.test)
            names = au.names_loaded(node.test)
            if param in names and all(m.replace(' ', '') in t
                                      for m in mentions):
                found = node
                break
        desc = f'`{param}` against {" / ".join(mentions)}'
        if found is None:
            R.violation(
                'R-RAW', 'guard-missing', q, f'{param}:{",".join(mentions)}',
                f'no test rejects an invalid {desc} with an error any '
                'more: the argument is used instead of being refused',
                unit=f.unit.rel, line=f.lineno)
            continue
        n += 1
        if before is not None:
            pos = _position(f.node)
            firsts = [pos[id(c)] for c in au.calls_in(f.node)
                      if au.call_name(c) == before]
            if firsts and min(firsts) < pos[id(found)]:
                R.violation(
                    'R-RAW', 'guard-late', q, f'{param}',
                    f'{desc} is checked after `{before}` was already '
                    'called', unit=f.unit.rel, line=found.lineno)
                continue
        R.holds('R-RAW', q, f'rejects an invalid {desc} before use')
    # every dd.autoref.BDD method that hands `<p>.node` to the manager
    # first checks `<p> not in self` (or is a reviewed exception)
    reviewed = {'find_or_add', 'incref', 'decref', 'succ', '__contains__'}
    for f in P.methods('dd.autoref', 'BDD'):
        params = [p for p in f.params if p != 'self']
        used = set()
        for c in au.calls_in(f.node):
            if au.call_recv(c) == ['self', '_bdd']:
                for a in ast.walk(c):
                    if isinstance(a, ast.Attribute) and a.attr == 'node' \
                            and isinstance(a.value, ast.Name) and \
                            a.value.id in params:
                        used.add(a.value.id)
        if not used:
            continue
        guards = set()
        for node in au.walk_no_defs(f.node):
            if isinstance(node, ast.If) and node.body and isinstance(
                    node.body[-1], ast.Raise):
                t = au.src(node.test).replace(' ', '')
                for p in used:
                    if f'{p}notinself' in t:
                        guards.add(p)
        # ... or hands them to a private helper that the reference tree
        # does not have and that makes that check on what it is given
        for c in au.calls_in(f.node):
            if au.call_recv(c) != ['self']:
                continue
            h = P.func(f'dd.autoref.BDD.{au.call_name(c)}', required=False)
            if h is None or not _is_membership_helper(h):
                continue
            for a in c.args:
                if isinstance(a, ast.Name) and a.id in used:
                    guards.add(a.id)
        missing = used - guards
        if not missing:
            n += 1
            R.holds('R-RAW', f.qualname,
                    f'operands {sorted(used)} are checked to belong to '
                    'this manager')
        elif f.name in reviewed:
            R.unreviewed_site(
                'R-RAW', f.qualname,
                f'operands {sorted(missing)} are not checked against the '
                'manager (accepted on the reference tree)')
        else:
            R.violation(
                'R-RAW', 'guard-missing', f.qualname,
                ','.join(sorted(missing)),
                f'operand(s) {sorted(missing)} are handed to the manager '
                'without the `not in self` check: a Function of another '
                'manager is silently used as a node number of this one',
                unit=f.unit.rel, line=f.lineno)
    R.floor('R-RAW guards present', n, 18)
r_guards.NAME = 'R-RAW(guards present)'


# --------------------------------------------------------------- R-PAIR(d)
def r_temporaries(P, R):
    """References taken by a loader are given back on every exit."""
    mk = P.func('dd._copy._make_node')
    ld = P.func('dd._copy._load_json')
    # (1) _make_node: one incref per memo entry it creates
    bad = None
    n = 0
    for path in pa.function_paths(mk.node):
        if pa.exit_kind(path) not in ('fall', 'return'):
            continue
        incs = stores = 0
        for it in path:
            if it[0] != 'stmt':
                continue
            s = it[1]
            incs += sum(1 for c in au.calls_in(s, 'incref'))
            if isinstance(s, ast.Assign) and isinstance(
                    s.targets[0], ast.Subscript) and au.is_name(
                        s.targets[0].value, 'cache'):
                stores += 1
        n += 1
        if incs != stores:
            bad = (path, incs, stores)
    if bad:
        R.violation(
            'R-PAIR', 'temporaries', mk.qualname, 'incref',
            f'_make_node takes {bad[1]} reference(s) but records '
            f'{bad[2]} node(s) in the loader memo on a path: the final '
            'release loop of the loader (one decref per memo entry) '
            'cannot balance it', unit=mk.unit.rel, line=mk.lineno,
            path=pa.describe(bad[0]))
    else:
        R.holds('R-PAIR', mk.qualname,
                f'one incref per memo entry on each of {n} normal path(s)')
    # (1b) nothing can reject the record after its reference was taken:
    # an unreadable record (a complemented node, a negative level) is
    # refused by an assertion, and the reference taken for it would stay
    incs = [c for c in au.calls_in(mk.node, 'incref')]
    if incs:
        first = min(c.lineno for c in incs)
        late = [x for x in au.walk_no_defs(mk.node)
                if isinstance(x, (ast.Raise, ast.Assert))
                and x.lineno > first]
        if late:
            R.violation(
                'R-PAIR', 'temporaries-raise-after-incref', mk.qualname,
                'incref',
                f'`{au.short(late[0], 50)}` (line {late[0].lineno}) can '
                f'refuse the record after `incref` (line {first}) took '
                'the reference for it: a file with such a record makes '
                'load() raise and leaves a count that nobody gives back',
                unit=mk.unit.rel, line=late[0].lineno)
        else:
            R.holds('R-PAIR', mk.qualname, 'the reference for a record is '
                    'taken after the last check that can refuse it')
    # (2) _load_json: one decref per memo entry on the normal exit
    rel = [lp for lp in au.walk_no_defs(ld.node)
           if isinstance(lp, ast.For) and au.is_name(lp.iter, 'cache')
           and any(au.call_name(c) == 'decref' for c in au.calls_in(lp))]
    if not rel:
        R.violation(
            'R-PAIR', 'temporaries', ld.qualname, 'decref',
            'the loader no longer releases the references that '
            '_make_node takes for every loaded node', unit=ld.unit.rel,
            line=ld.lineno)
        return
    loop = rel[0]
    decs = [c for c in au.calls_in(loop) if au.call_name(c) == 'decref']
    # unconditional on the normal exit: reached from the function body
    # through `try` bodies / final blocks only
    au.set_parents(ld.node)
    top = True
    child, par = loop, getattr(loop, '_parent', None)
    while par is not None and par is not ld.node:
        if not (isinstance(par, ast.Try) and (
                child in par.body or child in par.finalbody)):
            top = False
        child, par = par, getattr(par, '_parent', None)
    if len(decs) == 1 and top:
        R.holds('R-PAIR', ld.qualname, 'one decref per memo entry, '
                'unconditionally on the normal exit')
    else:
        R.violation(
            'R-PAIR', 'temporaries', ld.qualname, 'decref',
            'the release loop does not give back exactly one reference '
            'per loaded node on the normal exit', unit=ld.unit.rel,
            line=loop.lineno)
    if R.prop != 'C17':
        return
    # (3) exceptional exits: the acquiring region must be covered by a
    # try/finally (or except-and-reraise) that runs the release
    acquire = [lp for lp in au.walk_no_defs(ld.node)
               if isinstance(lp, ast.For) and any(
                   au.call_name(c) in ('_store_line', '_make_node')
                   for c in au.calls_in(lp))]
    if not acquire:
        raise AnalysisError(
            'dd._copy._load_json: the line loop calling _store_line '
            'vanished')
    acq = acquire[0]
    covered = False
    p = getattr(acq, '_parent', None)
    while p is not None and p is not ld.node:
        if isinstance(p, ast.Try) and acq in ast.walk(ast.Module(
                body=p.body, type_ignores=[])):
            fin = [c for s in p.finalbody for c in au.calls_in(s, 'decref')]
            exc = [c for h in p.handlers for s in h.body
                   for c in au.calls_in(s, 'decref')]
            if fin or exc:
                covered = True
        p = getattr(p, '_parent', None)
    if covered:
        R.holds('R-PAIR', ld.qualname, 'the temporaries are released on '
                'exceptional exits too')
    else:
        R.violation(
            'R-PAIR', 'temporaries-on-error', ld.qualname, 'decref',
            'the references taken by _make_node for every loaded node are '
            'released only on the normal exit of _load_json: when a line '
            'fails to parse (or a node refers to an unknown id) the '
            'exception leaves the counts raised with no live Function',
            unit=ld.unit.rel, line=acq.lineno)
r_temporaries.NAME = 'R-PAIR(loader temporaries)'


def r_tempdir(P, R):
    """The temporary shelf directory is removed on every exit: decided on
    the temporary directory model (rules/models.py)."""
    from . import models
    n = models.tempdir_model(P, R)
    if n is not None:
        R.floor('R-PAIR temporary directories', n, 8)
r_tempdir.NAME = 'R-PAIR(temporary directory)'
