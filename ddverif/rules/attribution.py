"""Attribution of findings by location.

Every rule is registered with the property it was written for, but a
defect it finds breaks every property whose operations run through the
function the finding lies in.  After a property's own rules have run, the
rules of all *other* properties are run as well (once per program; the
results are shared), and each finding whose function lies in the scope of
this property (ddverif/scope.py: reachable in the resolved call graph from
the property's entry points, which include the set-up and history
operations when the property quantifies over orders or histories) is
reported under this property too.  Findings that are listed as known
findings of their own property are not repeated.
"""
import contextlib
import io

from .. import frontend, report, scope


def all_findings(P):
    """[(property the rule belongs to, Finding), ...] for the program."""
    cache = P.__dict__.setdefault('_attr_cache', dict())
    if 'findings' in cache:
        return cache['findings'], cache['instances']
    from .. import props
    out = []
    n_inst = 0
    buf = io.StringIO()
    for mode in sorted(props.PROPS):
        meta = props.PROPS[mode]
        if meta.get('cython'):
            continue
        res = report.Result(mode, 'quick')
        for rule in meta['rules']:
            if rule in props.HYGIENE or rule is r_attributed:
                continue
            try:
                with contextlib.redirect_stdout(buf):
                    rule(P, res)
            except frontend.AnalysisError:
                continue
            except Exception:
                continue
        n_inst += len(res.instances)
        out.extend((mode, f) for f in res.findings)
    cache['findings'] = out
    cache['instances'] = n_inst
    return out, n_inst


def r_attributed(P, R):
    if R.prop not in scope.ENTRY:
        return
    funcs = scope.functions_of(P, R.prop)
    known = report.load_known()
    listed = {k['key'] for k in known['known']}
    found, n_inst = all_findings(P)
    own = {f.key for f in R.findings}
    n = 0
    for mode, f in found:
        if mode == R.prop or f.key in own or f.key in listed:
            continue
        q = f.func
        hit = False
        while q:
            if q in funcs:
                hit = True
                break
            if q.count('.') <= 2:
                break
            q = q.rsplit('.', 1)[0]
        if not hit:
            continue
        n += 1
        own.add(f.key)
        R.violation(
            f.rule, f.sub, f.func, f.construct,
            f.message + f'  [found by a rule of {mode}; {f.func} is '
            f'reachable from the entry points of {R.prop}]',
            unit=f.unit, line=f.line, path=f.path, stmts=f.stmts)
    R.holds('R-ATTR', f'functions behind {R.prop}',
            f'the rules of the other properties ({n_inst} rule instances '
            f'on this tree) report nothing inside the {len(funcs)} '
            f'functions reachable from the entry points of {R.prop}'
            if n == 0 else
            f'{n} finding(s) of other properties\' rules lie inside the '
            f'scope of {R.prop}', nontrivial=False)
r_attributed.NAME = 'R-ATTR'
