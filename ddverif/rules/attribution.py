"""Attribution of findings by location.

Every rule is registered with the property it was written for, but a
defect it finds breaks every property whose operations run through the
function the finding lies in.  After a property's own rules have run, the
rules of all *other* properties are run as well (once per program; the
results are shared), and each finding whose function lies in the scope of
this property (ddverif/scope.py: reachable in the resolved call graph from
the property's entry points, which include the set-up and history
operations when the property quantifies over orders or histories) is
reported under this property too.  Findings that are listed as known
findings of their own property are not repeated.
"""
import contextlib
import glob
import hashlib
import io
import json
import os

from .. import frontend, report, scope

HERE = os.path.dirname(os.path.dirname(os.path.abspath(__file__)))
CACHE_DIR = os.path.join(os.path.dirname(HERE), '.cache', 'attribution')
_CHECKER_DIGEST = []


def _checker_digest():
    """Digest of the checker itself (every source file, the inventory,
    the known findings): a cached result is only good for the checker
    that computed it."""
    if not _CHECKER_DIGEST:
        h = hashlib.sha256()
        files = sorted(glob.glob(os.path.join(HERE, '**', '*.py'),
                                 recursive=True))
        files += [os.path.join(HERE, 'inventory.json'),
                  os.path.join(os.path.dirname(HERE),
                               'known_findings.json')]
        for f in files:
            try:
                h.update(f.encode())
                h.update(open(f, 'rb').read())
            except OSError:
                pass
        _CHECKER_DIGEST.append(h.hexdigest())
    return _CHECKER_DIGEST[0]


def _tree_digest(P):
    h = hashlib.sha256()
    for name in sorted(P.units):
        u = P.units[name]
        h.update(name.encode())
        h.update((getattr(u, 'text', None) or '').encode())
    h.update(os.environ.get('DDVERIF_NO_NORMALISE', '').encode())
    return h.hexdigest()


def _cache_file(P):
    return os.path.join(CACHE_DIR, _checker_digest()[:16],
                        _tree_digest(P)[:32] + '.json')


def all_findings(P):
    """[(property the rule belongs to, Finding), ...] for the program.

    The result depends on the parsed sources and on the checker only; it
    is kept on disk under /verif/.cache (not committed) keyed by both, so
    that the thorough tier of the 19 properties does not analyse the same
    scratch copy 19 times.  Any problem with the cache means: compute."""
    cache = P.__dict__.setdefault('_attr_cache', dict())
    if 'findings' in cache:
        return cache['findings'], cache['instances']
    path = None
    if not os.environ.get('DDVERIF_NO_CACHE'):
        try:
            path = _cache_file(P)
            with open(path) as f:
                d = json.load(f)
            out = [(m, report.Finding(
                x['rule'], x['sub'], x['function'], x['construct'],
                x['message'], x['unit'], x['line'], x['path'],
                x['statements'])) for m, x in d['findings']]
            cache['findings'] = out
            cache['instances'] = d['instances']
            return out, d['instances']
        except (OSError, ValueError, KeyError, TypeError):
            pass
    from .. import props
    out = []
    n_inst = 0
    buf = io.StringIO()
    for mode in sorted(props.PROPS):
        meta = props.PROPS[mode]
        if meta.get('cython'):
            continue
        res = report.Result(mode, 'quick')
        for rule in meta['rules']:
            if rule in props.HYGIENE or rule is r_attributed:
                continue
            try:
                with contextlib.redirect_stdout(buf):
                    rule(P, res)
            except frontend.AnalysisError:
                continue
            except Exception:
                continue
        n_inst += len(res.instances)
        out.extend((mode, f) for f in res.findings)
    cache['findings'] = out
    cache['instances'] = n_inst
    if path is not None:
        try:
            os.makedirs(os.path.dirname(path), exist_ok=True)
            tmp = f'{path}.{os.getpid()}.tmp'
            with open(tmp, 'w') as f:
                json.dump(dict(
                    findings=[(m, x.to_json()) for m, x in out],
                    instances=n_inst), f)
            os.replace(tmp, path)
        except (OSError, TypeError, ValueError):
            pass
    return out, n_inst


def r_attributed(P, R):
    if R.prop not in scope.ENTRY:
        return
    funcs = scope.functions_of(P, R.prop)
    known = report.load_known()
    listed = {k['key'] for k in known['known']}
    found, n_inst = all_findings(P)
    own = {f.key for f in R.findings}
    n = 0
    for mode, f in found:
        if mode == R.prop or f.key in own or f.key in listed:
            continue
        q = f.func
        hit = False
        while q:
            if q in funcs:
                hit = True
                break
            if q.count('.') <= 2:
                break
            q = q.rsplit('.', 1)[0]
        if not hit:
            continue
        n += 1
        own.add(f.key)
        R.violation(
            f.rule, f.sub, f.func, f.construct,
            f.message + f'  [found by a rule of {mode}; {f.func} is '
            f'reachable from the entry points of {R.prop}]',
            unit=f.unit, line=f.line, path=f.path, stmts=f.stmts)
    R.holds('R-ATTR', f'functions behind {R.prop}',
            f'the rules of the other properties ({n_inst} rule instances '
            f'on this tree) report nothing inside the {len(funcs)} '
            f'functions reachable from the entry points of {R.prop}'
            if n == 0 else
            f'{n} finding(s) of other properties\' rules lie inside the '
            f'scope of {R.prop}', nontrivial=False)
r_attributed.NAME = 'R-ATTR'
