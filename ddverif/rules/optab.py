"""R-OPTAB / R-VOCAB: operator tables interpreted over the Boolean domain.

Every `apply` dispatch chain, every `Function` operator method and every
quantifier wrapper is *interpreted* (never run) for each operator alias
with symbolic operands; the resulting Boolean structure is tabulated over
all valuations and compared with the connective named for that alias
group in the property statement, and (for the C back ends) with the
interpretation of `dd.bdd.BDD.apply` for the same alias.
"""
import ast

from .. import astutil as au
from .. import minieval as me
from ..consts import ConstResolver
from ..frontend import AnalysisError


# reference vocabulary: the alias groups named in properties C01 / C19
REFERENCE = {
    'not': ('~', 'not', '!'),
    'and': ('and', '/\\', '&', '&&'),
    'or': ('or', '\\/', '|', '||'),
    'xor': ('#', 'xor', '^'),
    'implies': ('=>', '->', 'implies'),
    'equiv': ('<=>', '<->', 'equiv'),
    'diff': ('diff', '-'),
    'forall': ('\\A', 'forall'),
    'exists': ('\\E', 'exists'),
    'ite': ('ite',),
}
ARITY = {'not': 1, 'ite': 3}
U, V, W = ('sym', 'u'), ('sym', 'v'), ('sym', 'w')
CONNECTIVE = {
    'not': ('not', U),
    'and': ('and', U, V),
    'or': ('or', U, V),
    'xor': ('xor', U, V),
    'implies': ('imp', U, V),
    'equiv': ('equiv', U, V),
    'diff': ('diff', U, V),
    'ite': ('ite', U, V, W),
}
QUANT = {'forall': ('forall', 'v', 'u'), 'exists': ('exists', 'v', 'u')}
ALIAS_GROUP = {a: g for g, als in REFERENCE.items() for a in als}


def arity_of(alias):
    return ARITY.get(ALIAS_GROUP.get(alias), 2)


# ---------------------------------------------------------------- primitives
def _b(v):
    return me.as_bexp(v)


def _bin(kind):
    def h(ev, call, args, kwargs, drop=0):
        a = args[drop:]
        if len(a) < 2:
            return ('unknown', f'{kind}: too few arguments')
        return (kind, _b(a[0]), _b(a[1]))
    return h


def _mk_prims():
    P = dict()

    def ident(ev, node, base):
        return base
    P['.node'] = ident

    def const_true(ev, node, base):
        return me.TRUE

    def const_false(ev, node, base):
        return me.FALSE
    P['.true'] = const_true
    P['.false'] = const_false

    def ite(ev, call, args, kwargs):
        if len(args) != 3:
            return ('unknown', 'ite arity')
        return ('ite', _b(args[0]), _b(args[1]), _b(args[2]))
    P['ite'] = ite

    def drop_mgr(kind, n):
        def h(ev, call, args, kwargs):
            a = args[1:]
            if len(a) != n:
                return ('unknown', f'{kind} arity')
            return (kind,) + tuple(_b(x) for x in a)
        return h

    def plain(kind, n):
        def h(ev, call, args, kwargs):
            if len(args) != n:
                return ('unknown', f'{kind} arity')
            return (kind,) + tuple(_b(x) for x in args)
        return h
    # CUDD BDD
    P['Cudd_Not'] = plain('not', 1)
    P['Cudd_bddAnd'] = drop_mgr('and', 2)
    P['Cudd_bddOr'] = drop_mgr('or', 2)
    P['Cudd_bddXor'] = drop_mgr('xor', 2)
    P['Cudd_bddXnor'] = drop_mgr('equiv', 2)
    P['Cudd_bddIte'] = drop_mgr('ite', 3)
    P['Cudd_ReadOne'] = lambda ev, c, a, k: me.TRUE
    P['Cudd_ReadLogicZero'] = lambda ev, c, a, k: me.FALSE
    # CUDD ZDD (as Boolean functions over the declared variables)
    P['Cudd_zddIntersect'] = drop_mgr('and', 2)
    P['Cudd_zddUnion'] = drop_mgr('or', 2)
    P['Cudd_zddDiff'] = drop_mgr('diff', 2)
    P['Cudd_zddIte'] = drop_mgr('ite', 3)
    P['cuddZddIte'] = drop_mgr('ite', 3)
    P['Cudd_ReadZddOne'] = lambda ev, c, a, k: me.TRUE
    P['Cudd_ReadZero'] = lambda ev, c, a, k: me.FALSE
    # Sylvan
    P['sylvan_not'] = plain('not', 1)
    P['sylvan_and'] = plain('and', 2)
    P['sylvan_or'] = plain('or', 2)
    P['sylvan_xor'] = plain('xor', 2)
    P['sylvan_imp'] = plain('imp', 2)
    P['sylvan_biimp'] = plain('equiv', 2)
    P['sylvan_equiv'] = plain('equiv', 2)
    P['sylvan_diff'] = plain('diff', 2)
    P['sylvan_ite'] = plain('ite', 3)
    # BuDDy
    P['bdd_not'] = plain('not', 1)
    P['bdd_and'] = plain('and', 2)
    P['bdd_or'] = plain('or', 2)
    P['bdd_xor'] = plain('xor', 2)
    P['bdd_imp'] = plain('imp', 2)
    P['bdd_biimp'] = plain('equiv', 2)
    P['bdd_ite'] = plain('ite', 3)
    # identity wrappers
    P['wrap'] = lambda ev, c, a, k: a[1] if len(a) == 2 else (
        'unknown', 'wrap arity')
    P['_wrap'] = lambda ev, c, a, k: a[0] if a else ('unknown', '_wrap')
    P['Function'] = lambda ev, c, a, k: a[0] if a else (
        'unknown', 'Function()')
    P['__cast__'] = lambda ev, c, a, k: a[1] if len(a) == 2 else (
        'unknown', 'cast')
    # quantification
    P['support'] = lambda ev, c, a, k: ('support', a[0]) if a else (
        'unknown', 'support')

    def dict_to_zdd(ev, c, a, k):
        return ('cube', a[0]) if a else ('unknown', '_dict_to_zdd')
    P['_dict_to_zdd'] = dict_to_zdd
    P['cube'] = lambda ev, c, a, k: ('cube', a[0]) if a else (
        'unknown', 'cube')
    P['set'] = lambda ev, c, a, k: a[0] if a else ('unknown', 'set')

    def quantify(ev, call, args, kwargs):
        # signature quantify(u, qvars, forall=False)
        vals = dict(zip(('u', 'qvars', 'forall'), args))
        vals.update(kwargs)
        fa = vals.get('forall', me.FALSE)
        if 'u' not in vals or 'qvars' not in vals or not me.is_const(fa):
            return ('unknown', 'quantify arguments')
        return ('Q', 'forall' if fa[1] else 'exists',
                vals['u'], vals['qvars'])
    P['quantify'] = quantify

    def cq(kind, f_idx, v_idx):
        def h(ev, call, args, kwargs):
            if len(args) <= max(f_idx, v_idx):
                return ('unknown', 'quantifier arity')
            return ('Q', kind, args[f_idx], args[v_idx])
        return h
    P['Cudd_bddUnivAbstract'] = cq('forall', 1, 2)
    P['Cudd_bddExistAbstract'] = cq('exists', 1, 2)
    P['_forall_root'] = cq('forall', 1, 2)
    P['_exist_root'] = cq('exists', 1, 2)
    # sylvan_forall / sylvan_exists are filled per program from the
    # parameter names in c_sylvan.pxd
    return P


PRIMS = _mk_prims()


def strip(v):
    """Operand symbol behind identity / carrier wrappers."""
    while isinstance(v, tuple) and v and v[0] in ('support', 'cube'):
        v = v[1]
    if isinstance(v, tuple) and v and v[0] == 'sym':
        return v[1]
    return None


def norm_q(v):
    return (v[1], strip(v[2]), strip(v[3]))


# ------------------------------------------------------------------ contexts
class Ctx:
    """Shared, per-run state of this engine."""

    def __init__(self, program):
        self.program = program
        self.consts = ConstResolver(program)
        self.prims = dict(PRIMS)
        if 'dd.c_sylvan' in program.units:
            protos = program.units['dd.c_sylvan'].c_protos
            for name, kind in (('sylvan_forall', 'forall'),
                               ('sylvan_exists', 'exists')):
                params = protos.get(name)
                if not params or len(params) != 2:
                    raise AnalysisError(
                        f'prototype of {name} not found in c_sylvan.pxd')
                vi = [i for i, p in enumerate(params)
                      if p in ('qvars', 'variables', 'vars', 'cube')]
                if len(vi) != 1:
                    raise AnalysisError(
                        f'cannot tell the variable operand of {name} '
                        f'from its parameter names {params}')
                vi = vi[0]
                fi = 1 - vi

                def h(ev, call, args, kwargs, kind=kind, fi=fi, vi=vi):
                    if len(args) != 2:
                        return ('unknown', 'quantifier arity')
                    return ('Q', kind, args[fi], args[vi])
                self.prims[name] = h

    def vocabulary(self):
        """The three literal sets of dd._abc."""
        out = dict()
        for key, name in (('unary', 'UNARY_OPERATOR_SYMBOLS'),
                          ('binary', 'BINARY_OPERATOR_SYMBOLS'),
                          ('ternary', 'TERNARY_OPERATOR_SYMBOLS'),
                          ('all', 'BDD_OPERATOR_SYMBOLS')):
            v = self.consts.resolve('dd._abc', [name])
            if v is None or v[0] != 'const':
                raise AnalysisError(
                    f'cannot read dd._abc.{name} from the source')
            out[key] = set(v[1])
        return out

    def evaluator(self, modname, cls=None, extra=None):
        prims = dict(self.prims)
        if extra:
            prims.update(extra)
        program = self.program

        def consts(chain):
            if chain[0] in ('self', 'u', 'v', 'w', 'other', 'op'):
                return None
            return self.consts.resolve(modname, chain)

        def inline(call, recv):
            # `self.m(...)` / `localname.m` where the receiver is a symbol
            # of the same class: descend into the method
            f = call.func
            if cls is None or not isinstance(f, ast.Attribute):
                return None
            ch = au.chain(f.value)
            if ch == ['self'] and f.attr.startswith('_') and \
                    f.attr not in prims:
                m = program.func(f'{modname}.{cls}.{f.attr}', required=False)
                if m is not None:
                    return (m.node, recv if recv is not None
                            else ('sym', 'self'))
            return None
        return me.Evaluator(prims, consts, inline)


def eval_apply(ctx, modname, cls, alias, arity=None):
    """Interpret `<modname>.<cls>.apply(alias, u[, v[, w]])`: by the
    symbolic evaluator; where that does not follow the dispatch (a table
    of functions, a module-level constant) and the class is Python, by
    the interpreter on concrete operand numbers."""
    fn = ctx.program.func(f'{modname}.{cls}.apply')
    try:
        v = _eval_apply_symbolic(ctx, modname, cls, alias, arity)
        decided = classify(v)[0] != 'undecided'
    except me.Undecided:
        if fn.unit.rel.endswith('.pyx'):
            raise
        v, decided = None, False
    if decided or fn.unit.rel.endswith('.pyx'):
        return v
    try:
        return eval_apply_concrete(ctx, modname, cls, alias, arity)
    except me.Undecided:
        if v is None:
            raise
        return v


def _eval_apply_symbolic(ctx, modname, cls, alias, arity=None):
    fn = ctx.program.func(f'{modname}.{cls}.apply')
    n = arity if arity is not None else arity_of(alias)
    none = ('const', None)
    argvals = dict(
        self=('sym', 'self'), op=('const', alias), u=U,
        v=V if n >= 2 else none, w=W if n >= 3 else none)
    params = fn.params
    argvals = {k: v for k, v in argvals.items() if k in params}
    extra = dict()

    def arity_check(ev, call, args, kwargs):
        return eval_arity(ctx, args)
    extra['assert_operator_arity'] = arity_check
    ev = ctx.evaluator(modname, cls, extra)
    return ev.call_function(fn.node, argvals)


def eval_apply_concrete(ctx, modname, cls, alias, arity=None):
    """`apply` run by the small-model interpreter (ddverif/interp.py) on
    the operand numbers 2, 3, 5 with recording models of `ite`,
    `quantify` and `support`: follows dispatch through tables, lambdas
    and module-level constants, which the symbolic evaluator does not.
    Returns a value of the same form as `eval_apply`, or raises
    me.Undecided."""
    from .. import interp
    fn = ctx.program.func(f'{modname}.{cls}.apply')
    n = arity if arity is not None else arity_of(alias)
    codes = {2: U, 3: V, 5: W}
    made = dict()      # result code -> value

    def decode(x):
        if isinstance(x, bool) or not isinstance(x, int):
            if isinstance(x, interp.Sym) and x.attrs and 'value' in x.attrs:
                return x.attrs['value']
            raise me.Undecided(f'operand {x!r}')
        if x in (1, -1):
            return TRUE_ if x == 1 else FALSE_
        v = codes.get(abs(x)) or made.get(abs(x))
        if v is None:
            raise me.Undecided(f'operand {x!r}')
        return v if x > 0 else ('not', v)

    def new(value):
        k = 100 + len(made)
        made[k] = value
        return k

    def ite(m, call, args, kw):
        if len(args) != 3 or kw:
            raise interp.Unknown('ite arity')
        return new(('ite',) + tuple(decode(a) for a in args))

    def support(m, call, args, kw):
        if len(args) != 1:
            raise interp.Unknown('support arity')
        return interp.Sym('support', {'value': ('support', decode(args[0]))})

    def quantify(m, call, args, kw):
        vals = dict(zip(('u', 'qvars', 'forall'), args))
        vals.update(kw)
        if 'u' not in vals or 'qvars' not in vals or not isinstance(
                vals.get('forall', False), bool):
            raise interp.Unknown('quantify arguments')
        return new(('Q', 'forall' if vals.get('forall', False)
                    else 'exists', decode(vals['u']),
                    decode(vals['qvars'])))
    stubs = {'ite': ite, 'support': support, 'quantify': quantify,
             '__contains__': lambda m, c, a, k: True}
    def consts(mod, name):
        v = ctx.consts.resolve(mod, [name])
        if v is None or v[0] != 'const':
            raise KeyError(name)
        return v[1]
    resolver = interp.ModuleEnv(ctx.program, modname, stubs,
                                fallback=consts)
    env = {'self': interp.Sym('self')}
    params = [p for p in fn.params if p != 'self']
    vals = [alias, 2, 3 if n >= 2 else None, 5 if n >= 3 else None]
    for p, v in zip(params, vals):
        env[p] = v
    try:
        out, _ = interp.run_function(fn.node, env, stubs, resolver)
    except interp.Unknown as e:
        raise me.Undecided(f'interpreter: {e}')
    if out[0] == 'raise':
        return ('raise', out[1])
    if out[0] != 'return':
        raise me.Undecided('apply returns nothing')
    return decode(out[1])


TRUE_, FALSE_ = me.TRUE, me.FALSE


def eval_arity(ctx, args):
    """Interpret `dd._utils.assert_operator_arity(op, v, w, kind)`: by
    the symbolic evaluator, and where that gives no verdict by the
    interpreter (only whether an operand is None matters)."""
    fn = ctx.program.func('dd._utils.assert_operator_arity')
    ev = ctx.evaluator('dd._utils')
    ev.strict = True
    params = fn.params
    argvals = dict(zip(params, args))
    try:
        r = ev.call_function(fn.node, argvals)
        if not _has_unknown(r) and r[0] != 'either':
            return r
        first = None
    except me.Undecided as e:
        r, first = None, e
    try:
        return eval_arity_concrete(ctx, args)
    except me.Undecided:
        if first is not None:
            raise first
        return r


def eval_arity_concrete(ctx, args):
    from .. import interp
    fn = ctx.program.func('dd._utils.assert_operator_arity')
    key = tuple(
        a[1] if a[0] == 'const' else '<operand>' for a in args)
    memo = ctx.__dict__.setdefault('_arity_memo', dict())
    if key in memo:
        return memo[key]
    vals = []
    for k, a in enumerate(args):
        if a[0] == 'const':
            vals.append(a[1])
        else:
            vals.append(interp.Sym(f'operand{k}'))

    def consts(mod, name):
        v = ctx.consts.resolve(mod, [name])
        if v is None or v[0] != 'const':
            raise KeyError(name)
        return v[1]
    resolver = ctx.__dict__.get('_arity_resolver')
    if resolver is None:
        resolver = interp.ModuleEnv(ctx.program, 'dd._utils', {},
                                    fallback=consts)
        ctx.__dict__['_arity_resolver'] = resolver
    env = dict(zip(fn.params, vals))
    try:
        out, _ = interp.run_function(fn.node, env, {}, resolver)
    except interp.Unknown as e:
        raise me.Undecided(f'interpreter: {e}')
    r = ('raise', out[1]) if out[0] == 'raise' else ('const', None)
    memo[key] = r
    return r


def classify(v, syms=('u', 'v', 'w')):
    """('table', tt) | ('Q', triple) | ('raise', name) | ('undecided', why)"""
    if v[0] == 'raise':
        return ('raise', v[1])
    if v[0] == 'either':
        a, b = classify(v[2], syms), classify(v[3], syms)
        if a == b:
            return a
        if 'undecided' in (a[0], b[0]):
            return a if a[0] == 'undecided' else b
        return ('either', (v[1], a, b))
    if v[0] == 'Q':
        t = norm_q(v)
        if t[1] is None or t[2] is None:
            return ('undecided', f'quantifier operands: {me.show(v)}')
        return ('Q', t)
    try:
        return ('table', me.table(me.as_bexp(v), syms))
    except me.Undecided as e:
        return ('undecided', f'{e} in {me.show(v)}')


def expected(alias):
    g = ALIAS_GROUP.get(alias)
    if g is None:
        return None
    if g in CONNECTIVE:
        return ('table', me.table(CONNECTIVE[g]))
    return ('Q', QUANT[g])


# --------------------------------------------------------------------- rules
def chain_aliases(fn):
    """All string literals tested against `op` in `fn`."""
    out = []
    for n in au.walk_no_defs(fn):
        if isinstance(n, ast.Compare) and au.is_name(n.left, 'op') and \
                len(n.ops) == 1 and isinstance(
                    n.ops[0], (ast.In, ast.Eq)):
            lits = au.literal_strings(n.comparators[0])
            if lits:
                out.extend(lits)
    return out


def check_chain(ctx, R, rule, modname, cls, aliases, oracle, unit,
                allow_raise=()):
    """Interpret one `apply` chain for every alias in `aliases`.

    `oracle(alias)` -> classification the alias must have.
    """
    fn = ctx.program.func(f'{modname}.{cls}.apply')
    q = fn.qualname
    n = 0
    for alias in sorted(aliases):
        try:
            v = eval_apply(ctx, modname, cls, alias)
        except me.Undecided as e:
            R.undecided(rule, q, f'alias {alias!r}', str(e))
            continue
        got = classify(v)
        want = oracle(alias)
        n += 1
        what = f'alias {alias!r}'
        if want is None:
            R.undecided(rule, q, what, 'alias has no reference meaning')
            continue
        if got[0] == 'undecided':
            R.undecided(rule, q, what, got[1])
            continue
        if got[0] == 'raise' and (alias in allow_raise
                                  or ALIAS_GROUP.get(alias) in allow_raise):
            R.holds(rule, q, f'{what}: raises {got[1]} (by design)')
            continue
        if got != want:
            R.violation(
                rule, 'alias', q, repr(alias),
                f'operator {alias!r} is interpreted as {render(got)} '
                f'but {ALIAS_GROUP.get(alias, "?")} means {render(want)}',
                unit=unit, line=fn.lineno)
        else:
            R.holds(rule, q, f'{what} == {ALIAS_GROUP.get(alias)}: '
                    f'{render(got)}')
    return n


def render(c):
    if c[0] == 'either':
        t, a, b = c[1]
        return (f'{render(a)} when `{t}` holds and {render(b)} otherwise '
                '(a test that the operands\' values do not determine)')
    if c[0] == 'table':
        return 'truth table ' + ''.join('1' if b else '0' for b in c[1])
    if c[0] == 'Q':
        k, f, v = c[1]
        return f'{k}(function={f}, variables from {v})'
    return f'{c[0]} {c[1]}'


def r_optab_bdd(P, R):
    """C01/C03: dd.bdd.BDD.apply against the named connectives."""
    ctx = Ctx(P)
    aliases = set(ALIAS_GROUP) | ctx.vocabulary()['all']
    n = check_chain(ctx, R, 'R-OPTAB', 'dd.bdd', 'BDD', aliases, expected,
                    'dd/bdd.py')
    R.floor('R-OPTAB dd.bdd.BDD.apply', n, 27)
r_optab_bdd.NAME = 'R-OPTAB(dd.bdd.BDD.apply)'


def r_optab_mdd(P, R):
    ctx = Ctx(P)
    aliases = set(ALIAS_GROUP) | ctx.vocabulary()['all']
    n = check_chain(ctx, R, 'R-OPTAB', 'dd.mdd', 'MDD', aliases, expected,
                    'dd/mdd.py', allow_raise=('forall', 'exists'))
    R.floor('R-OPTAB dd.mdd.MDD.apply', n, 27)
    # sibling agreement with dd.bdd.BDD.apply on propositional aliases
    for alias in sorted(aliases):
        if ALIAS_GROUP.get(alias) in ('forall', 'exists'):
            continue
        try:
            a = classify(eval_apply(ctx, 'dd.mdd', 'MDD', alias))
            b = classify(eval_apply(ctx, 'dd.bdd', 'BDD', alias))
        except me.Undecided:
            continue
        if 'undecided' in (a[0], b[0]):
            continue
        if a != b:
            R.violation(
                'R-OPTAB', 'sibling', 'dd.mdd.MDD.apply', repr(alias),
                f'{alias!r}: MDD.apply gives {render(a)}, '
                f'BDD.apply gives {render(b)}', unit='dd/mdd.py',
                line=P.func('dd.mdd.MDD.apply').lineno)
        else:
            R.holds('R-OPTAB', 'dd.mdd.MDD.apply',
                    f'alias {alias!r} agrees with dd.bdd.BDD.apply',
                    nontrivial=False)
r_optab_mdd.NAME = 'R-OPTAB(dd.mdd.MDD.apply)'


BACKENDS = [
    ('dd.cudd', 'BDD', 'dd/cudd.pyx'),
    ('dd.cudd_zdd', 'ZDD', 'dd/cudd_zdd.pyx'),
    ('dd.sylvan', 'BDD', 'dd/sylvan.pyx'),
]


def r_optab_backends(P, R):
    """C19: each C back end agrees with dd.bdd.BDD.apply per alias."""
    ctx = Ctx(P)
    vocab = ctx.vocabulary()['all']

    def oracle(alias):
        try:
            ref = classify(eval_apply(ctx, 'dd.bdd', 'BDD', alias))
        except me.Undecided:
            return None
        if ref[0] in ('undecided', 'raise'):
            return expected(alias)
        return ref
    for modname, cls, unit in BACKENDS:
        fn = P.func(f'{modname}.{cls}.apply')
        aliases = set(vocab) | set(chain_aliases(fn.node))
        n = check_chain(ctx, R, 'R-OPTAB', modname, cls, aliases, oracle,
                        unit)
        R.floor(f'R-OPTAB {modname}.{cls}.apply', n, 27)
    # BuDDy has its own (smaller) vocabulary
    fn = P.func('dd.buddy.BDD.apply')
    sym = ctx.consts.resolve('dd.buddy', ['_OPERATOR_SYMBOLS'])
    if sym is None or sym[0] != 'const':
        raise AnalysisError('cannot read dd.buddy._OPERATOR_SYMBOLS')
    aliases = set(sym[1]) | set(chain_aliases(fn.node))
    n = 0
    for alias in sorted(aliases):
        a = 1 if ALIAS_GROUP.get(alias) == 'not' else 2
        try:
            v = eval_apply(ctx, 'dd.buddy', 'BDD', alias, arity=a)
        except me.Undecided as e:
            R.undecided('R-OPTAB', fn.qualname, f'alias {alias!r}', str(e))
            continue
        got = classify(v)
        n += 1
        what = f'alias {alias!r}'
        if alias not in sym[1]:
            R.holds('R-OPTAB', fn.qualname,
                    f'{what} is outside the BuDDy vocabulary (rejected)',
                    nontrivial=False)
            continue
        want = oracle(alias) if alias in vocab else expected(alias)
        if want is None:
            R.undecided('R-OPTAB', fn.qualname, what,
                        'alias has no reference meaning')
        elif got[0] == 'undecided':
            R.undecided('R-OPTAB', fn.qualname, what, got[1])
        elif got != want:
            R.violation(
                'R-OPTAB', 'alias', fn.qualname, repr(alias),
                f'operator {alias!r} is interpreted as {render(got)} but '
                f'dd.bdd gives {render(want)}', unit='dd/buddy.pyx',
                line=fn.lineno)
        else:
            R.holds('R-OPTAB', fn.qualname, f'{what}: {render(got)}')
    R.floor('R-OPTAB dd.buddy.BDD.apply', n, 7)
r_optab_backends.NAME = 'R-OPTAB(C back ends vs dd.bdd.BDD.apply)'


# ---- Function operator methods
S, O = ('sym', 'self'), ('sym', 'other')
METHOD_ORACLE = {
    '__invert__': ('table', ('not', S)),
    '__and__': ('table', ('and', S, O)),
    '__or__': ('table', ('or', S, O)),
    '__xor__': ('table', ('xor', S, O)),
    'implies': ('table', ('imp', S, O)),
    'equiv': ('table', ('equiv', S, O)),
    '__eq__': ('cmp', ('eq',)),
    '__ne__': ('cmp', ('neq',)),
    '__le__': ('cmp', ('le',)),
    '__lt__': ('cmp', ('lt',)),
    '__ge__': ('cmp', ('ge',)),
    '__gt__': ('cmp', ('gt',)),
}
FUNCTION_CLASSES = [
    ('dd.autoref', 'Function', 'dd.bdd', 'BDD', 'dd/autoref.py'),
    ('dd.cudd', 'Function', 'dd.cudd', 'BDD', 'dd/cudd.pyx'),
    ('dd.cudd_zdd', 'Function', 'dd.cudd_zdd', 'ZDD', 'dd/cudd_zdd.pyx'),
    ('dd.sylvan', 'Function', 'dd.sylvan', 'BDD', 'dd/sylvan.pyx'),
    ('dd.buddy', 'Function', 'dd.buddy', 'BDD', 'dd/buddy.pyx'),
]


def eval_method_concrete(ctx, modname, cls, mname, mgr_mod, mgr_cls,
                         nodes=(2, 3)):
    """An operator method of a Python `Function` class run by the
    interpreter on two handles with the node numbers `nodes` (the way
    `eval_apply_concrete` runs `apply`): follows operand lists and
    unpacked arguments, which the symbolic evaluator does not.  The
    second number may be the first one with either sign: the operands
    are then the same function, or complements of each other."""
    from .. import interp
    from . import models
    m = ctx.program.func(f'{modname}.{cls}.{mname}')
    made = dict()
    codes = {abs(nodes[0]): S}
    codes.setdefault(abs(nodes[1]), O)

    def decode(x):
        if isinstance(x, interp.Sym) and x.attrs is not None and \
                'node' in x.attrs:
            x = x.attrs['node']
        if isinstance(x, bool) or not isinstance(x, int):
            raise me.Undecided(f'operand {x!r}')
        if x in (1, -1):
            return me.TRUE if x == 1 else me.FALSE
        v = codes.get(abs(x)) or made.get(abs(x))
        if v is None:
            raise me.Undecided(f'operand {x!r}')
        return v if x > 0 else ('not', v)
    mgr = interp.Sym('manager')
    wrapper = interp.Sym('bdd', {'_bdd': mgr, 'manager': mgr})

    def handle(node):
        return interp.Sym('Function', {
            'node': node, 'manager': mgr, 'bdd': wrapper})

    def apply(mach, call, args, kw):
        if not args or not isinstance(args[0], str):
            raise interp.Unknown('apply with a non-constant operator')
        ops = [decode(a) for a in args[1:]]
        try:
            g = eval_apply_concrete(ctx, mgr_mod, mgr_cls, args[0],
                                    len(ops))
        except me.Undecided as e:
            raise interp.Unknown(str(e))
        if g[0] == 'raise':
            raise interp.Raised(g[1])
        while len(ops) < 3:
            ops.append(('const', None))
        val = _subst(g, {'u': ops[0], 'v': ops[1], 'w': ops[2]})
        k = 100 + len(made)
        made[k] = val
        return k

    def function(mach, call, args, kw):
        if not args:
            raise interp.Unknown('Function()')
        return handle(args[0] if not isinstance(args[0], interp.Sym)
                      else args[0].attrs['node'])
    stubs = models.ClassStubs(ctx.program, f'{modname}.{cls}', extra={
        'apply': apply, 'Function': function, '_wrap': function,
        '__contains__': lambda mach, c, a, k: True}, skip={'apply'})
    env = {'self': handle(nodes[0])}
    params = [p for p in m.params if p != 'self']
    if params:
        env[params[0]] = handle(nodes[1])
    resolver = interp.ModuleEnv(ctx.program, modname, stubs)
    try:
        out, _ = interp.run_function(m.node, env, stubs, resolver)
    except interp.Unknown as e:
        raise me.Undecided(f'interpreter: {e}')
    if out[0] == 'raise':
        return ('raise', out[1])
    if out[0] != 'return':
        raise me.Undecided('the method returns nothing')
    return decode(out[1])


def cmp_semantics(v):
    """Canonical meaning of a comparison result over (self, other).

    Returns a frozenset of facts: each ('valid', tt) states that the
    Boolean structure with truth table `tt` is valid; ('eq',)/('neq',).
    """
    k = v[0]
    if k == 'valid':
        return frozenset([('valid', me.table(v[1], ('self', 'other')))])
    if k in ('eq', 'neq'):
        names = {me.show(v[1]), me.show(v[2])}
        if names == {'self', 'other'}:
            return frozenset([(k,)])
        raise me.Undecided(f'comparison of {names}')
    if k == 'isconst':
        # `abs(node) == 1`: the structure is constant - TRUE *or* FALSE
        return frozenset([('constant', me.table(
            v[1], ('self', 'other')))])
    if k == 'band':
        return cmp_semantics(v[1]) | cmp_semantics(v[2])
    if k == 'bnot' and v[1][0] == 'valid':
        # "not valid": some assignment falsifies the structure
        return frozenset([('not-valid', me.table(
            v[1][1], ('self', 'other')))])
    raise me.Undecided(f'comparison result {me.show(v)}')


IMP_SO = me.table(('imp', S, O), ('self', 'other'))
IMP_OS = me.table(('imp', O, S), ('self', 'other'))
CMP_ORACLE = {
    'eq': frozenset([('eq',)]),
    'neq': frozenset([('neq',)]),
    'le': frozenset([('valid', IMP_SO)]),
    'lt': frozenset([('valid', IMP_SO), ('neq',)]),
    'ge': frozenset([('valid', IMP_OS)]),
    'gt': frozenset([('valid', IMP_OS), ('neq',)]),
}


def _has_unknown(v):
    if isinstance(v, tuple):
        if v and v[0] == 'unknown':
            return True
        return any(_has_unknown(x) for x in v)
    return False


def _subst(v, mapping):
    if isinstance(v, tuple):
        if len(v) == 2 and v[0] == 'sym' and v[1] in mapping:
            return mapping[v[1]]
        return tuple(_subst(x, mapping) for x in v)
    return v


def function_evaluator(ctx, modname, cls, mgr_mod, mgr_cls):
    program = ctx.program
    extra = dict()

    def method_handler(mname):
        def h(ev, node, *vals):
            m = program.func(f'{modname}.{cls}.{mname}', required=False)
            if m is None:
                return ('unknown', f'no {mname}')
            params = m.params
            argvals = dict(zip(params, vals))
            sub = function_evaluator(ctx, modname, cls, mgr_mod, mgr_cls)
            sub.depth = ev.depth + 1
            if sub.depth > 4:
                return ('unknown', 'depth')
            return sub.call_function(m.node, argvals)
        return h
    extra['binop:BitOr'] = method_handler('__or__')
    extra['binop:BitAnd'] = method_handler('__and__')
    extra['binop:BitXor'] = method_handler('__xor__')
    extra['~'] = method_handler('__invert__')

    def apply_handler(ev, call, args, kwargs):
        # manager.apply(op, a[, b[, c]]) -> the manager's chain
        if not args or not me.is_const(args[0]):
            return ('unknown', 'apply with non-constant operator')
        alias = args[0][1]
        ops = list(args[1:])
        fn = program.func(f'{mgr_mod}.{mgr_cls}.apply')
        none = ('const', None)
        while len(ops) < 3:
            ops.append(none)
        argvals = dict(self=('sym', 'mgr'), op=('const', alias),
                       u=ops[0], v=ops[1], w=ops[2])
        argvals = {k: v for k, v in argvals.items() if k in fn.params}

        def arity_check(ev2, call2, a2, k2):
            return eval_arity(ctx, a2)
        sub = ctx.evaluator(mgr_mod, mgr_cls,
                            {'assert_operator_arity': arity_check})
        sub.depth = ev.depth + 1
        try:
            r = sub.call_function(fn.node, argvals)
        except me.Undecided:
            r = ('unknown', 'apply')
        if _has_unknown(r) and not fn.unit.rel.endswith('.pyx'):
            # the manager's dispatch is not followed symbolically: take
            # its meaning from the interpreter and put the operands in
            try:
                g = eval_apply_concrete(ctx, mgr_mod, mgr_cls, alias,
                                        len(args) - 1)
                return _subst(g, {'u': ops[0], 'v': ops[1], 'w': ops[2]})
            except me.Undecided:
                pass
        return r
    extra['apply'] = apply_handler
    ev = ctx.evaluator(modname, cls, extra)

    # comparisons between Function values go through the class's methods
    base_compare = ev.x_Compare
    dunder = {ast.LtE: '__le__', ast.Lt: '__lt__', ast.GtE: '__ge__',
              ast.Gt: '__gt__', ast.Eq: '__eq__', ast.NotEq: '__ne__'}

    def function_valued(x):
        return isinstance(x, (ast.Name, ast.BinOp)) or (
            isinstance(x, ast.UnaryOp) and isinstance(x.op, ast.Invert))

    def x_compare(e, env):
        if len(e.ops) == 1 and type(e.ops[0]) in dunder and \
                function_valued(e.left) and \
                function_valued(e.comparators[0]):
            a = ev.expr(e.left, env)
            b = ev.expr(e.comparators[0], env)
            if me.is_bexp(a) and me.is_bexp(b) and not (
                    me.is_const(a) or me.is_const(b)):
                h = method_handler(dunder[type(e.ops[0])])
                return h(ev, e, a, b)
        return base_compare(e, env)
    ev.x_Compare = x_compare
    return ev


def r_optab_functions(which):
    def rule(P, R):
        ctx = Ctx(P)
        total = 0
        for modname, cls, mgr_mod, mgr_cls, unit in FUNCTION_CLASSES:
            if modname not in which:
                continue
            for mname, (kind, want) in METHOD_ORACLE.items():
                m = P.func(f'{modname}.{cls}.{mname}', required=False)
                if m is None:
                    continue
                ev = function_evaluator(ctx, modname, cls, mgr_mod, mgr_cls)
                params = m.params
                argvals = dict()
                if params:
                    argvals[params[0]] = S
                if len(params) > 1:
                    argvals[params[1]] = O
                what = f'operator method {mname}'
                total += 1
                try:
                    try:
                        v = ev.call_function(m.node, argvals)
                    except me.Undecided as e:
                        if kind != 'table' or unit.endswith('.pyx'):
                            raise
                        v = ('unknown', str(e))
                    if kind == 'table' and not unit.endswith('.pyx') \
                            and classify(v, ('self', 'other'))[0] in (
                                'undecided', 'raise', 'either'):
                        # unpacked operand lists: the interpreter
                        try:
                            v = eval_method_concrete(
                                ctx, modname, cls, mname, mgr_mod, mgr_cls)
                        except me.Undecided:
                            pass
                    if kind == 'table':
                        got = classify(v, ('self', 'other'))
                        exp = ('table', me.table(want, ('self', 'other')))
                        if got[0] == 'undecided':
                            R.undecided('R-OPTAB', m.qualname, what, got[1])
                            continue
                        ok = (got == exp)
                        shown = render(got)
                    else:
                        sem = cmp_semantics(v)
                        ok = (sem == CMP_ORACLE[want[0]])
                        shown = str(sorted(sem))
                except me.Undecided as e:
                    R.undecided('R-OPTAB', m.qualname, what, str(e))
                    continue
                if ok and kind == 'table' and not unit.endswith('.pyx') \
                        and len(params) > 1:
                    # the meaning must not depend on the node numbers of
                    # the operands: other numberings, and operands that
                    # are the same node up to the complement mark
                    for nodes, other in (((3, 2), O), ((2, -2), ('not', S)),
                                         ((2, 2), S), ((7, -7), ('not', S))):
                        try:
                            v2 = eval_method_concrete(
                                ctx, modname, cls, mname, mgr_mod, mgr_cls,
                                nodes)
                            got2 = classify(v2, ('self', 'other'))
                        except me.Undecided:
                            continue
                        exp2 = ('table', me.table(
                            _subst(want, {'other': other}),
                            ('self', 'other')))
                        if got2[0] == 'undecided' or got2 == exp2:
                            continue
                        ok = False
                        shown = (f'{render(got2)} when the operands are '
                                 f'the nodes {nodes[0]} and {nodes[1]}, '
                                 f'where {render(exp2)} is meant (the '
                                 'result depends on the node numbers, or '
                                 'ignores the complement mark)')
                        break
                if ok:
                    R.holds('R-OPTAB', m.qualname, f'{what}: {shown}')
                else:
                    R.violation(
                        'R-OPTAB', 'method', m.qualname, mname,
                        f'{mname} is interpreted as {shown}, which is not '
                        f'the meaning of the operator', unit=unit,
                        line=m.lineno)
        R.floor('R-OPTAB Function operator methods', total,
                {1: 9, 4: 28}.get(len(which), 8))
    rule.NAME = f'R-OPTAB(Function operators: {", ".join(sorted(which))})'
    return rule


# ---- quantifier wrappers
WRAPPERS = [
    ('dd.bdd', 'BDD'), ('dd.autoref', 'BDD'), ('dd.cudd', 'BDD'),
    ('dd.cudd_zdd', 'ZDD'), ('dd.sylvan', 'BDD'),
]


def r_quant_wrappers(which):
    def rule(P, R):
        n = 0
        for modname, cls in WRAPPERS:
            if modname not in which:
                continue
            qf = P.func(f'{modname}.{cls}.quantify')
            qparams = [p for p in qf.params if p != 'self']
            for mname, kind in (('forall', True), ('exist', False)):
                m = P.func(f'{modname}.{cls}.{mname}')
                calls = [c for c in au.calls_in(m.node, 'quantify')]
                what = f'{mname} -> quantify(forall={kind})'
                n += 1
                if len(calls) != 1:
                    R.undecided('R-OPTAB', m.qualname, what,
                                'does not delegate to quantify once')
                    continue
                c = calls[0]
                bound = dict()
                for p, a in zip(qparams, c.args):
                    bound[p] = a
                for k in c.keywords:
                    bound[k.arg] = k.value
                bad = []
                fa = bound.get('forall')
                if fa is None:
                    favalue = False
                elif isinstance(fa, ast.Constant):
                    favalue = bool(fa.value)
                else:
                    favalue = None
                if favalue is None:
                    R.undecided('R-OPTAB', m.qualname, what,
                                'non-constant forall argument')
                    continue
                if favalue != kind:
                    bad.append(f'passes forall={favalue}')
                # interface: forall(variables, function) ->
                #            quantify(function, variables, forall)
                wparams = [p for p in m.params if p != 'self']
                if len(wparams) != 2 or len(qparams) < 2:
                    R.undecided('R-OPTAB', m.qualname, what,
                                'unexpected signature')
                    continue
                for qp, wp, role in ((qparams[0], wparams[1], 'function'),
                                     (qparams[1], wparams[0],
                                      'variables')):
                    a = bound.get(qp)
                    if not (isinstance(a, ast.Name) and a.id == wp):
                        bad.append(
                            f'the {role} parameter `{qp}` of quantify '
                            f'receives `'
                            f'{au.short(a) if a is not None else None}` '
                            f'instead of `{wp}`')
                if bad:
                    R.violation(
                        'R-OPTAB', 'wrapper', m.qualname, mname,
                        f'{mname}: ' + '; '.join(bad),
                        unit=m.unit.rel, line=m.lineno)
                else:
                    R.holds('R-OPTAB', m.qualname, what)
        R.floor('R-OPTAB quantifier wrappers', n, 2 * len(
            [w for w in WRAPPERS if w[0] in which]))
    rule.NAME = f'R-OPTAB(forall/exist wrappers: {", ".join(sorted(which))})'
    return rule


# ---- vocabulary agreement
def r_vocab(P, R):
    """dd._abc literal sets <-> reference groups <-> arity partition."""
    ctx = Ctx(P)
    vocab = ctx.vocabulary()
    ref_all = set(ALIAS_GROUP)
    unit = 'dd/_abc.py'
    for alias in sorted(ref_all):
        cls = {1: 'unary', 2: 'binary', 3: 'ternary'}[arity_of(alias)]
        if alias not in vocab[cls]:
            R.violation(
                'R-VOCAB', 'missing', 'dd._abc', repr(alias),
                f'operator spelling {alias!r} '
                f'({ALIAS_GROUP[alias]}) is not in the {cls} operator '
                f'vocabulary of dd._abc: `apply` will reject it',
                unit=unit)
        else:
            R.holds('R-VOCAB', 'dd._abc', f'{alias!r} in {cls} vocabulary')
    for alias in sorted(vocab['all'] - ref_all):
        R.unreviewed_site('R-VOCAB', 'dd._abc',
                          f'alias {alias!r} has no reference meaning')
    union = vocab['unary'] | vocab['binary'] | vocab['ternary']
    if union != vocab['all']:
        R.violation(
            'R-VOCAB', 'partition', 'dd._abc', 'BDD_OPERATOR_SYMBOLS',
            'BDD_OPERATOR_SYMBOLS is not the union of the three arity '
            f'classes: {sorted(union ^ vocab["all"])}', unit=unit)
    else:
        R.holds('R-VOCAB', 'dd._abc', 'all == unary | binary | ternary')
    # arity check: accept exactly the right arity, reject the others
    none = ('const', None)
    X = ('sym', 'x')
    fn = P.func('dd._utils.assert_operator_arity')
    n = 0
    for alias in sorted(ref_all | vocab['all']):
        ar = arity_of(alias)
        for k, (v, w) in {1: (none, none), 2: (X, none),
                          3: (X, X), 'w-only': (none, X)}.items():
            try:
                r = eval_arity(ctx, [('const', alias), v, w,
                                     ('const', 'bdd')])
            except me.Undecided as e:
                R.undecided('R-VOCAB', fn.qualname,
                            f'{alias!r} arity {k}', str(e))
                continue
            n += 1
            should_pass = (k == ar)
            passed = (r[0] != 'raise')
            if passed != should_pass:
                R.violation(
                    'R-VOCAB', 'arity', fn.qualname, f'{alias!r}/{k}',
                    f'assert_operator_arity({alias!r}) with {k} operand(s) '
                    f'{"accepts" if passed else "rejects"} the call, but '
                    f'{alias!r} takes {ar}', unit='dd/_utils.py',
                    line=fn.lineno)
            else:
                R.holds('R-VOCAB', fn.qualname,
                        f'{alias!r} with {k} operand(s): '
                        f'{"accepted" if passed else "rejected"}',
                        nontrivial=(k == ar))
    r = eval_arity(ctx, [('const', 'no-such-operator'), X, none,
                         ('const', 'bdd')])
    if r[0] != 'raise':
        R.violation('R-VOCAB', 'arity', fn.qualname, 'unknown',
                    'an unknown operator symbol is not rejected',
                    unit='dd/_utils.py', line=fn.lineno)
    else:
        R.holds('R-VOCAB', fn.qualname, 'unknown operator rejected')
    R.floor('R-VOCAB arity partition', n, 27 * 4)
r_vocab.NAME = 'R-VOCAB(dd._abc, assert_operator_arity)'


def r_apply_validates(classes):
    """`apply` calls the arity check with (op, v, w) before dispatching."""
    def rule(P, R):
        for modname, cls in classes:
            fn = P.func(f'{modname}.{cls}.apply')
            # the arity check is called with (op, v, w) before the first
            # test on `op`
            ok = False
            for st in fn.node.body:
                if any(isinstance(n, ast.Compare) and au.is_name(
                        n.left, 'op') for n in ast.walk(st)) and not (
                            isinstance(st, ast.Expr)):
                    break
                for c in au.calls_in(st, 'assert_operator_arity'):
                    a = c.args
                    if len(a) >= 3 and [getattr(x, 'id', None)
                                        for x in a[:3]] == ['op', 'v', 'w']:
                        ok = True
            if ok:
                R.holds('R-VOCAB', fn.qualname,
                        'arity check (op, v, w) precedes the dispatch')
            else:
                R.violation(
                    'R-VOCAB', 'validate-first', fn.qualname,
                    'assert_operator_arity',
                    'apply does not call assert_operator_arity(op, v, w, '
                    '...) before it dispatches on the operator',
                    unit=fn.unit.rel, line=fn.lineno)
    rule.NAME = 'R-VOCAB(apply validates arity first)'
    return rule


def r_ite_terminals(P, R):
    """Terminal cases of `_ite`: g == 1 -> u, g == -1 -> v."""
    for q in ('dd.bdd.BDD._ite', 'dd.mdd.MDD.ite'):
        if q.startswith('dd.mdd') and R.prop != 'C15':
            continue
        if q.startswith('dd.bdd') and R.prop == 'C15':
            continue
        fn = P.func(q)
        params = [p for p in fn.params if p != 'self']
        if len(params) != 3:
            raise AnalysisError(f'{q} no longer takes (g, u, v)')
        g, u, v = params
        for const, want in ((1, u), (-1, v)):
            ev = me.Evaluator(dict(), None, None)
            argvals = {'self': ('sym', 'self'), g: ('const', const),
                       u: ('sym', u), v: ('sym', v)}
            try:
                r = ev.call_function(fn.node, argvals)
            except me.Undecided as e:
                R.undecided('R-OPTAB', q, f'terminal case g == {const}',
                            str(e))
                continue
            if r == ('sym', want):
                R.holds('R-OPTAB', q, f'g == {const} returns {want}')
            else:
                R.violation(
                    'R-OPTAB', 'ite-terminal', q, f'g=={const}',
                    f'ite({const}, {u}, {v}) returns {me.show(r)} instead '
                    f'of {want}', unit=fn.unit.rel, line=fn.lineno)
r_ite_terminals.NAME = 'R-OPTAB(ite terminal cases)'


def r_ite_rewrites(P, R):
    """Operand rewrites in `_ite` before the cache lookup ("standard
    triples") must preserve ite(g, u, v): each rewrite is evaluated over
    the Boolean domain under the equalities assumed by its guard."""
    from .. import paths as pa
    q = 'dd.bdd.BDD._ite' if R.prop != 'C15' else 'dd.mdd.MDD.ite'
    f = P.func(q)
    params = [p for p in f.params if p != 'self']
    if len(params) != 3:
        raise AnalysisError(f'{q} no longer takes (g, u, v)')
    plist = pa.function_paths(f.node)
    n = 0
    rewrites = 0
    reported = set()
    for path in plist:
        env = {p: ('sym', p) for p in params}
        fixed = dict()     # parameter -> constant assumed by a guard
        changed = False
        done = False
        for it in path:
            if done:
                break
            if it[0] == 'test' and it[2] is True:
                conj = it[1].values if isinstance(
                    it[1], ast.BoolOp) and isinstance(
                        it[1].op, ast.And) else [it[1]]
                for t in conj:
                    if isinstance(t, ast.Compare) and len(
                            t.ops) == 1 and isinstance(
                                t.ops[0], ast.Eq) and isinstance(
                                    t.left, ast.Name) and au.const_int(
                                        t.comparators[0]) in (1, -1):
                        cur = env.get(t.left.id)
                        if cur and cur[0] == 'sym':
                            fixed[cur[1]] = (au.const_int(
                                t.comparators[0]) == 1)
            if it[0] == 'stmt':
                st = it[1]
                if isinstance(st, ast.Return):
                    break
                if isinstance(st, ast.Assign):
                    t, v = st.targets[0], st.value
                    # the cache key / lookup marks the end of the
                    # prologue
                    if (isinstance(v, ast.Tuple) and isinstance(
                            t, ast.Name) and set(
                                au.names_loaded(v)) <= set(params)
                            and len(v.elts) >= 2) or \
                            '_ite_table' in au.src(v):
                        done = True
                        break
                    ev = me.Evaluator(dict())
                    if isinstance(t, ast.Tuple) and isinstance(
                            v, ast.Tuple) and len(t.elts) == len(v.elts):
                        vals = [me.as_bexp(ev.expr(x, env))
                                for x in v.elts]
                        for a, b in zip(t.elts, vals):
                            if isinstance(a, ast.Name) and a.id in params:
                                env[a.id] = b
                                changed = True
                    elif isinstance(t, ast.Name) and t.id in params:
                        env[t.id] = me.as_bexp(ev.expr(v, env))
                        changed = True
        if not done:
            continue
        n += 1
        if not changed:
            continue
        rewrites += 1

        def subst(x):
            if x[0] == 'sym' and x[1] in fixed:
                return ('const', fixed[x[1]])
            if x[0] in ('sym', 'const', 'unknown'):
                return x
            return (x[0],) + tuple(
                subst(y) if isinstance(y, tuple) else y for y in x[1:])
        try:
            new = me.table(subst(('ite',) + tuple(
                env[p] for p in params)), tuple(params))
            old = me.table(subst(('ite',) + tuple(
                ('sym', p) for p in params)), tuple(params))
        except me.Undecided as e:
            R.undecided('R-OPTAB', q, 'operand rewrite', str(e))
            continue
        what = ', '.join(f'{p} := {me.show(env[p])}' for p in params
                         if env[p] != ('sym', p))
        cond = ', '.join(f'{k} == {"true" if v else "false"}'
                         for k, v in fixed.items())
        if new == old:
            R.holds('R-OPTAB', q, f'rewrite [{what}] under [{cond}] '
                    'preserves ite(g, u, v)')
        elif what not in reported:
            reported.add(what)
            R.violation(
                'R-OPTAB', 'ite-rewrite', q, what,
                f'before the cache lookup the operands are rewritten '
                f'[{what}] under the assumption [{cond}]; '
                f'ite of the rewritten operands is not ite(g, u, v) '
                '(truth tables differ): the wrong function is computed '
                'and cached for this shape of operands',
                unit=f.unit.rel, line=f.lineno, path=pa.describe(path))
    if not rewrites:
        R.holds('R-OPTAB', q, f'{n} path(s) reach the cache lookup with '
                'the operands unchanged', nontrivial=False)
    R.floor(f'R-OPTAB paths to the cache lookup of {q}', n, 1)
r_ite_rewrites.NAME = 'R-OPTAB(operand rewrites in ite)'
