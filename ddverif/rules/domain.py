"""R-DOMAIN (identifier domains) and R-REBUILD (order-safe rebuild)."""
import ast

from .. import astutil as au
from .. import paths as pa
from ..frontend import AnalysisError

FILE, SRC, TGT = 'FILE-ID', 'SRC-NODE', 'TGT-REF'
SLEV, TLEV, NAME = 'SRC-LEVEL', 'TGT-LEVEL', 'NAME'
FOREIGN = {FILE, SRC, SLEV}


class Spec:
    """Per-function description of sources, maps and sinks."""

    def __init__(self, params=None, maps=None, target=None, unpack=None,
                 loops=None, returns=None, attrs=None, calls=None):
        self.params = params or dict()     # param name -> domain
        self.maps = maps or dict()         # map name -> (from, to)
        self.target = target or set()      # receivers that are the target
        self.unpack = unpack or dict()     # callee/attr -> tuple domains
        self.loops = loops or dict()       # iter text -> target domains
        self.returns = returns             # domain the function returns
        self.attrs = attrs or dict()       # subscripted table -> triple
        self.calls = calls or dict()       # callee -> result domain


TARGET_API = {'find_or_add': (TLEV, TGT, TGT), 'ite': (TGT, TGT, TGT),
              '_ite': (TGT, TGT, TGT), '_wrap': (TGT,), '_add_int': (TGT,)}

SPECS = {
    'dd.dddmp.load': Spec(
        maps={'umap': (FILE, TGT), 'old2new': (SLEV, TLEV)},
        target={'bdd'},
        unpack={'parse': (FILE, None, None, FILE)},
        loops={'bdd_succ.items()': (FILE, (SLEV, FILE, FILE))}),
    'dd.bdd.BDD._load': Spec(
        params={'u': FILE, 'succ': FILE},
        maps={'umap': (FILE, TGT), 'level_map': (SLEV, TLEV)},
        target={'self'}, returns=TGT,
        attrs={'succ': (SLEV, FILE, FILE)},
        calls={'_load': TGT}),
    'dd.bdd.BDD.load.map_node': Spec(
        params={'u': FILE}, maps={'umap': (FILE, TGT)}, returns=TGT),
    'dd.bdd._copy_bdd': Spec(
        params={'u': SRC},
        maps={'cache': (SRC, TGT), 'level_map': (SLEV, TLEV)},
        target={'bdd'}, returns=TGT,
        attrs={'old_bdd._succ': (SLEV, SRC, SRC)},
        calls={'_copy_bdd': TGT}),
    'dd.bdd.BDD.reduction': Spec(
        maps={'umap': (SRC, TGT)}, target={'bdd'},
        loops={'levels': (SRC, SLEV, SRC, SRC),
               'self.roots': (SRC,)}),
    'dd._copy._node_from_int': Spec(
        params={'uid': FILE}, maps={'cache': (FILE, TGT)},
        target={'bdd'}, returns=TGT),
    'dd._copy._make_node': Spec(
        maps={'cache': (FILE, TGT)}, target={'bdd'},
        calls={'_node_from_int': TGT, '_decode_node': FILE}),
}
# reduction uses the same levels in the copy: identity level map
IDENTITY_LEVELS = {'dd.bdd.BDD.reduction'}


class Dom:
    def __init__(self, R, func, spec):
        self.R = R
        self.func = func
        self.spec = spec
        self.sinks = 0
        self.reported = set()

    def bad(self, sub, construct, msg, node, path):
        if (sub, construct) in self.reported:
            return
        self.reported.add((sub, construct))
        self.R.violation(
            'R-DOMAIN', sub, self.func.qualname, construct, msg,
            unit=self.func.unit.rel, line=getattr(
                node, 'lineno', self.func.lineno),
            path=pa.describe(path) if path else None,
            stmts=[au.short(node, 120)])

    def of(self, e, env):
        """Domain of expression `e` (None = unknown / plain data)."""
        sp = self.spec
        if isinstance(e, ast.Name):
            return env.get(e.id)
        if isinstance(e, ast.Constant):
            return None
        if isinstance(e, ast.UnaryOp):
            return self.of(e.operand, env)
        if isinstance(e, ast.IfExp):
            a, b = self.of(e.body, env), self.of(e.orelse, env)
            return a if a == b else (a or b)
        if isinstance(e, ast.Subscript):
            base = au.src(e.value)
            if base in sp.maps:
                return sp.maps[base][1]
            return None
        if isinstance(e, ast.Call):
            name = au.call_name(e)
            if name == '_flip' and e.args:
                # the sign of the second argument on the first one
                return self.of(e.args[0], env)
            if name in ('abs', 'int', 'str'):
                ds = {self.of(a, env) for a in e.args} - {None}
                return ds.pop() if len(ds) == 1 else None
            if name in sp.calls:
                return sp.calls[name]
            if name in TARGET_API and au.call_recv(e) and \
                    au.call_recv(e)[0] in sp.target:
                return TGT
            if name == 'get' and isinstance(e.func, ast.Attribute):
                base = au.src(e.func.value)
                if base in sp.maps:
                    return sp.maps[base][1]
            return None
        if isinstance(e, (ast.SetComp, ast.ListComp, ast.GeneratorExp)):
            env2 = dict(env)
            for g in e.generators:
                d = self.of(g.iter, env2)
                for n in ast.walk(g.target):
                    if isinstance(n, ast.Name):
                        env2[n.id] = d
            return self.of(e.elt, env2)
        return None

    def check_map_use(self, e, env, path):
        """Every subscript of a translation map is indexed in its domain."""
        sp = self.spec
        for n in ast.walk(e):
            key = None
            base = None
            if isinstance(n, ast.Subscript):
                base = au.src(n.value)
                key = n.slice
            elif isinstance(n, ast.Call) and au.call_name(
                    n) == 'get' and isinstance(
                        n.func, ast.Attribute) and n.args:
                base = au.src(n.func.value)
                key = n.args[0]
            if base in sp.maps and key is not None:
                d = self.of(key, env)
                self.sinks += 1
                want = sp.maps[base][0]
                if d is not None and d != want:
                    self.bad(
                        'map-key', base,
                        f'`{au.short(n)}`: the translation map `{base}` '
                        f'({want} -> {sp.maps[base][1]}) is indexed with '
                        f'a {d}', n, path)

    def check_sinks(self, stmt, env, path):
        sp = self.spec
        for c in au.calls_in(stmt):
            name = au.call_name(c)
            recv = au.call_recv(c)
            if name in TARGET_API and recv and recv[0] in sp.target:
                want = TARGET_API[name]
                for a, w in zip(c.args, want):
                    d = self.of(a, env)
                    self.sinks += 1
                    if d in FOREIGN and not (
                            d == SLEV and w == TLEV
                            and self.func.qualname in IDENTITY_LEVELS):
                        self.bad(
                            'foreign-id', f'{name}',
                            f'`{au.short(c, 70)}`: argument '
                            f'`{au.short(a)}` is a {d} but the target '
                            f'manager expects a {w}; identifiers of the '
                            'file / source manager must go through the '
                            'translation map', c, path)
            # roots of the target manager
            if name in ('add', 'update') and recv and len(recv) == 2 and \
                    recv[0] in sp.target and recv[1] == 'roots' and c.args:
                d = self.of(c.args[0], env)
                self.sinks += 1
                if d in FOREIGN:
                    self.bad(
                        'foreign-id', 'roots',
                        f'`{au.short(c, 70)}`: the roots handed to the '
                        f'new manager are {d}s, not references of that '
                        'manager: they denote whatever node happens to '
                        'have that number', c, path)

    def run(self):
        fn = self.func.node
        sp = self.spec
        try:
            plist = pa.function_paths(fn)
        except pa.PathExplosion:
            self.R.undecided('R-DOMAIN', self.func.qualname, 'domains',
                             'path explosion')
            return
        self.R.count('paths', len(plist))
        for path in plist:
            env = dict(sp.params)
            origin = dict()     # local -> the name it is abs() / a copy of
            for it in path:
                if it[0] == 'stmt' and isinstance(
                        it[1], ast.Assign) and len(
                            it[1].targets) == 1 and isinstance(
                                it[1].targets[0], ast.Name):
                    v = it[1].value
                    src = au.is_abs_of(v) or (
                        v.id if isinstance(v, ast.Name) else None)
                    tgt = it[1].targets[0].id
                    origin.pop(tgt, None)
                    for k in [k for k, o in origin.items() if o == tgt]:
                        del origin[k]
                    if src:
                        origin[it[1].targets[0].id] = src
                if it[0] == 'test' and it[2] is True:
                    # `abs(u) == 1`: the terminal is the same constant in
                    # every domain
                    t = it[1]
                    if isinstance(t, ast.Compare) and len(
                            t.ops) == 1 and isinstance(
                                t.ops[0], ast.Eq) and au.const_int(
                                    t.comparators[0]) in (1, -1):
                        nm = au.is_abs_of(t.left) or (
                            t.left.id if isinstance(t.left, ast.Name)
                            else None)
                        while nm:
                            env.pop(nm, None)
                            nm = origin.get(nm)
                if it[0] == 'loop' and isinstance(it[1], ast.For) and \
                        it[2] >= 1:
                    node = it[1]
                    key = au.src(node.iter).replace(' ', '')
                    doms = None
                    for k, v in sp.loops.items():
                        if key.startswith(k.replace(' ', '')):
                            doms = v
                    self.bind(node.target, doms, node.iter, env)
                elif it[0] == 'stmt':
                    s = it[1]
                    if isinstance(s, (ast.FunctionDef, ast.ClassDef)):
                        continue
                    self.check_map_use(s, env, path)
                    self.check_sinks(s, env, path)
                    if isinstance(s, ast.Assign):
                        self.assign(s, env, path)
                    if isinstance(s, ast.Return) and s.value is not None \
                            and sp.returns:
                        d = self.of(s.value, env)
                        self.sinks += 1
                        if d in FOREIGN:
                            self.bad(
                                'foreign-return', 'return',
                                f'`{au.short(s)}` returns a {d} where a '
                                f'{sp.returns} is expected', s, path)

    def bind(self, target, doms, value, env):
        if doms is None:
            d = self.of(value, env) if value is not None else None
            for n in ast.walk(target):
                if isinstance(n, ast.Name):
                    if d:
                        env[n.id] = d
                    else:
                        env.pop(n.id, None)
            return
        if isinstance(target, ast.Name):
            d = doms[0] if isinstance(doms, tuple) and len(
                doms) == 1 else (doms if isinstance(doms, str) else None)
            if d:
                env[target.id] = d
            return
        if isinstance(target, (ast.Tuple, ast.List)) and isinstance(
                doms, tuple) and len(target.elts) == len(doms):
            for t, d in zip(target.elts, doms):
                if isinstance(d, tuple):
                    self.bind(t, d, None, env)
                elif isinstance(t, ast.Name):
                    if d:
                        env[t.id] = d
                    else:
                        env.pop(t.id, None)

    def assign(self, s, env, path):
        sp = self.spec
        v = s.value
        for t in s.targets:
            # store into a translation map
            if isinstance(t, ast.Subscript) and au.src(t.value) in sp.maps:
                frm, to = sp.maps[au.src(t.value)]
                dk = self.of(t.slice, env)
                dv = self.of(v, env)
                self.sinks += 1
                if dk is not None and dk != frm:
                    self.bad('map-key', au.src(t.value),
                             f'`{au.short(s)}`: key is a {dk}, the map '
                             f'goes {frm} -> {to}', s, path)
                if dv is not None and dv != to:
                    self.bad('map-value', au.src(t.value),
                             f'`{au.short(s)}`: value is a {dv}, the map '
                             f'goes {frm} -> {to}', s, path)
                continue
            # unpacking of a known producer
            doms = None
            if isinstance(v, ast.Call) and au.call_name(v) in sp.unpack:
                doms = sp.unpack[au.call_name(v)]
            elif isinstance(v, ast.Subscript) and au.src(
                    v.value) in sp.attrs:
                doms = sp.attrs[au.src(v.value)]
            if doms is not None:
                self.bind(t, doms, None, env)
                continue
            if isinstance(t, (ast.Tuple, ast.List)) and isinstance(
                    v, (ast.Tuple, ast.List)) and len(t.elts) == len(
                        v.elts):
                vals = [self.of(x, env) for x in v.elts]
                for a, d in zip(t.elts, vals):
                    if isinstance(a, ast.Name):
                        if d:
                            env[a.id] = d
                        else:
                            env.pop(a.id, None)
                continue
            self.bind(t, None, v, env)


def discover_spec(P, q):
    """Specs whose map / table names are locals are rebuilt from the
    defining expressions, so that renaming a local changes nothing."""
    f = P.func(q)
    fn = f.node
    sp = SPECS[q]
    if q == 'dd.dddmp.load':
        table = roots = None
        for n in au.walk_no_defs(fn):
            if isinstance(n, ast.Assign) and isinstance(
                    n.targets[0], ast.Tuple) and isinstance(
                        n.value, ast.Call) and au.call_name(
                            n.value) == 'parse' and len(
                                n.targets[0].elts) == 4:
                e = n.targets[0].elts
                table, roots = au.src(e[0]), au.src(e[3])
        umap = [nm for nm in au.names_defined_by(fn, lambda v: isinstance(
            v, ast.Dict) and len(v.keys) >= 1 and all(
                au.const_int(k) in (1, -1) for k in v.keys))]
        # the level map: `i = M[k]` with k the level of the file's triple
        lmap = None
        for lp in au.walk_no_defs(fn):
            if isinstance(lp, ast.For) and isinstance(
                    lp.target, ast.Tuple) and len(
                        lp.target.elts) == 2 and isinstance(
                            lp.target.elts[1], ast.Tuple):
                k = lp.target.elts[1].elts[0]
                for n in au.walk_no_defs(lp):
                    if isinstance(n, ast.Assign) and isinstance(
                            n.value, ast.Subscript) and isinstance(
                                n.value.value, ast.Name) and au.src(
                                    n.value.slice) == au.src(k):
                        lmap = n.value.value.id
        if not (table and roots and umap and lmap):
            raise AnalysisError(
                'dd.dddmp.load: the parse() unpacking, the node map or '
                'the level map was not recognised')
        return Spec(
            maps={umap[0]: (FILE, TGT), lmap: (SLEV, TLEV)},
            target=sp.target,
            unpack={'parse': (FILE, None, None, FILE)},
            loops={f'{table}.items()': (FILE, (SLEV, FILE, FILE))})
    if q == 'dd.bdd.BDD.reduction':
        umap = [nm for nm in au.names_defined_by(fn, lambda v: isinstance(
            v, ast.Dict) and len(v.keys) == 1 and au.const_int(
                v.keys[0]) == 1)]
        lv = [nm for nm in au.names_defined_by(fn, lambda v: isinstance(
            v, ast.Call) and au.call_name(v) == 'levels')]
        tgt = [nm for nm in au.names_defined_by(fn, lambda v: isinstance(
            v, ast.Call) and au.call_name(v) == 'BDD')]
        if not (umap and tgt):
            raise AnalysisError('dd.bdd.BDD.reduction: node map / copy '
                                'manager not recognised')
        loops = {'self.roots': (SRC,), 'self.levels': (
            SRC, SLEV, SRC, SRC)}
        for nm in lv:
            loops[nm] = (SRC, SLEV, SRC, SRC)
        return Spec(maps={umap[0]: (SRC, TGT)}, target={tgt[0]},
                    loops=loops)
    if q == 'dd.bdd.BDD.load.map_node':
        subs = [n.value.id for n in au.walk_no_defs(fn)
                if isinstance(n, ast.Subscript) and isinstance(
                    n.value, ast.Name)]
        if not subs:
            raise AnalysisError('dd.bdd.BDD.load.map_node: no map lookup')
        return Spec(params=sp.params, maps={subs[0]: (FILE, TGT)},
                    returns=TGT)
    return sp


def r_domain(P, R):
    by_prop = {
        'C16': ['dd.dddmp.load'],
        'C12': ['dd.bdd.BDD._load', 'dd.bdd.BDD.load.map_node',
                'dd._copy._node_from_int', 'dd._copy._make_node'],
        'C11': ['dd.bdd._copy_bdd'],
        'C04': ['dd.bdd._copy_bdd'],
        'C02': ['dd.bdd.BDD.reduction'],
    }
    total = 0
    for q in by_prop.get(R.prop, []):
        f = P.func(q)
        d = Dom(R, f, discover_spec(P, q))
        d.run()
        total += d.sinks
        if not d.reported:
            R.holds('R-DOMAIN', q,
                    f'{d.sinks} uses of translation maps / target-manager '
                    'arguments, all in the right identifier domain')
    R.floor(f'R-DOMAIN sink evaluations for {R.prop}', total,
            {'C16': 5, 'C12': 8, 'C11': 5, 'C04': 5, 'C02': 4}.get(
                R.prop, 1))
    if R.prop in ('C11', 'C04'):
        level_map_by_name(P, R)
    if R.prop == 'C12':
        pickle_level_map(P, R)
        terminal_roots(P, R)
r_domain.NAME = 'R-DOMAIN'


def level_map_by_name(P, R):
    """copy_bdd: {source level of var: target level of var}, by name."""
    f = P.func('dd.bdd.copy_bdd')
    params = f.params
    dc = [n for n in au.walk_no_defs(f.node) if isinstance(n, ast.DictComp)]
    verdict = None
    if len(dc) == 1 and len(params) >= 3:
        d = dc[0]
        src_m, tgt_m = params[1], params[2]
        g = d.generators[0]

        def level_of(e):
            """(manager, variable) of `<mgr>.level_of_var(x)` or
            `<mgr>.vars[x]`."""
            if isinstance(e, ast.Call) and au.call_name(
                    e) == 'level_of_var' and e.args:
                return au.call_recv(e)[0], au.src(e.args[0])
            if isinstance(e, ast.Subscript) and au.chain(
                    e.value) and au.chain(e.value)[-1] == 'vars':
                return au.chain(e.value)[0], au.src(e.slice)
            return None
        k, v = level_of(d.key), level_of(d.value)
        var = au.src(g.target)
        if k and v and k[1] == v[1] == var:
            if (k[0], v[0]) == (src_m, tgt_m):
                verdict = True
            elif (k[0], v[0]) == (tgt_m, src_m):
                verdict = False
            elif k[0] == v[0]:
                verdict = False
    if verdict is True:
        R.holds('R-DOMAIN', f.qualname, 'level map: source level of each '
                'source variable -> target level of the same name')
    elif verdict is False:
        R.violation(
            'R-DOMAIN', 'level-map', f.qualname, 'level_map',
            'the level map of copy_bdd does not map the source level of '
            'each variable name to the target level of the same name '
            f'(`{au.short(dc[0], 90)}`)',
            unit=f.unit.rel, line=f.lineno)
    else:
        R.undecided('R-DOMAIN', f.qualname, 'level map',
                    'unrecognised form')
    if R.prop == 'C04':
        g = P.func('dd.bdd.rename')
        dc = [n for n in au.walk_no_defs(g.node)
              if isinstance(n, ast.DictComp)]
        verdict = None
        if len(dc) == 1:
            d = dc[0]
            it = au.src(d.generators[0].iter).replace(' ', '')
            v = d.value
            total = it in ('bdd.vars', 'levels', 'bdd.vars.keys()')
            default_id = any(
                isinstance(c, ast.Call) and au.call_name(c) == 'get'
                and len(c.args) == 2 and au.src(c.args[0]) == au.src(
                    c.args[1]) for c in ast.walk(v))
            if total and default_id:
                verdict = True
            elif not total or not any(
                    isinstance(c, ast.Call) and au.call_name(c) == 'get'
                    for c in ast.walk(v)):
                verdict = False
        if verdict is True:
            R.holds('R-DOMAIN', g.qualname, 'rename builds a total level '
                    'map with identity default')
        elif verdict is False:
            R.violation(
                'R-DOMAIN', 'level-map', g.qualname, 'dvars',
                'rename no longer builds a total level map (identity for '
                'variables that are not renamed): nodes of other '
                'variables lose their level', unit=g.unit.rel,
                line=g.lineno)
        else:
            R.undecided('R-DOMAIN', g.qualname, 'level map',
                        'unrecognised form')


def terminal_roots(P, R):
    """A dumped root may be the constant: the map from file nodes to
    nodes of the manager must cover the terminal (or the lookup must be
    guarded by a terminal test)."""
    f = P.func('dd.bdd.BDD.load.map_node')
    params = f.params
    u = params[0] if params else 'u'
    guarded = False
    for path in pa.function_paths(f.node):
        seen_guard = False
        for it in path:
            if it[0] == 'test':
                t = it[1]
                if isinstance(t, ast.Compare) and len(t.ops) == 1:
                    l = au.src(t.left).replace(' ', '')
                    r = au.src(t.comparators[0]).replace(' ', '')
                    if (l == f'abs({u})' and r == '1' and isinstance(
                            t.ops[0], ast.Eq)) or (
                                l == u and r in ('(1,-1)', '(-1,1)')):
                        seen_guard = True
            if it[0] == 'stmt' and any(
                    isinstance(n, ast.Subscript) and isinstance(
                        n.value, ast.Name) for n in ast.walk(it[1])):
                if seen_guard:
                    guarded = True
    lp = P.func('dd.bdd.BDD._load_pickle')
    # the node map: the dictionary handed to _load as its memo
    ld = P.func('dd.bdd.BDD._load')
    lparams = [x for x in ld.params if x != 'self']
    mname = None
    for c in au.calls_in(lp.node, '_load'):
        bound = dict(zip(lparams, c.args))
        a = bound.get('umap')
        if isinstance(a, ast.Name):
            mname = a.id
    seeded = False
    if mname:
        for n in au.assignments_to(lp.node, mname):
            v = n.value
            if isinstance(v, ast.Dict) and any(
                    au.const_int(k) == 1 for k in v.keys if k is not None):
                seeded = True
    if mname is None:
        R.undecided('R-DOMAIN', f.qualname, 'node map of the pickle '
                    'loader', 'not recognised')
    elif guarded or seeded:
        R.holds('R-DOMAIN', f.qualname, 'a constant root is translated '
                '(the node map covers the terminal)')
    else:
        R.violation(
            'R-DOMAIN', 'terminal-unmapped', f.qualname, 'umap',
            'the roots of a pickle are translated by a lookup in the node '
            'map, but the map is created without the terminal and _load '
            'never records it: a dump whose roots include TRUE or FALSE '
            'cannot be loaded (KeyError: 1)', unit=f.unit.rel,
            line=f.lineno)


def pickle_level_map(P, R):
    """_load_pickle: level_map[file level] = level returned by add_var."""
    f = P.func('dd.bdd.BDD._load_pickle')
    ld = P.func('dd.bdd.BDD._load')
    lparams = [x for x in ld.params if x != 'self']
    mname = None
    for c in au.calls_in(f.node, '_load'):
        a = dict(zip(lparams, c.args)).get('level_map')
        if isinstance(a, ast.Name):
            mname = a.id
    if mname is None:
        R.undecided('R-DOMAIN', f.qualname, 'level map', 'not recognised')
        return
    stores = [s for s in au.walk_no_defs(f.node)
              if isinstance(s, ast.Assign) and isinstance(
                  s.targets[0], ast.Subscript) and au.is_name(
                      s.targets[0].value, mname)]
    ok = None
    if len(stores) == 1 and isinstance(stores[0].value, ast.Name):
        key = au.src(stores[0].targets[0].slice)
        val = stores[0].value.id
        # the key is the level stored in the file for the variable, the
        # value the level add_var returned for the same variable
        loop = None
        for lp in au.walk_no_defs(f.node):
            if isinstance(lp, ast.For) and stores[0] in list(
                    ast.walk(lp)):
                loop = lp
        defs = au.assignments_to(f.node, val)
        from_add = bool(defs) and all(
            isinstance(d.value, ast.Call) and au.call_name(
                d.value) == 'add_var' for d in defs)
        key_is_file_level = loop is not None and isinstance(
            loop.target, ast.Tuple) and len(
                loop.target.elts) == 2 and au.src(
                    loop.target.elts[1]) == key
        same_var = from_add and loop is not None and all(
            d.value.args and au.src(d.value.args[0]) == au.src(
                loop.target.elts[0]) for d in defs)
        ok = from_add and key_is_file_level and same_var
    if ok:
        R.holds('R-DOMAIN', f.qualname, 'level map: file level -> level '
                'of the same variable in this manager')
    elif ok is False:
        R.violation('R-DOMAIN', 'level-map', f.qualname, 'level_map',
                    'the pickle level map is no longer file level -> '
                    'level of the same-named variable', unit=f.unit.rel,
                    line=f.lineno)
    else:
        R.undecided('R-DOMAIN', f.qualname, 'level map', 'unrecognised')


# ---------------------------------------------------------------- R-REBUILD
JUSTIFIED_MAPPED = {
    'dd.dddmp.load':
        'old2new is built from sorted() + enumerate(): strictly '
        'increasing, hence order preserving',
    'dd.autoref.BDD.find_or_add':
        'public primitive: the level is the one the caller names '
        '(documented obligation of the caller)',
    'dd._copy._make_node':
        'find_or_add is used only under load_order, after the manager was '
        'reordered to the order stored in the file',
    'dd.mdd.bdd_to_mdd':
        'MDD manager: level of the integer variable, after the bits were '
        'reordered into zones',
    'dd.bdd.BDD.swap':
        'the two levels being exchanged (2x2 cofactor matrix, not '
        'described by this rule)',
    'dd.bdd.BDD.reduction':
        'same variable order in the copy (BDD(self.vars)); bottom-up by '
        'levels()',
}


# justification that holds only under a condition: the call must be
# dominated by a test of which the condition is a conjunct
REQUIRED_GUARD = {
    'dd._copy._make_node': "context['load_order']",
}


def under_guard(f, call, cond):
    au.set_parents(f.node)
    want = cond.replace(' ', '').replace('"', "'")
    p, child = getattr(call, '_parent', None), call
    while p is not None:
        if isinstance(p, ast.If) and any(
                child is s or any(child is x for x in ast.walk(s))
                for s in p.body):
            t = p.test
            conj = t.values if isinstance(t, ast.BoolOp) and isinstance(
                t.op, ast.And) else [t]
            if any(au.src(x).replace(' ', '').replace('"', "'") == want
                   for x in conj):
                return True
        child, p = p, getattr(p, '_parent', None)
    return False


def classify_site(f, call, path_env):
    """Classification of find_or_add(L, a, b) at one call site."""
    args = call.args
    if any(isinstance(a, ast.Starred) for a in args) or len(args) < 3:
        return 'VARIADIC', None
    L, a, b = args[0], args[1], args[2]
    if au.const_int(a) == -1 and au.const_int(b) == 1:
        return 'VAR-NODE', None
    fn = f.node
    if isinstance(L, ast.Attribute) and L.attr in ('var', 'level') and \
            isinstance(L.value, ast.Name):
        # the variable (or level) of a node of ANOTHER diagram
        return 'MAPPED', L
    if isinstance(L, ast.Name):
        defs = [s for s in au.walk_no_defs(fn) if isinstance(
            s, (ast.Assign, ast.For)) and L.id in au.assigned_names(s)]
        for s in defs:
            if isinstance(s, ast.Assign):
                v = s.value
                if isinstance(v, ast.Call) and au.call_name(v) == 'min':
                    return 'MIN-LEVEL', s
                if isinstance(v, ast.Subscript) and isinstance(
                        s.targets[0], ast.Name):
                    base = au.src(v.value)
                    if not base.endswith('_succ') and base != 'succ':
                        return 'MAPPED', s
                if isinstance(v, ast.Call) and au.call_name(v) in (
                        'level_of_var', 'get'):
                    return 'MAPPED', s
                if isinstance(s.targets[0], ast.Tuple) and isinstance(
                        v, ast.Subscript) and (
                            au.src(v.value).endswith('_succ')
                            or au.src(v.value) == 'succ'):
                    return 'SAME-NODE', s
            if isinstance(s, ast.For):
                return 'SAME-NODE', s
    return 'UNKNOWN', None


def r_rebuild(P, R):
    mods = {'dd.bdd', 'dd.autoref', 'dd._copy', 'dd.mdd', 'dd.dddmp'}
    only = {
        'C12': {'dd.bdd.BDD._load', 'dd._copy._make_node'},
        'C16': {'dd.dddmp.load'},
        'C11': {'dd.bdd._copy_bdd'},
        'C13': {'dd.bdd._image'},
    }.get(R.prop)
    n = 0
    for f in sorted(P.all_funcs(mods), key=lambda f: f.qualname):
        if only is not None and f.qualname not in only:
            continue
        for c in au.calls_in(f.node):
            if au.call_name(c) != 'find_or_add':
                continue
            if f.qualname.startswith('dd.mdd.MDD'):
                continue
            n += 1
            kind, where = classify_site(f, c, None)
            what = f'`{au.short(c, 60)}`: level argument is {kind}'
            if kind == 'MIN-LEVEL' and isinstance(c.args[0], ast.Name):
                # the recursion below the top level keeps the order only
                # if it does not also move variables: a function that
                # translates the level it splits on (umap[z]) builds its
                # results at the translated levels
                lv = c.args[0].id
                params = set(f.params)
                moved = None
                for x in au.walk_no_defs(f.node):
                    if isinstance(x, ast.Subscript) and isinstance(
                            x.value, ast.Name) and x.value.id in params \
                            and au.is_name(x.slice, lv):
                        moved = x
                    if isinstance(x, ast.Call) and au.call_name(
                            x) == 'get' and isinstance(
                                x.func.value, ast.Name) and \
                            x.func.value.id in params and x.args and \
                            au.is_name(x.args[0], lv):
                        moved = x
                if moved is not None:
                    R.violation(
                        'R-REBUILD', 'min-level-with-renaming', f.qualname,
                        'find_or_add',
                        f'`{au.short(c, 60)}` makes a node at the top '
                        f'level `{lv}` of the operands, but {f.name} also '
                        f'renames that level (`{au.short(moved)}`): the '
                        'children come from the recursion, which builds '
                        'at the renamed levels, so a child can lie above '
                        f'level `{lv}` (unordered diagram)',
                        unit=f.unit.rel, line=c.lineno)
                    continue
            if kind == 'SAME-NODE' and isinstance(c.args[0], ast.Name):
                # children that come from the recursion on cofactors taken
                # at level Z belong under a node at level Z
                zs = {au.src(tc.args[1]) for tc in au.calls_in(
                    f.node, '_top_cofactor') if len(tc.args) > 1}
                rec = {s.targets[0].id for s in au.walk_no_defs(f.node)
                       if isinstance(s, ast.Assign) and isinstance(
                           s.targets[0], ast.Name) and isinstance(
                               s.value, ast.Call) and au.call_name(
                                   s.value) == f.name}
                kids = {a.id for a in c.args[1:3]
                        if isinstance(a, ast.Name)}
                if zs and kids and kids <= rec and \
                        c.args[0].id not in zs:
                    R.violation(
                        'R-REBUILD', 'node-level-not-cofactor-level',
                        f.qualname, 'find_or_add',
                        f'`{au.short(c, 60)}` puts the results of the '
                        f'recursion on the cofactors at level '
                        f'{sorted(zs)} under a node at level '
                        f'`{c.args[0].id}` (the level of one operand): '
                        'when another operand starts higher, the '
                        'children are at that very level and the diagram '
                        'is not ordered', unit=f.unit.rel, line=c.lineno)
                    continue
            if kind in ('VAR-NODE', 'SAME-NODE', 'MIN-LEVEL'):
                R.holds('R-REBUILD', f.qualname, what)
            elif f.qualname in JUSTIFIED_MAPPED and \
                    f.qualname in REQUIRED_GUARD and not under_guard(
                        f, c, REQUIRED_GUARD[f.qualname]):
                R.violation(
                    'R-REBUILD', 'mapped-level-unguarded', f.qualname,
                    'find_or_add',
                    f'`{au.short(c, 60)}` builds a node at a mapped level; '
                    'that is order preserving only when '
                    f'`{REQUIRED_GUARD[f.qualname]}` holds, and the call '
                    'is reached without it (the guard is missing, or is '
                    'one alternative of an `or`)', unit=f.unit.rel,
                    line=c.lineno)
            elif f.qualname in JUSTIFIED_MAPPED:
                R.holds('R-REBUILD', f.qualname,
                        f'{what}; justified: '
                        f'{JUSTIFIED_MAPPED[f.qualname]}')
            elif kind == 'MAPPED':
                R.violation(
                    'R-REBUILD', 'mapped-level', f.qualname,
                    'find_or_add',
                    f'`{au.short(c, 70)}` builds a node at a level taken '
                    f'from a map (`{au.short(where)}`) with children that '
                    'were rebuilt separately; nothing guarantees that the '
                    'map preserves the variable order, so a child can end '
                    'up above its parent (unordered, non-canonical '
                    'diagram). Rebuild through ite on the variable '
                    'instead.', unit=f.unit.rel, line=c.lineno)
            else:
                R.undecided('R-REBUILD', f.qualname, what,
                            'level argument not classified')
    # the condition that justifies a mapped level is decided in one
    # place: the flag is not rewritten on the way (the loader switches
    # dynamic reordering off by its argument, the node builder chooses
    # find_or_add by the flag; they must not come apart)
    if only is None or any(q in REQUIRED_GUARD for q in only):
        for q, cond in REQUIRED_GUARD.items():
            key = cond.split("'")[1] if "'" in cond else None
            if key is None:
                continue
            mod = q.rsplit('.', 1)[0]
            for f in sorted(P.all_funcs({mod}), key=lambda f: f.qualname):
                for x in au.walk_no_defs(f.node):
                    if isinstance(x, ast.Subscript) and isinstance(
                            x.ctx, ast.Store) and isinstance(
                                x.slice, ast.Constant) and \
                            x.slice.value == key:
                        R.violation(
                            'R-REBUILD', 'guard-flag-rewritten',
                            f.qualname, key,
                            f'`{au.short(x)}` is assigned in {f.name}: '
                            f'the flag under which {q.rsplit(".", 1)[1]} '
                            'builds nodes directly no longer is the '
                            'argument by which the loader switched '
                            'dynamic reordering off, so find_or_add can '
                            'run with reordering requests armed',
                            unit=f.unit.rel, line=x.lineno)
    R.floor(f'R-REBUILD find_or_add sites for {R.prop}', n,
            {None: 14}.get(None) if only is None else len(only))
r_rebuild.NAME = 'R-REBUILD'
