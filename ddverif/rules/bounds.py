"""R-ACCEPT: which arguments the validating prologue of a function lets
through, decided by interpreting the prologue over a small finite model.

The prologue (statements up to the last `raise` guard) of the functions
below consists of comparisons between small integers, `len(self.vars)` and
membership in the node table.  Such tests cannot tell 3 declared variables
from 30, so the set of accepted argument tuples over a model with up to 3
variables and 3 nodes is compared, tuple by tuple, with the set the
function's contract admits.  Nothing of the repository is executed: the
interpreter below knows comparisons, `abs`, `len(self.vars)`, `in`,
`and/or/not`, tuple assignment; anything else makes the verdict
`undecided` (never a violation).
"""
import ast
import itertools

from .. import astutil as au
from ..frontend import AnalysisError


class Unknown(Exception):
    pass


def ev(e, env):
    if isinstance(e, ast.Constant):
        return e.value
    if isinstance(e, ast.Name):
        if e.id in env:
            return env[e.id]
        raise Unknown(e.id)
    if isinstance(e, ast.Attribute):
        ch = au.chain(e)
        key = '.'.join(ch) if ch else None
        if key in env:
            return env[key]
        raise Unknown(au.src(e))
    if isinstance(e, ast.UnaryOp):
        v = ev(e.operand, env)
        if isinstance(e.op, ast.Not):
            return not v
        if isinstance(e.op, ast.USub):
            return -v
        raise Unknown(au.src(e))
    if isinstance(e, ast.BinOp):
        a, b = ev(e.left, env), ev(e.right, env)
        if isinstance(e.op, ast.Add):
            return a + b
        if isinstance(e.op, ast.Sub):
            return a - b
        if isinstance(e.op, ast.Mult) and isinstance(
                a, int) and isinstance(b, int):
            return a * b
        if isinstance(e.op, ast.FloorDiv) and isinstance(
                a, int) and isinstance(b, int) and b != 0:
            return a // b
        raise Unknown(au.src(e))
    if isinstance(e, ast.BoolOp):
        if isinstance(e.op, ast.And):
            r = True
            for v in e.values:
                r = ev(v, env)
                if not r:
                    return r
            return r
        r = False
        for v in e.values:
            r = ev(v, env)
            if r:
                return r
        return r
    if isinstance(e, ast.Call):
        n = au.call_name(e)
        if n == 'isinstance' and len(e.args) == 2:
            v = ev(e.args[0], env)
            t = au.src(e.args[1])
            if t == 'int':
                return isinstance(v, int)
            raise Unknown(au.src(e))
        if n == 'abs' and len(e.args) == 1:
            return abs(ev(e.args[0], env))
        if n == 'len' and len(e.args) == 1:
            v = ev(e.args[0], env)
            return len(v)
        if n in ('min', 'max') and e.args and not e.keywords:
            vals = [ev(a, env) for a in e.args]
            return min(vals) if n == 'min' else max(vals)
        raise Unknown(au.src(e))
    if isinstance(e, ast.Compare):
        left = ev(e.left, env)
        for op, c in zip(e.ops, e.comparators):
            right = ev(c, env)
            if isinstance(op, ast.Lt):
                ok = left < right
            elif isinstance(op, ast.LtE):
                ok = left <= right
            elif isinstance(op, ast.Gt):
                ok = left > right
            elif isinstance(op, ast.GtE):
                ok = left >= right
            elif isinstance(op, ast.Eq):
                ok = left == right
            elif isinstance(op, ast.NotEq):
                ok = left != right
            elif isinstance(op, ast.In):
                ok = left in right
            elif isinstance(op, ast.NotIn):
                ok = left not in right
            elif isinstance(op, ast.Is):
                ok = left is right
            elif isinstance(op, ast.IsNot):
                ok = left is not right
            else:
                raise Unknown(au.src(e))
            if not ok:
                return False
            left = right
        return True
    if isinstance(e, ast.Tuple):
        return tuple(ev(x, env) for x in e.elts)
    raise Unknown(au.src(e))


def assigned_names(stmt):
    out = set()
    for n in ast.walk(stmt):
        if isinstance(n, ast.Name) and isinstance(n.ctx, ast.Store):
            out.add(n.id)
    return out


def is_raise_guard(s):
    return isinstance(s, ast.If) and s.body and isinstance(
        s.body[-1], ast.Raise) and not au.raises_assertion(s.body[-1])


def run_prologue(stmts, env, tracked):
    """-> 'accept' | 'reject'; raises Unknown.  The statements are run by
    the small-model interpreter (ddverif/interp.py); statements that have
    no bearing on the arguments (logging, a collection) are skipped."""
    from .. import interp
    m = interp.Machine(env)
    live = set(tracked)

    def names_of(s):
        try:
            return s._dd_names
        except AttributeError:
            s._dd_names = frozenset(
                x.id for x in ast.walk(s) if isinstance(x, ast.Name))
            s._dd_raises = any(
                isinstance(x, ast.Raise) for x in ast.walk(s))
            return s._dd_names

    def relevant(s):
        return not live.isdisjoint(names_of(s))
    for s in stmts:
        if isinstance(s, ast.Expr):
            continue
        if isinstance(s, (ast.Assign, ast.AnnAssign, ast.AugAssign)):
            if relevant(s):
                live |= assigned_names(s)
            else:
                # a local that does not depend on the arguments: keep it
                # if it can be evaluated, forget it otherwise
                try:
                    m.stmt(s)
                    live |= assigned_names(s)
                except (interp.Unknown, interp.Raised):
                    for nm in assigned_names(s):
                        m.env.pop(nm, None)
                continue
        elif not relevant(s) and not s._dd_raises:
            continue
        try:
            m.stmt(s)
        except interp.Raised as r:
            if r.name == 'AssertionError':
                raise Unknown('assertion')
            return 'reject'
        except interp.Returned:
            return 'accept'
        except interp.Unknown as e:
            if not relevant(s):
                continue
            raise Unknown(str(e))
    return 'accept'


def prologue_of(fn):
    body = list(fn.body)
    last = -1
    for k, s in enumerate(body):
        if any(is_raise_guard(x) or (isinstance(x, ast.Raise)
                                     and not au.raises_assertion(x))
               for x in ast.walk(s)
               if not isinstance(x, (ast.FunctionDef, ast.Lambda))):
            # only guards before the first table write count
            last = k
    return body[:last + 1]


def first_write(fn):
    for k, s in enumerate(fn.body):
        for x in ast.walk(s):
            if isinstance(x, ast.Subscript) and isinstance(
                    x.ctx, (ast.Store, ast.Del)):
                ch = au.chain(x.value)
                if ch and ch[0] == 'self':
                    return k
    return len(fn.body)


def model_find_or_add(params):
    lv, lo, hi = params
    for n in (1, 2, 3):
        for nodes in ({1}, {1, 2}, {1, 3}, {1, 2, 3}):
            free = min(set(range(1, 6)) - nodes)
            for i in range(-1, n + 2):
                for v, w in itertools.product(
                        (-4, -3, -2, -1, 0, 1, 2, 3, 4), repeat=2):
                    env = {lv: i, lo: v, hi: w,
                           'self.vars': tuple(range(n)),
                           'self._succ': nodes, 'self': _Members(nodes),
                           'self._min_free': free}
                    valid = 0 <= i < n and abs(v) in nodes and abs(
                        w) in nodes
                    yield env, valid, dict(
                        n_vars=n, nodes=sorted(nodes), level=i, low=v,
                        high=w)


def model_swap(params):
    x, y = params[:2]
    for n in (1, 2, 3, 4):
        for a in range(-1, n + 2):
            for b in range(-1, n + 2):
                env = {x: a, y: b, 'self.vars': _Names(n),
                       params[2] if len(params) > 2 else '_': True}
                valid = 0 <= a < n and 0 <= b < n and abs(a - b) == 1
                yield env, valid, dict(n_vars=n, x=a, y=b)


class _Members:
    def __init__(self, nodes):
        self.nodes = nodes

    def __contains__(self, u):
        return abs(u) in self.nodes


class _Names:
    """`self.vars` seen from integers: n names, no integer is a name."""

    def __init__(self, n):
        self.n = n

    def __len__(self):
        return self.n

    def __contains__(self, k):
        return False


INSTANCES = [
    ('dd.bdd.BDD.find_or_add', model_find_or_add,
     'a level in range(len(vars)) and two references to existing nodes'),
    ('dd.bdd.BDD.swap', model_swap,
     'two adjacent levels in range(len(vars))'),
]


def r_accept(P, R):
    for q, model, contract in INSTANCES:
        f = P.func(q)
        params = [p for p in f.params if p != 'self']
        pro = prologue_of(f.node)
        fw = first_write(f.node)
        pro = pro[:fw] if fw < len(pro) else pro
        if not pro:
            R.violation(
                'R-ACCEPT', 'no-guards', q, 'prologue',
                f'{q} rejects nothing before it writes the tables '
                f'(contract: {contract})', unit=f.unit.rel, line=f.lineno)
            continue
        tracked = set(params)
        n = n_valid = 0
        bad_acc = bad_rej = None
        try:
            for env, valid, desc in model(params):
                n += 1
                n_valid += bool(valid)
                r = run_prologue(pro, dict(env), tracked)
                if r == 'accept' and not valid and bad_acc is None:
                    bad_acc = desc
                if r == 'reject' and valid and bad_rej is None:
                    bad_rej = desc
        except Unknown as e:
            R.undecided('R-ACCEPT', q,
                        f'the prologue contains a construct the '
                        f'interpreter does not model ({e})')
            continue
        except (TypeError, KeyError, IndexError) as e:
            R.undecided('R-ACCEPT', q,
                        f'the prologue is not evaluable over the model '
                        f'({type(e).__name__}: {e})')
            continue
        if n_valid == 0 or n_valid == n:
            raise AnalysisError(f'R-ACCEPT: degenerate model for {q}')
        if bad_acc is not None:
            R.violation(
                'R-ACCEPT', 'accepts-invalid', q, 'prologue',
                f'the argument checks of {q} let through {bad_acc}, which '
                f'is not {contract}: the tables are then written (or '
                'read) with it instead of the call being refused',
                unit=f.unit.rel, line=f.lineno)
        if bad_rej is not None:
            R.violation(
                'R-ACCEPT', 'rejects-valid', q, 'prologue',
                f'the argument checks of {q} refuse {bad_rej}, which is '
                f'{contract}', unit=f.unit.rel, line=f.lineno)
        if bad_acc is None and bad_rej is None:
            R.holds('R-ACCEPT', q,
                    f'{n} argument tuples over models with up to 4 '
                    f'variables / 3 nodes: accepted == {contract} '
                    f'({n_valid} tuples)')
r_accept.NAME = 'R-ACCEPT'


# ------------------------------------------------------------- min / max
def _filled_only_in_range_loops(fn):
    """If `fn` returns a container that is created empty and filled only
    inside `for .. in range(..)` loops at the top level of its body, return
    (name, [range calls]); else None."""
    rets = [r for r in au.walk_no_defs(fn) if isinstance(r, ast.Return)]
    if len(rets) != 1 or not isinstance(rets[0].value, ast.Name):
        return None
    name = rets[0].value.id
    init = [s for s in fn.body if isinstance(s, ast.Assign) and au.is_name(
        s.targets[0], name)]
    if len(init) != 1:
        return None
    v = init[0].value
    empty = (isinstance(v, ast.Call) and au.call_name(v) in (
        'dict', 'list', 'set') and not v.args and not v.keywords) or (
            isinstance(v, (ast.Dict, ast.List)) and not (
                getattr(v, 'keys', None) or getattr(v, 'elts', None)))
    if not empty:
        return None
    ranges = []
    for s in fn.body:
        fills = [x for x in ast.walk(s) if (isinstance(
            x, ast.Subscript) and isinstance(x.ctx, ast.Store)
            and au.is_name(x.value, name)) or (isinstance(x, ast.Call)
                                               and isinstance(
            x.func, ast.Attribute) and x.func.attr in (
                'add', 'append', 'update', 'setdefault')
            and au.is_name(x.func.value, name))]
        if not fills:
            continue
        if isinstance(s, ast.For) and isinstance(
                s.iter, ast.Call) and au.call_name(s.iter) == 'range':
            ranges.append(s.iter)
        else:
            return None
    return (name, ranges) if ranges else None


def r_nonempty(P, R):
    """`min(c)` / `max(c)` without `default=` needs a non-empty `c`.  Where
    `c` is the result of a function of this package that fills it only in
    `range()` loops, the ranges are evaluated for every small model of the
    caller (number of variables 1..4, every level): one model with all
    ranges empty is a call that raises ValueError."""
    from .. import scope
    n = 0
    funcs = scope.functions_of(P, R.prop) if R.prop in scope.ENTRY else ()
    for q in sorted(funcs):
        f = P.func(q, required=False)
        if f is None or not q.startswith('dd.bdd.'):
            continue
        fn = f.node
        for c in au.calls_in(fn):
            if au.call_name(c) not in ('min', 'max') or len(
                    c.args) != 1 or any(k.arg == 'default'
                                        for k in c.keywords):
                continue
            arg = c.args[0]
            if not isinstance(arg, ast.Name):
                continue
            defs = au.assignments_to(fn, arg.id)
            if len(defs) != 1 or not isinstance(defs[0].value, ast.Call):
                continue
            call = defs[0].value
            g = P.func(f'dd.bdd.{au.call_name(call)}', required=False)
            if g is None:
                continue
            filled = _filled_only_in_range_loops(g.node)
            if filled is None:
                continue
            n += 1
            gparams = [p.arg for p in g.node.args.args]
            witness = None
            undec = None
            for nv in (1, 2, 3, 4):
                for lvl in range(nv):
                    env = {'bdd.vars': tuple(range(nv)),
                           'self.vars': tuple(range(nv))}
                    try:
                        for st in fn.body:
                            if st is defs[0] or st.lineno >= \
                                    defs[0].lineno:
                                break
                            _step(st, env, lvl)
                        argv = [ev(a, env) if not (isinstance(
                            a, ast.Name) and a.id not in env) else None
                            for a in call.args]
                        genv = dict(zip(gparams, argv))
                        genv = {k: v for k, v in genv.items()
                                if v is not None}
                        genv['bdd.vars'] = env['bdd.vars']
                        for st in g.node.body:
                            if isinstance(st, ast.For):
                                break
                            _step(st, genv, lvl)
                        sizes = [len(range(*[ev(a, genv)
                                             for a in rc.args]))
                                 for rc in filled[1]]
                    except _Stop:
                        continue
                    except Unknown as e:
                        undec = str(e)
                        break
                    except (TypeError, KeyError, ValueError) as e:
                        undec = f'{type(e).__name__}: {e}'
                        break
                    if all(s == 0 for s in sizes) and witness is None:
                        witness = dict(variables=nv, level=lvl)
                if undec:
                    break
            if undec:
                R.undecided('R-EMPTY', q, f'`{au.short(c, 40)}`',
                            f'not evaluable ({undec})')
            elif witness:
                R.violation(
                    'R-EMPTY', 'min-of-empty', q, au.short(c, 30),
                    f'`{au.short(c, 50)}`: `{arg.id}` is what '
                    f'{g.name}() filled in its range() loop(s), and with '
                    f'{witness["variables"]} declared variable(s) (level '
                    f'{witness["level"]}) every one of them is empty: '
                    f'{au.call_name(c)}() of an empty collection raises '
                    'ValueError', unit=f.unit.rel, line=c.lineno)
            else:
                R.holds('R-EMPTY', q,
                        f'`{au.short(c, 40)}`: non-empty for 1..4 '
                        'variables at every level')
    R.holds('R-EMPTY', f'min()/max() behind {R.prop}',
            f'{n} call(s) over a loop-filled result', nontrivial=False)
r_nonempty.NAME = 'R-EMPTY'


class _Stop(Exception):
    """The model leaves the function before the call of interest."""


def _step(st, env, lvl):
    """One statement of the small-model interpretation (assignments,
    conditional tuple swaps; raise-guards that fire end the model)."""
    if isinstance(st, ast.Expr):
        return
    if isinstance(st, ast.If):
        try:
            t = ev(st.test, env)
        except Unknown:
            if any(isinstance(x, ast.Raise) for x in ast.walk(st)):
                return
            raise
        for s2 in (st.body if t else st.orelse):
            if isinstance(s2, ast.Raise):
                raise _Stop()
            if isinstance(s2, ast.Return):
                raise _Stop()
            _step(s2, env, lvl)
        return
    if isinstance(st, ast.Assign) and len(st.targets) == 1:
        t, v = st.targets[0], st.value
        if isinstance(v, ast.Call) and au.call_name(v) == 'level_of_var':
            val = lvl
        elif isinstance(v, ast.IfExp):
            val = ev(v.body, env) if ev(v.test, env) else ev(v.orelse, env)
        elif isinstance(v, ast.Call) and au.call_name(v) == 'len' and \
                v.args and au.chain(v.args[0]) and au.chain(
                    v.args[0])[-1] != 'vars':
            val = 0          # len(bdd): irrelevant to ranges
        elif isinstance(v, ast.Call) and au.call_name(v) not in (
                'len', 'abs', 'min', 'max'):
            if isinstance(t, ast.Name):
                env.pop(t.id, None)
            return
        else:
            val = ev(v, env)
        if isinstance(t, ast.Name):
            env[t.id] = val
        elif isinstance(t, ast.Tuple) and isinstance(val, tuple):
            for x, y in zip(t.elts, val):
                if isinstance(x, ast.Name):
                    env[x.id] = y
        return
    # anything else has no effect on the integers of the model
