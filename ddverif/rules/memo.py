"""R-MEMO (memo soundness and freshness) and R-INVAL (cache invalidation)."""
import ast

from .. import astutil as au
from ..frontend import AnalysisError


# (function, memo container, cursor parameters, entry points)
# memo container: parameter name or 'self.<attr>'
MEMOS = {
    'dd.bdd.BDD._ite': dict(memo='self._ite_table', cursors=()),
    'dd.bdd.BDD._compose': dict(memo='cache', cursors=(),
                                entries=['dd.bdd.BDD.compose']),
    'dd.bdd.BDD._vector_compose': dict(memo='cache', cursors=(),
                                       entries=['dd.bdd.BDD.compose']),
    'dd.bdd.BDD._cofactor': dict(memo='cache', cursors=('j',),
                                 entries=['dd.bdd.BDD.cofactor'],
                                 sorted_param='ordvar'),
    'dd.bdd.BDD._quantify': dict(memo='cache', cursors=('j',),
                                 entries=['dd.bdd.BDD.quantify'],
                                 sorted_param='ordvar'),
    'dd.bdd.BDD._sat_len': dict(memo='d', cursors=(),
                                entries=['dd.bdd.BDD.count']),
    'dd.bdd.BDD._to_expr': dict(memo='cache', cursors=(),
                                entries=['dd.bdd.BDD.to_expr']),
    'dd.bdd.BDD._load': dict(memo='umap', cursors=(),
                             entries=['dd.bdd.BDD._load_pickle']),
    'dd.bdd._copy_bdd': dict(memo='cache', cursors=(),
                             entries=['dd.bdd.copy_bdd', 'dd.bdd.rename']),
    'dd.bdd._image': dict(memo='cache', cursors=(),
                          entries=['dd.bdd.image', 'dd.bdd.preimage']),
    'dd._copy._copy_bdd': dict(memo='cache', cursors=(),
                               entries=['dd._copy.copy_bdd']),
    'dd.mdd.MDD.ite': dict(memo='self._ite_table', cursors=()),
}
BY_PROP = {
    'C01': ['dd.bdd.BDD._ite'],
    'C03': ['dd.bdd.BDD._quantify'],
    'C04': ['dd.bdd.BDD._compose', 'dd.bdd.BDD._vector_compose',
            'dd.bdd.BDD._cofactor', 'dd.bdd._copy_bdd'],
    'C05': ['dd.bdd.BDD._to_expr'],
    'C06': ['dd.bdd.BDD._ite'],
    'C10': ['dd.bdd.BDD._sat_len'],
    'C11': ['dd.bdd._copy_bdd', 'dd._copy._copy_bdd'],
    'C12': ['dd.bdd.BDD._load'],
    'C13': ['dd.bdd._image'],
    'C15': ['dd.mdd.MDD.ite'],
}


def memo_matches(e, memo):
    """Does expression `e` denote the memo container?"""
    ch = au.chain(e)
    if ch is None:
        return False
    return '.'.join(ch) == memo


def resolve_names(fn, e, depth=0):
    """Names the key expression `e` is computed from, resolving local
    single-assignment names (`t = (u, v)`, `k = int(z)`, `z = _flip(u,u)`)
    down to parameters."""
    params = {a.arg for a in fn.args.args}
    out = set()
    for n in ast.walk(e):
        if not isinstance(n, ast.Name):
            continue
        if isinstance(getattr(n, '_parent', None), ast.Call) and \
                n._parent.func is n:
            continue
        if n.id in params or depth > 4:
            out.add(n.id)
            continue
        defs = [s for s in au.walk_no_defs(fn)
                if isinstance(s, ast.Assign) and len(s.targets) == 1
                and au.is_name(s.targets[0], n.id)]
        if len(defs) == 1:
            out |= resolve_names(fn, defs[0].value, depth + 1)
        else:
            out.add(n.id)
    return out


def norm_key(fn, e, depth=0):
    """Structural normal form of a key, with local names resolved."""
    if isinstance(e, ast.Name) and depth <= 4:
        params = {a.arg for a in fn.args.args}
        if e.id not in params:
            defs = [s for s in au.walk_no_defs(fn)
                    if isinstance(s, ast.Assign) and len(s.targets) == 1
                    and au.is_name(s.targets[0], e.id)]
            if len(defs) == 1:
                return norm_key(fn, defs[0].value, depth + 1)
    return au.src(e).replace(' ', '')


def ite_key_equivalent(fn, read_key, write_key, store):
    """For a memo of ite(g, u, v): does the additionally stored key
    (a triple of the operands, possibly negated and permuted) together
    with the stored value denote the same function as the looked-up key
    with the value stored under it?  Decided by truth tables; False when
    the keys are not triples of +-operands."""
    from .. import minieval as me

    def resolve(e):
        if isinstance(e, ast.Name):
            defs = [s for s in au.walk_no_defs(fn)
                    if isinstance(s, ast.Assign) and len(s.targets) == 1
                    and au.is_name(s.targets[0], e.id)]
            if len(defs) == 1 and isinstance(defs[0].value, ast.Tuple):
                return defs[0].value
        return e
    rk, wk = resolve(read_key), resolve(write_key)
    if not (isinstance(rk, ast.Tuple) and isinstance(wk, ast.Tuple)
            and len(rk.elts) == 3 and len(wk.elts) == 3):
        return False
    names = []
    for e in rk.elts:
        if not isinstance(e, ast.Name):
            return False
        names.append(e.id)

    def lit(e):
        neg = False
        while isinstance(e, ast.UnaryOp) and isinstance(e.op, ast.USub):
            neg = not neg
            e = e.operand
        if isinstance(e, ast.Name) and e.id in names:
            v = ('sym', e.id)
            return ('not', v) if neg else v
        return None
    lits = [lit(e) for e in wk.elts]
    if None in lits:
        return False
    # value stored under the extra key: the same name as under the
    # looked-up key, or its negation
    par = getattr(store, '_parent', None)
    val = par.value if isinstance(par, ast.Assign) else None
    main = [s for s in au.walk_no_defs(fn) if isinstance(s, ast.Assign)
            and isinstance(s.targets[0], ast.Subscript)
            and norm_key(fn, s.targets[0].slice) == norm_key(fn, read_key)]
    if val is None or not main:
        return False
    neg_val = False
    while isinstance(val, ast.UnaryOp) and isinstance(val.op, ast.USub):
        neg_val = not neg_val
        val = val.operand
    if au.src(val) != au.src(main[0].value):
        return False
    a = ('ite', ('sym', names[0]), ('sym', names[1]), ('sym', names[2]))
    b = ('ite', lits[0], lits[1], lits[2])
    if neg_val:
        b = ('not', b)
    return me.table(a, tuple(names)) == me.table(b, tuple(names))


def analyse_memo(R, f, spec):
    fn = f.node
    q = f.qualname
    memo = spec['memo']
    au.set_parents(fn)
    reads, writes, members = [], [], []
    for n in au.walk_no_defs(fn):
        if isinstance(n, ast.Subscript) and memo_matches(n.value, memo):
            if isinstance(n.ctx, ast.Store):
                writes.append(n)
            else:
                reads.append(n.slice)
        elif isinstance(n, ast.Call) and isinstance(
                n.func, ast.Attribute) and n.func.attr == 'get' and \
                memo_matches(n.func.value, memo) and n.args:
            reads.append(n.args[0])
        elif isinstance(n, ast.Compare) and len(n.ops) == 1 and isinstance(
                n.ops[0], (ast.In, ast.NotIn)) and memo_matches(
                    n.comparators[0], memo):
            members.append(n.left)
    if not writes or not (reads or members):
        raise AnalysisError(
            f'{q}: the memo `{memo}` is no longer read and written here')
    # (1) read key == write key
    wkeys = {norm_key(fn, w.slice) for w in writes}
    rkeys = {norm_key(fn, r) for r in reads}
    if rkeys and not rkeys <= wkeys:
        R.violation(
            'R-MEMO', 'key-mismatch', q, memo,
            f'the memo is read with key {sorted(rkeys)} but written with '
            f'key {sorted(wkeys)}', unit=f.unit.rel, line=f.lineno)
    elif rkeys and not wkeys <= rkeys and all(
            ite_key_equivalent(fn, rd, w.slice, w) for w in writes
            if norm_key(fn, w.slice) not in rkeys for rd in reads[:1]):
        R.holds('R-MEMO', q, f'memo `{memo}`: an additional entry is '
                'stored under a key that denotes the same ite (truth '
                'tables)')
    elif rkeys and not wkeys <= rkeys:
        extra = sorted(wkeys - rkeys)
        w0 = [w for w in writes if norm_key(fn, w.slice) in extra][0]
        R.violation(
            'R-MEMO', 'foreign-key-store', q, memo,
            f'the result of a call is also stored under {extra}, which '
            f'is not the key it is looked up with ({sorted(rkeys)}): the '
            'entry claims a result for arguments other than those of '
            'this call, and a later call with those arguments gets it',
            unit=f.unit.rel, line=w0.lineno)
    else:
        R.holds('R-MEMO', q, f'memo `{memo}`: read key == written key '
                f'({sorted(wkeys)})')
    # (1b) the key is an injective function of the arguments: a plain
    # name / tuple / abs() / int() / str(); a conditional, sorted or
    # set-valued key identifies different argument tuples
    for w in writes:
        k = w.slice
        kk = k
        if isinstance(k, ast.Name):
            defs = [x for x in au.walk_no_defs(fn)
                    if isinstance(x, ast.Assign) and len(x.targets) == 1
                    and au.is_name(x.targets[0], k.id)]
            if len(defs) == 1:
                kk = defs[0].value
        lossy = [x for x in ast.walk(kk) if isinstance(
            x, (ast.IfExp, ast.Set, ast.SetComp)) or (
                isinstance(x, ast.Call) and au.call_name(x) in (
                    'sorted', 'frozenset', 'set', 'min', 'max'))]
        if lossy:
            R.violation(
                'R-MEMO', 'key-not-injective', q, memo,
                f'the memo key `{au.short(kk, 60)}` maps different '
                'argument tuples to one entry (it orders or merges the '
                f'arguments); the arguments of {f.name} play different '
                'roles, so a hit returns the result of another call',
                unit=f.unit.rel, line=kk.lineno)
        else:
            R.holds('R-MEMO', q, 'the memo key is an injective function '
                    'of the arguments', nontrivial=False)
    # (2) the key covers every parameter that varies in the recursion
    params = [a.arg for a in fn.args.args]
    varying = set()
    name = f.name
    for c in au.calls_in(fn):
        cn = au.call_name(c)
        if cn != name and not (name == 'ite' and cn == 'ite'):
            continue
        plist = [p for p in params if p != 'self'] if isinstance(
            c.func, ast.Attribute) and 'self' in params else params
        if any(isinstance(a, ast.Starred) for a in c.args):
            continue
        for p, a in zip(plist, c.args):
            if not au.is_name(a, p):
                varying.add(p)
        for k in c.keywords:
            if k.arg and not au.is_name(k.value, k.arg):
                varying.add(k.arg)
    # MDD.ite recurses through starmap(self.ite, zip(gc, uc, vc))
    for c in au.calls_in(fn, 'starmap'):
        if c.args and au.chain(c.args[0]) and au.chain(
                c.args[0])[-1] == name:
            varying |= {p for p in params if p != 'self'}
    keynames = set()
    for w in writes:
        keynames |= resolve_names(fn, w.slice)
    # a cursor is left out of the key because the function re-derives it
    # from the level of the node before using it: that holds for a cursor
    # that is rebound here (advanced in a loop, assigned from a search,
    # the target of a `for`); one that is never rebound is an ordinary
    # parameter
    def rebound(cur):
        for n in au.walk_no_defs(fn):
            if isinstance(n, ast.AugAssign) and au.is_name(n.target, cur):
                return True
            if isinstance(n, ast.Assign) and any(
                    cur in au.target_names(t) for t in n.targets):
                return True
            if isinstance(n, ast.For) and cur in au.target_names(n.target):
                return True
            if isinstance(n, ast.NamedExpr) and au.is_name(n.target, cur):
                return True
        return False
    cursors = {c for c in spec.get('cursors', ()) if rebound(c)}
    # ... or for which every recursive call passes a local of this
    # function that is itself the target of a loop or search here
    # (`for k in range(j, n): ...; self._quantify(v, k, ...)`)
    for cur in spec.get('cursors', ()):
        if cur in cursors:
            continue
        passed = []
        for c in au.calls_in(fn):
            if au.call_name(c) != name:
                continue
            plist = [p for p in params if p != 'self'] if isinstance(
                c.func, ast.Attribute) and 'self' in params else params
            bound = dict(zip(plist, c.args))
            for k in c.keywords:
                if k.arg:
                    bound[k.arg] = k.value
            if cur in bound:
                passed.append(bound[cur])
        if passed and all(isinstance(a, ast.Name) and a.id != cur
                          and rebound(a.id) for a in passed):
            cursors.add(cur)
    missing = varying - keynames - cursors
    if missing:
        R.violation(
            'R-MEMO', 'key-incomplete', q, memo,
            f'parameter(s) {sorted(missing)} change between recursive '
            f'calls but are not part of the memo key '
            f'({sorted(keynames)}): results for different arguments are '
            'confused', unit=f.unit.rel, line=f.lineno)
    else:
        R.holds('R-MEMO', q, f'memo key covers the varying parameters '
                f'{sorted(varying - set(spec.get("cursors", ())))}'
                + (f'; cursor {spec["cursors"]} is recomputed from the '
                   'node level' if spec.get('cursors') else ''))
    # the cursor skips exactly the levels *above* the node: the comparison
    # of the cursor's level with the node level is strict
    for cur in spec.get('cursors', ()):
        for wl in au.walk_no_defs(fn):
            if not isinstance(wl, ast.While):
                continue
            for t in ast.walk(wl):
                if isinstance(t, ast.Compare) and len(t.ops) == 1 and \
                        isinstance(t.left, ast.Subscript) and au.is_name(
                            t.left.slice, cur) and isinstance(
                                t.comparators[0], ast.Name):
                    lvl = t.comparators[0].id
                    if isinstance(t.ops[0], ast.Lt):
                        R.holds('R-MEMO', q, f'cursor `{cur}` skips the '
                                f'levels strictly above the node '
                                f'(`{au.short(t)}`)')
                    elif isinstance(t.ops[0], ast.LtE):
                        R.violation(
                            'R-MEMO', 'cursor', q, f'{cur}:<=',
                            f'`{au.short(t)}` also skips the level of the '
                            f'node itself (`{lvl}`): a variable at exactly '
                            'this level is treated as absent',
                            unit=f.unit.rel, line=t.lineno)
    # (3) what is stored is what the miss path returns
    rets = [n for n in au.walk_no_defs(fn) if isinstance(n, ast.Return)
            and n.value is not None]
    rets.sort(key=lambda n: n.lineno)
    stored = set()
    for w in writes:
        st = w._parent
        if isinstance(st, ast.Assign):
            stored |= {n.id for n in ast.walk(st.value)
                       if isinstance(n, ast.Name)}
    last = rets[-1] if rets else None
    if last is not None and stored:
        rn = {n.id for n in ast.walk(last.value) if isinstance(n, ast.Name)}
        if rn & stored or not rn:
            R.holds('R-MEMO', q, 'stored value is the computed result',
                    nontrivial=False)
        else:
            R.undecided('R-MEMO', q, 'stored value',
                        f'stores {sorted(stored)}, returns {sorted(rn)}')


def check_entries(P, R, q, spec):
    """Freshness: the entry creates the memo per call; `ordvar` sorted."""
    f = P.func(q)
    memo = spec['memo']
    if memo.startswith('self.'):
        return
    params = [p for p in f.params if p != 'self']
    if memo not in params:
        raise AnalysisError(f'{q}: memo parameter `{memo}` vanished')
    for eq in spec.get('entries', []):
        e = P.func(eq)
        calls = [c for c in au.calls_in(e.node, f.name)]
        if not calls:
            raise AnalysisError(f'{eq} no longer calls {f.name}')
        for c in calls:
            bound = dict(zip(params, c.args))
            for k in c.keywords:
                if k.arg:
                    bound[k.arg] = k.value
            a = bound.get(memo)
            ok = None
            if isinstance(a, ast.Call) and au.call_name(a) == 'dict' and \
                    not a.args and not a.keywords:
                ok = True
            elif isinstance(a, ast.Dict) and not a.keys:
                ok = True
            elif isinstance(a, ast.Name):
                defs = [s.value for s in au.walk_no_defs(e.node)
                        if isinstance(s, ast.Assign) and any(
                            au.is_name(t, a.id) for t in s.targets)]
                defs += [s.value for s in au.walk_no_defs(e.node)
                         if isinstance(s, ast.AnnAssign) and au.is_name(
                             s.target, a.id) and s.value is not None]

                def fresh(v, seeded):
                    # a dictionary object created in this call (possibly
                    # seeded with constants, e.g. the terminal)
                    if isinstance(v, ast.Call) and au.call_name(
                            v) == 'dict' and not v.args and not v.keywords:
                        return True
                    if isinstance(v, ast.Dict):
                        if not v.keys:
                            return True
                        return seeded and all(
                            k is not None and (
                                isinstance(k, ast.Constant) or au.const_int(
                                    k) is not None) for k in v.keys) and \
                            all(au.const_int(x) is not None
                                for x in v.values)
                    return False
                if a.id in e.params:
                    # forwarded parameter: fresh when the default is None
                    # and replaced by an empty dictionary inside
                    ok = all(fresh(v, False) for v in defs)
                elif defs:
                    ok = all(fresh(v, True) for v in defs)
            what = f'{eq} -> {f.name}: memo `{memo}` is created per call'
            if ok:
                R.holds('R-MEMO', eq, what)
            elif ok is None:
                R.violation(
                    'R-MEMO', 'stale-memo', eq, f.name,
                    f'`{au.short(c, 70)}` passes '
                    f'`{au.short(a) if a is not None else None}` as the '
                    f'memo of {f.name}: it is not a dictionary created '
                    'for this call, so results outlive the call (and the '
                    'nodes they refer to)', unit=e.unit.rel, line=c.lineno)
            else:
                R.violation(
                    'R-MEMO', 'stale-memo', eq, f.name,
                    f'the memo passed to {f.name} is not a fresh '
                    'dictionary', unit=e.unit.rel, line=c.lineno)
            # (the list of levels handed to the cursor need not be sorted:
            # the cursor only ever skips entries above the current node,
            # and entries skipped at an ancestor are above every
            # descendant, so the early exit is sound for any order; an
            # earlier version of this rule demanded `sorted(...)` and was
            # withdrawn as a false alarm in waiting)


def mutable_defaults(P, R):
    n = 0
    for f in P.all_funcs({'dd.bdd', 'dd.autoref', 'dd._copy', 'dd.mdd',
                          'dd._parser', 'dd._utils', 'dd.dddmp'}):
        a = f.node.args
        for d in list(a.defaults) + [x for x in a.kw_defaults if x]:
            n += 1
            if isinstance(d, (ast.Dict, ast.List, ast.Set)) or (
                    isinstance(d, ast.Call) and au.call_name(d) in (
                        'dict', 'list', 'set')):
                R.violation(
                    'R-MEMO', 'mutable-default', f.qualname,
                    au.short(d), 'a mutable default argument persists '
                    'between calls', unit=f.unit.rel, line=f.lineno)
    R.holds('R-MEMO', 'all modules',
            f'no mutable default argument ({n} defaults examined)',
            nontrivial=False)


def r_memo(P, R):
    n = 0
    for q in BY_PROP.get(R.prop, []):
        f = P.func(q)
        au.set_parents(f.node)
        spec = MEMOS[q]
        analyse_memo(R, f, spec)
        check_entries(P, R, q, spec)
        n += 1
    mutable_defaults(P, R)
    R.floor(f'R-MEMO memoised recursions for {R.prop}', n,
            len(BY_PROP.get(R.prop, [])))
r_memo.NAME = 'R-MEMO'


# ------------------------------------------------------------------ R-INVAL
DESTRUCTIVE_EXEMPT = {
    'dd.bdd.BDD.__init__': 'object under construction',
    'dd.bdd.BDD.__copy__': 'stores into a freshly constructed manager',
    'dd.bdd.BDD._load_manager': 'stores into a freshly constructed manager',
    'dd.bdd.BDD._init_terminal':
        'moves the terminal to a new level; no entry of the computed '
        'table mentions a level',
    'dd.bdd.BDD.find_or_add':
        'fresh allocation: the index is checked unused before the store',
    'dd.mdd.MDD.__init__': 'object under construction',
    'dd.mdd.MDD.find_or_add': 'fresh allocation through _allocate()',
}
RESETTERS = {'collect_garbage'}


def destructive_writes(fn, table='_succ'):
    """Statements that remove or overwrite entries of `self.<table>`."""
    out = []
    for n in au.walk_no_defs(fn):
        # self._succ.pop(...), del self._succ[..], self._succ = ...,
        # self._succ[u] = ...
        if isinstance(n, ast.Call) and isinstance(n.func, ast.Attribute) \
                and n.func.attr in ('pop', 'popitem', 'clear') and \
                au.chain(n.func.value) == ['self', table]:
            out.append(n)
        elif isinstance(n, ast.Delete):
            for t in n.targets:
                if isinstance(t, ast.Subscript) and au.chain(
                        t.value) == ['self', table]:
                    out.append(n)
        elif isinstance(n, (ast.Assign, ast.AugAssign)):
            ts = n.targets if isinstance(n, ast.Assign) else [n.target]
            for t in ts:
                if au.chain(t) == ['self', table]:
                    out.append(n)
                elif isinstance(t, ast.Subscript) and au.chain(
                        t.value) == ['self', table]:
                    out.append(n)
    return out


def is_reset(stmt, cls_resetters):
    if isinstance(stmt, ast.Assign) and any(
            au.chain(t) == ['self', '_ite_table'] for t in stmt.targets):
        v = stmt.value
        return (isinstance(v, ast.Call) and au.call_name(v) == 'dict'
                and not v.args) or (isinstance(v, ast.Dict) and not v.keys)
    if isinstance(stmt, ast.Expr) and isinstance(stmt.value, ast.Call):
        c = stmt.value
        if isinstance(c.func, ast.Attribute):
            if c.func.attr == 'clear' and au.chain(c.func.value) == [
                    'self', '_ite_table']:
                return True
            if c.func.attr in cls_resetters and au.chain(
                    c.func.value) == ['self']:
                return True
    return False


def top_index(fn, node):
    """Index in fn.body of the top-level statement containing `node`."""
    p = node
    while getattr(p, '_parent', None) is not fn and p is not None:
        p = getattr(p, '_parent', None)
    if p is None:
        return None
    return fn.body.index(p)


def r_inval(P, R):
    classes = {'C01': [('dd.bdd', 'BDD')], 'C06': [('dd.bdd', 'BDD')],
               'C02': [('dd.bdd', 'BDD')], 'C08': [('dd.bdd', 'BDD')],
               'C07': [('dd.bdd', 'BDD')], 'C14': [('dd.bdd', 'BDD')],
               'C15': [('dd.mdd', 'MDD')]}.get(R.prop, [])
    populating = {'ite', '_ite', 'apply', 'cube', 'compose', 'rename',
                  'quantify', 'add_expr', 'let', 'cofactor', 'var',
                  '_compose', '_vector_compose', '_quantify', 'image',
                  'preimage', 'copy_bdd', '_copy_bdd', 'load', '_load'}
    n = 0
    for modname, cls in classes:
        only = None
        if R.prop == 'C07':
            only = {'swap'}
        if R.prop == 'C14':
            only = {'undeclare_vars', 'add_var', '_init_terminal'}
        for f in P.methods(modname, cls):
            if only is not None and f.name not in only:
                continue
            fn = f.node
            au.set_parents(fn)
            ws = destructive_writes(fn)
            if not ws:
                continue
            if f.qualname in DESTRUCTIVE_EXEMPT:
                R.holds('R-INVAL', f.qualname,
                        f'{len(ws)} table write(s): exempt '
                        f'({DESTRUCTIVE_EXEMPT[f.qualname]})',
                        nontrivial=False)
                continue
            n += 1
            widx = [top_index(fn, w) for w in ws]
            first_line = min(w.lineno for w in ws)
            resets = [i for i, s in enumerate(fn.body)
                      if is_reset(s, RESETTERS)]
            good = [i for i in resets if i > max(widx) or (
                i == max(widx) and False)]
            what = (f'{len(ws)} removal(s)/rewrite(s) of node-table '
                    f'entries are followed by a reset of the computed '
                    f'table on every normal exit')
            if not good:
                R.violation(
                    'R-INVAL', 'no-reset', f.qualname, '_ite_table',
                    f'{f.name} removes or rewrites entries of the node '
                    f'table (first at line {first_line}) but does not '
                    'reset the computed table afterwards on every exit: '
                    'a later ite() can return a freed or re-used node',
                    unit=f.unit.rel, line=first_line)
                continue
            r_idx = good[0]
            r_line = fn.body[r_idx].lineno
            early = [x for x in au.walk_no_defs(fn)
                     if isinstance(x, ast.Return)
                     and first_line < x.lineno < r_line]
            if early:
                R.violation(
                    'R-INVAL', 'early-return', f.qualname, '_ite_table',
                    f'{f.name} can return at line {early[0].lineno} after '
                    'writing the node table and before resetting the '
                    'computed table', unit=f.unit.rel,
                    line=early[0].lineno)
                continue
            after = []
            for s in fn.body[good[-1] + 1:]:
                for c in au.calls_in(s):
                    if au.call_name(c) in populating and au.call_recv(
                            c) == ['self']:
                        after.append(c)
            if after:
                R.violation(
                    'R-INVAL', 'repopulated', f.qualname, '_ite_table',
                    f'`{au.short(after[0])}` after the reset can fill the '
                    'computed table again before the function returns',
                    unit=f.unit.rel, line=after[0].lineno)
                continue
            R.holds('R-INVAL', f.qualname, what)
    floor = {'C01': 3, 'C06': 3, 'C02': 3, 'C08': 3, 'C07': 1, 'C14': 1,
             'C15': 1}.get(
        R.prop, 0)
    R.floor(f'R-INVAL destructive writers for {R.prop}', n, floor)
r_inval.NAME = 'R-INVAL'
