"""Repository-wide hygiene rules, each derived from a convention that the
pinned tree follows without exception (counted in the evidence) and whose
violation changes behaviour for particular values or histories:

R-FALSY   a value for which 0 / {} / set() is legitimate (an optional
          argument, the result of `.get(k)` / `next(it, None)`, a level)
          is never tested by truthiness
R-ENUM    the position of a name in the `vars` dictionary is never used as
          its level
R-CACHE   nothing is memoised across changes of the manager: no
          lru_cache / cached_property; every memo attribute of a manager is
          reset wherever the computed table is reset
R-ALIAS   no public accessor hands out a manager table itself
R-TERM    a terminal shortcut distinguishes TRUE from FALSE

A construct is reported under every property from whose entry points the
enclosing function is reachable (ddverif/scope.py).
"""
import ast

from .. import astutil as au
from .. import scope
from ..frontend import AnalysisError
from . import reord as _reord

MODS = {'dd.bdd', 'dd.autoref', 'dd._copy', 'dd.mdd', 'dd.dddmp', 'dd._abc',
        'dd._parser', 'dd._utils'}
TABLES = {'_succ', '_pred', '_ref', 'vars', '_level_to_var', '_ite_table'}


def in_scope(P, R, f):
    q = f.qualname
    funcs = scope.functions_of(P, R.prop)
    while q:
        if q in funcs:
            return True
        if q.count('.') <= 2:
            break
        q = q.rsplit('.', 1)[0]
    return False


def optional_params(fn):
    a = fn.args
    ps = a.posonlyargs + a.args
    out = set()
    defaults = [None] * (len(ps) - len(a.defaults)) + list(a.defaults)
    for p, d in zip(ps, defaults):
        ann = au.src(p.annotation) if p.annotation is not None else ''
        if (isinstance(d, ast.Constant) and d.value is None) or \
                'None' in ann:
            out.add(p.arg)
    for p, d in zip(a.kwonlyargs, a.kw_defaults):
        if isinstance(d, ast.Constant) and d.value is None:
            out.add(p.arg)
    return out


def truth_contexts(fn):
    """(expression, node) pairs evaluated for their truth value."""
    for n in au.walk_no_defs(fn):
        if isinstance(n, (ast.If, ast.While, ast.IfExp)):
            yield n.test, n
        if isinstance(n, ast.BoolOp):
            vals = n.values[:-1] if isinstance(n.op, ast.Or) else n.values
            for v in vals:
                yield v, n
        if isinstance(n, ast.UnaryOp) and isinstance(n.op, ast.Not):
            yield n.operand, n
        if isinstance(n, ast.Assert):
            yield n.test, n
        if isinstance(n, ast.comprehension):
            for c in n.ifs:
                yield c, c


FALSY_TABLES = {
    '_ref': 'reference count 0 (a live node that nobody holds) is false',
    'vars': 'level 0 is false',
    'levels': 'level 0 is false',
    'level_of_var': 'level 0 is false',
}
# Optional arguments for which a falsy value is legitimate AND means
# something else than the absent argument, as far as a property is
# concerned (reviewed on the pinned tree: all 44 optional parameters in the
# scopes of the properties).  Key: (function name, parameter).
FALSY_RELEVANT = {
    ('add_var', 'level'): 'level 0 is a level; treated as absent the '
                          'variable goes to the bottom instead',
    ('_check_var', 'level'): 'level 0 is a level; treated as absent a '
                             'conflicting re-declaration at level 0 is '
                             'accepted',
    ('_next_free_level', 'level'): 'level 0 is a level; treated as absent '
                                   'the next bottom level is returned',
    ('count', 'nvars'): '`nvars=0` must be refused for a function with a '
                        'non-empty support; treated as absent it is '
                        'replaced by the size of the support',
    ('assert_operator_arity', 'v'):
        'the C back ends pass Function handles, which define __len__: a '
        'constant node of dd.cudd_zdd or dd.sylvan has length 0 and is '
        'falsy, so a constant operand is refused as missing',
    ('assert_operator_arity', 'w'):
        'as for v (a constant third operand of ite)',
    ('collect_garbage', 'roots'): 'an empty collection of roots means '
                                  '"collect nothing" (swap passes the set '
                                  'of nodes it orphaned, which may be '
                                  'empty); treated as absent every '
                                  'unreferenced node is collected, also '
                                  'those the per-level index of a running '
                                  'reordering still lists',
}
# relevance limited to the properties named (elsewhere the operands are
# integers, for which 0 is not a reference anyway)
FALSY_ONLY = {
    ('assert_operator_arity', 'v'): {'C19'},
    ('assert_operator_arity', 'w'): {'C19'},
}
# reviewed, and conflation does not touch a property (one line each)
FALSY_NEUTRAL = {
    ('pick', 'care_vars'): 'an empty care set and the default both yield '
                           'assignments with the stated properties',
    ('pick_iter', 'care_vars'): 'as for pick',
    ('copy_bdd', 'cache'): 'an empty memo replaced by a new empty memo: '
                           'sharing between calls is lost, results are '
                           'not',
    ('apply', 'v'): '0 is not a reference',
    ('apply', 'w'): '0 is not a reference',
    ('dump', 'filetype'): 'the empty string is not a file type',
    ('dump', 'roots'): 'the stored roots are the given ones either way',
    ('_dump_bdd', 'roots'): 'as for dump',
    ('swap', 'all_levels'): 'an empty index is not a valid argument',
    ('_image', 'umap'): 'an empty renaming renames nothing',
    ('_image', 'vmap'): 'an empty renaming renames nothing',
    ('__init__', 'levels'): 'no variables either way',
    ('__init__', 'dvars'): 'no variables either way',
    ('reorder', 'order'): 'an empty order is valid only for a manager '
                          'without variables',
    ('reorder', 'var_order'): 'as for order',
}
EMPTY_CALLS = {'set', 'dict', 'list', 'tuple', 'frozenset'}


def _is_empty(e):
    if isinstance(e, ast.Call) and au.call_name(e) in EMPTY_CALLS and \
            not e.args and not e.keywords:
        return True
    if isinstance(e, (ast.Dict, ast.List, ast.Tuple, ast.Set)):
        return not (getattr(e, 'keys', None) or getattr(e, 'elts', None))
    return False


def _default_idiom(name, node):
    """`x or <empty>` and `if not x: x = <empty>`: replacing an empty value
    by another empty value changes nothing."""
    if isinstance(node, ast.BoolOp) and isinstance(node.op, ast.Or) and \
            len(node.values) == 2 and au.is_name(node.values[0], name) \
            and _is_empty(node.values[1]):
        return True
    if isinstance(node, ast.If) and not node.orelse and len(
            node.body) == 1 and isinstance(node.body[0], ast.Assign):
        a = node.body[0]
        t = node.test
        return (isinstance(t, ast.UnaryOp) and au.is_name(t.operand, name)
                and len(a.targets) == 1 and au.is_name(a.targets[0], name)
                and _is_empty(a.value))
    return False


def r_falsy(P, R):
    n_opt = n_get = n_idiom = n_other = 0
    for f in sorted(P.all_funcs(MODS), key=lambda f: f.qualname):
        if not in_scope(P, R, f):
            continue
        fn = f.node
        opt = optional_params(fn)
        got = dict()
        for n in au.walk_no_defs(fn):
            if isinstance(n, ast.Assign) and isinstance(
                    n.value, ast.Call) and len(
                        n.targets) == 1 and isinstance(
                            n.targets[0], ast.Name):
                c = n.value
                nm = au.call_name(c)
                if nm == 'get' and len(c.args) == 1 and isinstance(
                        c.func, ast.Attribute):
                    ch = au.chain(c.func.value) or ['?']
                    got[n.targets[0].id] = (
                        '`.get(key)`', FALSY_TABLES.get(ch[-1]))
                elif nm == 'next' and len(c.args) == 2 and isinstance(
                        c.args[1], ast.Constant) and \
                        c.args[1].value is None:
                    got[n.targets[0].id] = (
                        '`next(iterator, None)`',
                        'the default exists to tell "no element" from an '
                        'element; an element that is empty or 0 (the '
                        'empty assignment of a constant) is false')
        # a local that is a plain copy of an optional argument (`n =
        # nvars`) is the argument under another name
        alias_of = dict()
        for n in au.walk_no_defs(fn):
            if isinstance(n, ast.Assign) and len(
                    n.targets) == 1 and isinstance(
                        n.targets[0], ast.Name) and isinstance(
                            n.value, ast.Name) and n.value.id in opt and \
                    len(au.assignments_to(fn, n.targets[0].id)) <= 2:
                alias_of[n.targets[0].id] = n.value.id
        n_opt += len(opt)
        n_get += len(got)
        for t, node in truth_contexts(fn):
            while isinstance(t, ast.UnaryOp) and isinstance(t.op, ast.Not):
                t = t.operand
            if isinstance(t, ast.Name) and (
                    t.id in opt or t.id in got or t.id in alias_of):
                if _default_idiom(t.id, node):
                    n_idiom += 1
                    continue
                if t.id in opt or t.id in alias_of:
                    prm = alias_of.get(t.id, t.id)
                    why = FALSY_RELEVANT.get((f.name, prm))
                    only = FALSY_ONLY.get((f.name, prm))
                    if only is not None and R.prop not in only:
                        why = None
                    if why is None:
                        # conflating an empty / zero argument with the
                        # absent one changes behaviour, but whether it
                        # touches the property was not reviewed for this
                        # parameter (or was, and it does not)
                        R.undecided(
                            'R-FALSY', f.qualname,
                            f'optional argument `{t.id}` tested by '
                            f'truthiness in `{au.short(node, 50)}`',
                            FALSY_NEUTRAL.get(
                                (f.name, t.id),
                                'parameter not in the reviewed table'))
                        continue
                    R.violation(
                        'R-FALSY', 'optional-argument', f.qualname, t.id,
                        f'`{au.short(node, 60)}` tests the optional '
                        f'argument `{t.id}` by truthiness: {why}',
                        unit=f.unit.rel, line=node.lineno)
                else:
                    kind, why = got[t.id]
                    if why is None:
                        R.undecided(
                            'R-FALSY', f.qualname,
                            f'lookup result `{t.id}` tested by truthiness',
                            'values of this container not typed')
                        continue
                    R.violation(
                        'R-FALSY', 'lookup-result', f.qualname, t.id,
                        f'`{au.short(node, 60)}` tests the result of a '
                        f'{kind} (`{t.id}`) by truthiness: {why}, and is '
                        'treated as not found', unit=f.unit.rel,
                        line=node.lineno)
                continue
            why = None
            if _reord.level_valued(t):
                why = 'level 0 is false'
            elif isinstance(t, ast.Call) and au.call_name(
                    t) == 'get' and len(t.args) == 1:
                ch = au.chain(t.func.value) or ['?']
                why = FALSY_TABLES.get(ch[-1])
                if why is None:
                    n_other += 1
            if why:
                R.violation(
                    'R-FALSY', 'table-value', f.qualname, au.short(t, 40),
                    f'`{au.short(node, 60)}` uses the looked-up value '
                    f'`{au.short(t, 40)}` in a Boolean context: {why}, '
                    'and is treated like a missing key',
                    unit=f.unit.rel, line=node.lineno)
        # a comprehension that keeps the entries of a mapping argument
        # whose VALUE is truthy drops False, 0 and empty values
        a0 = fn.args
        maps = {p.arg for p in a0.posonlyargs + a0.args + a0.kwonlyargs}
        if a0.kwarg:
            maps.add(a0.kwarg.arg)
        for comp in au.walk_no_defs(fn):
            if not isinstance(comp, (ast.DictComp, ast.ListComp,
                                     ast.SetComp, ast.GeneratorExp)):
                continue
            for g in comp.generators:
                it = g.iter
                if not (isinstance(it, ast.Call) and au.call_name(it) in (
                        'items', 'values') and isinstance(
                            it.func, ast.Attribute) and isinstance(
                                it.func.value, ast.Name)
                        and it.func.value.id in maps):
                    continue
                tg = g.target
                val = tg.elts[-1] if isinstance(
                    tg, ast.Tuple) else tg
                for cond in g.ifs:
                    c = cond
                    while isinstance(c, ast.UnaryOp) and isinstance(
                            c.op, ast.Not):
                        c = c.operand
                    if isinstance(c, ast.Name) and isinstance(
                            val, ast.Name) and c.id == val.id:
                        R.violation(
                            'R-FALSY', 'mapping-value', f.qualname,
                            it.func.value.id,
                            f'`{au.short(comp, 70)}` keeps the entries '
                            f'of `{it.func.value.id}` whose value is '
                            'truthy: an entry whose value is False, 0 or '
                            'a constant function (len 0) is dropped as '
                            'if it had not been given', unit=f.unit.rel,
                            line=comp.lineno)
    R.holds('R-FALSY', f'functions behind {R.prop}',
            f'{n_opt} optional arguments and {n_get} lookup results are '
            'tested only with `is None`; no level or reference count in '
            f'a Boolean context ({n_idiom} `x or <empty>` default idiom(s), '
            f'{n_other} `.get` on other containers not typed)')
r_falsy.NAME = 'R-FALSY'


def r_enum(P, R):
    n = 0
    for f in sorted(P.all_funcs(MODS), key=lambda f: f.qualname):
        if not in_scope(P, R, f):
            continue
        for c in au.calls_in(f.node, 'enumerate'):
            if not c.args:
                continue
            n += 1
            a = c.args[0]
            if isinstance(a, ast.Name):
                defs = au.assignments_to(f.node, a.id)
                if len(defs) == 1:
                    a = defs[0].value
            inner = a
            while isinstance(inner, ast.Call) and au.call_name(inner) in (
                    'list', 'tuple', 'iter', 'keys', 'items', 'reversed',
                    'sorted'):
                if inner.args:
                    nxt = inner.args[0]
                elif isinstance(inner.func, ast.Attribute):
                    nxt = inner.func.value
                else:
                    break
                if au.call_name(inner) == 'sorted' and any(
                        k.arg == 'key' for k in inner.keywords):
                    break
                inner = nxt
            ch = au.chain(inner)
            if ch and ch[-1] == 'vars':
                R.violation(
                    'R-ENUM', 'dict-order-as-level', f.qualname,
                    au.short(c, 40),
                    f'`{au.short(c, 60)}` numbers the variables by their '
                    'position in the `vars` dictionary; positions are '
                    'declaration order, levels change with every swap '
                    '(and explicit levels need not follow declaration '
                    'order)', unit=f.unit.rel, line=c.lineno)
    R.holds('R-ENUM', f'functions behind {R.prop}',
            f'{n} enumerate() call(s), none over a `vars` dictionary',
            nontrivial=False)
r_enum.NAME = 'R-ENUM'


def r_cache(P, R):
    """No memo outlives a change of the manager."""
    bad_deco = {'lru_cache', 'cache', 'cached_property'}
    n_deco = 0
    for f in sorted(P.all_funcs({'dd.bdd', 'dd.autoref', 'dd.mdd',
                                 'dd._copy'}), key=lambda f: f.qualname):
        if not in_scope(P, R, f):
            continue
        n_deco += 1
        for d in f.decorators:
            if d in bad_deco:
                R.violation(
                    'R-CACHE', 'memoised-view', f.qualname, d,
                    f'{f.qualname} is decorated with `{d}`: its result is '
                    'remembered across reorderings, collections and '
                    'declarations, which change levels, names at levels '
                    'and the meaning of node numbers', unit=f.unit.rel,
                    line=f.lineno)
    # memo attributes of the managers
    for mod, cls in (('dd.bdd', 'BDD'), ('dd.mdd', 'MDD')):
        init = P.func(f'{mod}.{cls}.__init__', required=False)
        if init is None:
            continue
        methods = P.methods(mod, cls)
        attrs = set()
        for n in au.walk_no_defs(init.node):
            tgt = None
            if isinstance(n, ast.Assign):
                tgt, val = n.targets[0], n.value
            elif isinstance(n, ast.AnnAssign) and n.value is not None:
                tgt, val = n.target, n.value
            if tgt is not None and au.chain(tgt) and au.chain(
                    tgt)[0] == 'self' and len(au.chain(tgt)) == 2:
                if (isinstance(val, ast.Call) and au.call_name(
                        val) == 'dict' and not val.args
                        and not val.keywords) or (
                            isinstance(val, ast.Dict) and not val.keys):
                    attrs.add(au.chain(tgt)[1])
        known = {'_pred', '_succ', '_ref', 'vars', '_level_to_var'}
        resetters = [m for m in methods if any(
            isinstance(s, ast.Assign) and au.chain(s.targets[0]) == [
                'self', '_ite_table'] for s in au.walk_no_defs(m.node))
            and m.name != '__init__']
        for a in sorted(attrs - known):
            # memo-like: looked up and stored by the same method
            users = []
            for m in methods:
                reads = writes = False
                for n in au.walk_no_defs(m.node):
                    if isinstance(n, ast.Subscript) and au.chain(
                            n.value) == ['self', a]:
                        if isinstance(n.ctx, ast.Store):
                            writes = True
                        else:
                            reads = True
                    if isinstance(n, ast.Call) and au.call_name(
                            n) == 'get' and au.chain(
                                n.func.value) == ['self', a]:
                        reads = True
                    if isinstance(n, ast.Compare) and any(au.chain(
                            c) == ['self', a] for c in n.comparators):
                        reads = True
                if reads and writes:
                    users.append(m)
            if not users:
                continue
            if not any(in_scope(P, R, m) for m in users + resetters):
                continue
            missing = [m.name for m in resetters if not any(
                isinstance(s, ast.Assign) and au.chain(
                    s.targets[0]) == ['self', a]
                for s in au.walk_no_defs(m.node)) and not any(
                    au.call_name(c) == 'clear' and au.chain(
                        c.func.value) == ['self', a]
                    for c in au.calls_in(m.node))]
            what = (f'memo attribute `{a}` of {cls} (filled by '
                    f'{[m.name for m in users]})')
            if missing:
                R.violation(
                    'R-CACHE', 'memo-not-reset', f'{mod}.{cls}', a,
                    f'{what} is not reset in {missing}, where the '
                    'computed table is reset because node numbers are '
                    're-used or levels change: a later hit returns a '
                    'result computed for other nodes or another order',
                    unit=init.unit.rel, line=init.lineno)
            else:
                R.holds('R-CACHE', f'{mod}.{cls}',
                        f'{what} is reset in '
                        f'{[m.name for m in resetters]}')
    R.holds('R-CACHE', f'functions behind {R.prop}',
            f'{n_deco} function(s): no lru_cache / cache / '
            'cached_property', nontrivial=False)
r_cache.NAME = 'R-CACHE'


def r_alias(P, R):
    """Accessors return copies, not the manager's own tables."""
    n = 0
    for mod, cls in (('dd.bdd', 'BDD'), ('dd.autoref', 'BDD')):
        for f in P.methods(mod, cls):
            if f.name.startswith('_') or not in_scope(P, R, f):
                continue
            for r in au.walk_no_defs(f.node):
                if not isinstance(r, ast.Return) or r.value is None:
                    continue
                n += 1
                ch = au.chain(r.value)
                if ch and ch[0] == 'self' and ch[-1] in TABLES and len(
                        ch) <= 3:
                    R.violation(
                        'R-ALIAS', 'table-escapes', f.qualname, ch[-1],
                        f'`{au.short(r)}` hands the manager\'s own '
                        f'`{ch[-1]}` table to the caller: editing the '
                        'result edits the manager, and the other views of '
                        'the order no longer agree with it',
                        unit=f.unit.rel, line=r.lineno)
    R.holds('R-ALIAS', f'public methods behind {R.prop}',
            f'{n} return statement(s), none returns a table attribute',
            nontrivial=False)
r_alias.NAME = 'R-ALIAS'


def r_term(P, R):
    """A shortcut taken for terminal references must tell TRUE from
    FALSE: under a test that holds for both (`abs(x) == 1`,
    `x.var is None`), the value must not be a single constant, nor be
    selected by the truthiness of x (both terminals are truthy)."""
    n = 0
    for f in sorted(P.all_funcs(MODS), key=lambda f: f.qualname):
        if not in_scope(P, R, f):
            continue
        au.set_parents(f.node)
        for node in au.walk_no_defs(f.node):
            if not isinstance(node, ast.If):
                continue
            t = node.test
            subj = None
            if isinstance(t, ast.Compare) and len(t.ops) == 1:
                l, r = t.left, t.comparators[0]
                if isinstance(t.ops[0], ast.Eq) and au.const_int(
                        r) == 1 and au.is_abs_of(l):
                    subj = au.is_abs_of(l)
                if isinstance(t.ops[0], ast.Is) and isinstance(
                        r, ast.Constant) and r.value is None and \
                        isinstance(l, ast.Attribute) and l.attr == 'var' \
                        and isinstance(l.value, ast.Name):
                    subj = l.value.id
            if subj is None:
                continue
            n += 1
            for st in node.body:
                for x in au.walk_no_defs(st):
                    if isinstance(x, ast.Return) and x.value is not None:
                        v = x.value
                        const = isinstance(v, ast.Attribute) and v.attr in (
                            'true', 'false') or au.const_int(v) in (1, -1)
                        by_truth = any(
                            isinstance(y, ast.IfExp) and au.is_name(
                                y.test, subj) for y in ast.walk(v))
                        if const or by_truth:
                            R.violation(
                                'R-TERM', 'sign-blind-terminal',
                                f.qualname, subj,
                                f'under `{au.short(t)}` (true for both '
                                f'terminals) `{au.short(x, 60)}` returns '
                                'one constant' + (
                                    ' chosen by the truthiness of '
                                    f'`{subj}` (1 and -1 are both true)'
                                    if by_truth else '')
                                + ': FALSE is turned into TRUE or vice '
                                'versa', unit=f.unit.rel, line=x.lineno)
    R.holds('R-TERM', f'functions behind {R.prop}',
            f'{n} terminal shortcut(s), each keeps the sign',
            nontrivial=False)
r_term.NAME = 'R-TERM'


def r_lossy(P, R):
    """Comparisons and keys that lose information a reference carries."""
    n_cmp = n_comp = n_is = 0
    for f in sorted(P.all_funcs(MODS), key=lambda f: f.qualname):
        if not in_scope(P, R, f):
            continue
        for n in au.walk_no_defs(f.node):
            if isinstance(n, ast.Compare):
                n_cmp += 1
                sides = [n.left] + list(n.comparators)
                if any(isinstance(op, (ast.Eq, ast.NotEq))
                       for op in n.ops) and any(
                           isinstance(s, ast.Call) and au.call_name(
                               s) == 'hash' for s in sides):
                    R.violation(
                        'R-LOSSY', 'hash-equality', f.qualname,
                        au.short(n, 40),
                        f'`{au.short(n, 60)}` decides equality by '
                        'comparing hashes: equal hashes do not imply '
                        'equal values (hash(-1) == hash(-2) in CPython, '
                        'so FALSE equals the node -2)', unit=f.unit.rel,
                        line=n.lineno)
                for op, c in zip(n.ops, n.comparators):
                    if isinstance(op, (ast.Is, ast.IsNot)) and isinstance(
                            c, ast.Constant) and isinstance(c.value, bool):
                        n_is += 1
                        R.violation(
                            'R-LOSSY', 'identity-with-bool', f.qualname,
                            au.short(n, 40),
                            f'`{au.short(n, 60)}` tests a flag by identity '
                            'with a Boolean constant: every other flag of '
                            'the package is tested by truthiness, so a '
                            'truthy value that is not the object `True` '
                            'now counts as false', unit=f.unit.rel,
                            line=n.lineno)
            if isinstance(n, (ast.DictComp, ast.SetComp)):
                n_comp += 1
                key = n.key if isinstance(n, ast.DictComp) else n.elt
                inner = au.is_abs_of(key)
                loopvars = set()
                for g in n.generators:
                    loopvars |= {x.id for x in ast.walk(g.target)
                                 if isinstance(x, ast.Name)}
                if inner and inner in loopvars and isinstance(
                        n, ast.DictComp) and any(
                            au.is_name(x, inner)
                            for x in ast.walk(n.value)):
                    R.violation(
                        'R-LOSSY', 'abs-keyed-collapse', f.qualname,
                        au.short(n, 40),
                        f'`{au.short(n, 70)}` files signed references '
                        f'under `abs({inner})`: a function and its '
                        'negation (u and -u) collide and one of them is '
                        'dropped', unit=f.unit.rel, line=n.lineno)
    R.holds('R-LOSSY', f'functions behind {R.prop}',
            f'{n_cmp} comparison(s): none compares hashes or tests '
            f'identity with True/False; {n_comp} comprehension(s): none '
            'keyed by abs() of a signed reference it keeps',
            nontrivial=False)
r_lossy.NAME = 'R-LOSSY'


SHARED_EXEMPT = {
    ('dd.autoref.BDD.__init__', 'vars'):
        'the wrapper exposes the table of the one manager it wraps '
        '(swap keeps the alias valid by editing the dict in place; '
        'R-INVMAP/order-maps checks that)',
}


def r_shared(P, R):
    """Two managers never share one mutable table."""
    n = 0
    for f in sorted(P.all_funcs(MODS), key=lambda f: f.qualname):
        if not in_scope(P, R, f):
            continue
        for s in au.walk_no_defs(f.node):
            if isinstance(s, ast.Assign) and len(s.targets) == 1:
                t = au.chain(s.targets[0])
            elif isinstance(s, ast.AnnAssign) and s.value is not None:
                t = au.chain(s.target)
            else:
                continue
            v = au.chain(s.value)
            if not t or len(t) < 2 or t[-1] not in TABLES:
                continue
            n += 1
            if (f.qualname, t[-1]) in SHARED_EXEMPT:
                continue
            if v and len(v) >= 2 and v[-1] in TABLES and v[:-1] != t[:-1]:
                R.violation(
                    'R-ALIAS', 'shared-table', f.qualname,
                    f'{".".join(t)}',
                    f'`{au.short(s, 60)}` makes two managers share one '
                    f'`{v[-1]}` table: a node added to, or collected '
                    'from, one of them changes the other',
                    unit=f.unit.rel, line=s.lineno)
    R.holds('R-ALIAS', f'table assignments behind {R.prop}',
            f'{n} assignment(s) to a table attribute, none from the '
            'table of another manager', nontrivial=False)
r_shared.NAME = 'R-ALIAS-SHARED'


def r_loopflag(P, R):
    """A flag that is reset before an inner loop, assigned in it, and then
    decides an early exit has to ACCUMULATE over the iterations (`flag =
    True` under a condition, `flag = flag or c`, `flag |= c`).  A flag
    that is overwritten by every iteration (`flag = c`) remembers the last
    iteration only: the exit is taken although earlier iterations did
    work."""
    n = 0
    for f in sorted(P.all_funcs(MODS), key=lambda f: f.qualname):
        if not in_scope(P, R, f):
            continue
        for blk in au.blocks_of(f.node):
            for k, inner in enumerate(blk):
                if not isinstance(inner, (ast.For, ast.While)):
                    continue
                # flags reset (to a Boolean constant) before the loop in
                # the same block
                flags = {}
                for s in blk[:k]:
                    if isinstance(s, ast.Assign) and len(
                            s.targets) == 1 and isinstance(
                                s.targets[0], ast.Name) and isinstance(
                                    s.value, ast.Constant) and isinstance(
                                        s.value.value, bool):
                        flags[s.targets[0].id] = s
                for s in inner.body:
                    if isinstance(s, ast.Assign) and len(
                            s.targets) == 1 and isinstance(
                                s.targets[0], ast.Name) and isinstance(
                                    s.value, ast.Constant) and isinstance(
                                        s.value.value, bool):
                        flags.setdefault(s.targets[0].id, s)
                if not flags:
                    continue
                # deciding reads after the loop
                deciding = set()
                for s in blk[k + 1:]:
                    if isinstance(s, ast.If) and any(
                            isinstance(x, (ast.Break, ast.Return,
                                           ast.Continue))
                            for b in (s.body, s.orelse) for st in b
                            for x in ast.walk(st)):
                        deciding |= {x.id for x in ast.walk(s.test)
                                     if isinstance(x, ast.Name)}
                for name in sorted(set(flags) & deciding):
                    n += 1
                    over = None
                    for s in inner.body:     # unconditional statements
                        if isinstance(s, ast.Assign) and len(
                                s.targets) == 1 and au.is_name(
                                    s.targets[0], name) and not isinstance(
                                        s.value, ast.Constant) and not any(
                                            au.is_name(x, name)
                                            for x in ast.walk(s.value)):
                            over = s
                    if over is None:
                        # reset INSIDE the loop: every iteration forgets
                        # the previous ones
                        for s in inner.body:
                            if isinstance(s, ast.Assign) and len(
                                    s.targets) == 1 and au.is_name(
                                        s.targets[0], name) and isinstance(
                                            s.value, ast.Constant):
                                over = s
                    if over is not None:
                        R.violation(
                            'R-LOOPFLAG', 'last-iteration-only',
                            f.qualname, name,
                            f'`{au.short(over, 50)}` overwrites the flag '
                            f'`{name}` in every iteration of the loop at '
                            f'line {inner.lineno}; the early exit after '
                            'the loop therefore depends on the last '
                            'iteration only and is taken although earlier '
                            'iterations did work', unit=f.unit.rel,
                            line=over.lineno)
                    else:
                        R.holds('R-LOOPFLAG', f.qualname,
                                f'flag `{name}` accumulates over the '
                                f'loop at line {inner.lineno}')
    R.holds('R-LOOPFLAG', f'functions behind {R.prop}',
            f'{n} flag(s) deciding an early exit after a loop',
            nontrivial=False)
r_loopflag.NAME = 'R-LOOPFLAG'


MUTATORS = {'update', 'add', 'append', 'extend', 'setdefault', 'insert',
            'pop', 'popitem', 'clear', 'remove', 'discard', 'sort',
            'reverse', 'difference_update', 'intersection_update',
            'symmetric_difference_update'}
ARGMUT_EXEMPT = {
    ('dd.bdd.BDD.swap', 'all_levels'):
        'the per-level index is the documented in/out argument that '
        'carries the bookkeeping from one swap to the next',
}


def _reaching_param(fn, node, name, params, depth=0):
    """The parameter that the local `name` is bound to where `node`
    runs, judged from the nearest binding of `name` before `node` in the
    enclosing statement lists (`d = definitions` in one arm of a match
    and `d = dict()` in another: only the first arm edits the
    argument).  None when that binding is anything else, or sits in a
    nested block whose execution is not certain."""
    if depth > 4:
        return None
    # the chain of (statement list, index) that encloses `node`
    chain = []

    def find(stmts):
        for i, s in enumerate(stmts):
            if s is node or any(x is node for x in ast.walk(s)):
                chain.append((stmts, i))
                for fld in ('body', 'orelse', 'finalbody'):
                    sub = getattr(s, fld, None)
                    if isinstance(sub, list) and sub and isinstance(
                            sub[0], ast.stmt):
                        if any(x is node for b in sub
                               for x in ast.walk(b)):
                            find(sub)
                            return
                for h in getattr(s, 'handlers', []):
                    if any(x is node for x in ast.walk(h)):
                        find(h.body)
                        return
                for c in getattr(s, 'cases', []):
                    if any(x is node for x in ast.walk(c)):
                        find(c.body)
                        return
                return
    find(fn.body)
    for stmts, i in reversed(chain):
        for s in reversed(stmts[:i]):
            binds = [x for x in ast.walk(s) if isinstance(
                x, ast.Name) and x.id == name and isinstance(
                    x.ctx, ast.Store)]
            if not binds:
                continue
            if isinstance(s, ast.Assign) and len(
                    s.targets) == 1 and isinstance(
                        s.targets[0], ast.Name) and isinstance(
                            s.value, ast.Name):
                if s.value.id in params:
                    return s.value.id
                return _reaching_param(fn, s, s.value.id, params,
                                       depth + 1)
            return None
    return None


def r_argmut(P, R):
    """A public operation, and any operation that `_try_to_reorder` may
    run twice, does not edit a container it was handed: the caller's
    dictionary must still hold what the caller put there (it may be used
    for the next call), and the retry after a reordering must see the
    arguments of the first attempt."""
    n = 0
    for f in sorted(P.all_funcs(MODS), key=lambda f: f.qualname):
        if not in_scope(P, R, f):
            continue
        decorated = '_try_to_reorder' in f.decorators
        public = not f.name.startswith('_') and not f.name.startswith(
            ('p_', 't_'))
        if not (decorated or public):
            continue
        a = f.node.args
        params = {p.arg for p in a.posonlyargs + a.args + a.kwonlyargs}
        params -= {'self', 'cls'}
        if not params:
            continue
        n += 1
        # local aliases: `d = param`, decided per edit by the binding
        # that reaches it (see `_reaching_value`)
        alias = {p: p for p in params}
        # a parameter rebound to a fresh object before the edit is the
        # function's own
        rebound = dict()
        for s in au.walk_no_defs(f.node):
            if isinstance(s, ast.Assign):
                for t in s.targets:
                    if isinstance(t, ast.Name) and t.id in params and not (
                            isinstance(s.value, ast.Name)):
                        rebound.setdefault(t.id, s.lineno)
        for node in au.walk_no_defs(f.node):
            hit = None
            if isinstance(node, (ast.Assign, ast.AugAssign, ast.Delete)):
                tg = [node.target] if isinstance(
                    node, ast.AugAssign) else node.targets
                for t in tg:
                    if isinstance(t, ast.Subscript) and isinstance(
                            t.value, ast.Name):
                        hit = t.value.id
            if isinstance(node, ast.Call) and isinstance(
                    node.func, ast.Attribute) and \
                    node.func.attr in MUTATORS and isinstance(
                        node.func.value, ast.Name):
                hit = node.func.value.id
            if hit is None:
                continue
            prm = alias.get(hit) or _reaching_param(f.node, node, hit,
                                                    params)
            if prm is None:
                continue
            if prm in rebound and rebound[prm] <= node.lineno:
                continue
            if (f.qualname, prm) in ARGMUT_EXEMPT:
                continue
            why = ('the retry after a reordering runs with the edited '
                   'argument' if decorated else
                   'the caller\'s container is changed under its hands')
            R.violation(
                'R-ARGMUT', 'argument-edited', f.qualname, prm,
                f'`{au.short(node, 60)}` edits the container passed as '
                f'`{prm}`' + (f' (through the alias `{hit}`)'
                              if hit != prm else '') + f': {why}',
                unit=f.unit.rel, line=node.lineno)
    R.holds('R-ARGMUT', f'functions behind {R.prop}',
            f'{n} public or retried function(s) with parameters: none '
            'edits a container it was handed', nontrivial=False)
r_argmut.NAME = 'R-ARGMUT'


def r_identity(P, R):
    """`is` / `is not` compares objects, not values: node numbers (and
    strings) that are equal need not be the same object (CPython shares
    small integers only)."""
    n = 0
    for f in sorted(P.all_funcs(MODS), key=lambda f: f.qualname):
        if not in_scope(P, R, f):
            continue
        for c in au.walk_no_defs(f.node):
            if not isinstance(c, ast.Compare):
                continue
            left = c.left
            for op, right in zip(c.ops, c.comparators):
                singleton = any(
                    isinstance(x, ast.Constant) and (
                        x.value is None or isinstance(x.value, bool)
                        or x.value is Ellipsis) for x in (left, right))
                if isinstance(op, (ast.Is, ast.IsNot)) and singleton:
                    n += 1
                elif isinstance(op, (ast.Is, ast.IsNot)):
                    n += 1
                    for side in (left, right):
                        ch = au.chain(side) or []
                        value_like = (ch and ch[-1] in (
                            'node', 'level', 'var')) or (isinstance(
                                side, ast.Constant) and isinstance(
                                    side.value, (int, str))
                                and not isinstance(side.value, bool)) or (
                            isinstance(side, ast.Call) and au.call_name(
                                side) in ('int', 'abs', 'str', 'len'))
                        if value_like:
                            R.violation(
                                'R-LOSSY', 'identity-on-values',
                                f.qualname, au.short(c, 40),
                                f'`{au.short(c, 60)}` compares values '
                                f'(`{au.short(side, 30)}`) by object '
                                'identity: two equal node numbers above '
                                '256 are different int objects, so equal '
                                'references compare as different',
                                unit=f.unit.rel, line=c.lineno)
                            break
                left = right
    R.holds('R-LOSSY', f'identity tests behind {R.prop}',
            f'{n} `is` / `is not` comparison(s): each on None, a Boolean, '
            'a manager or a type', nontrivial=False)
r_identity.NAME = 'R-LOSSY(identity)'


def r_classstate(P, R):
    """Tables and memos belong to one object.  A mutable object created
    in a class body is shared by all instances; if methods write into it
    through `self`, what one manager (or one parse) records shows up in
    every other one."""
    n = 0
    for mod in sorted(MODS):
        u = P.units.get(mod)
        if u is None:
            continue
        for cname, cls in sorted(u.classes.items()):
            methods = P.methods(mod, cname)
            if not any(in_scope(P, R, m) for m in methods):
                continue
            for s in cls.body:
                tgt = val = None
                if isinstance(s, ast.Assign) and len(s.targets) == 1:
                    tgt, val = s.targets[0], s.value
                elif isinstance(s, ast.AnnAssign) and s.value is not None:
                    tgt, val = s.target, s.value
                if not isinstance(tgt, ast.Name):
                    continue
                mutable = isinstance(val, (ast.Dict, ast.List, ast.Set)) \
                    or (isinstance(val, ast.Call) and au.call_name(val) in (
                        'dict', 'list', 'set', 'defaultdict'))
                if not mutable:
                    continue
                n += 1
                name = tgt.id
                writers = []
                rebinds = []
                for m in methods:
                    for x in au.walk_no_defs(m.node):
                        if isinstance(x, ast.Subscript) and isinstance(
                                x.ctx, (ast.Store, ast.Del)) and au.chain(
                                    x.value) == ['self', name]:
                            writers.append(m.name)
                        if isinstance(x, ast.Call) and isinstance(
                                x.func, ast.Attribute) and \
                                x.func.attr in MUTATORS and au.chain(
                                    x.func.value) == ['self', name]:
                            writers.append(m.name)
                        if isinstance(x, ast.Assign) and m.name == \
                                '__init__' and any(au.chain(t) == [
                                    'self', name] for t in x.targets):
                            rebinds.append(m.name)
                if writers and not rebinds:
                    R.violation(
                        'R-ALIAS', 'class-level-state', f'{mod}.{cname}',
                        name,
                        f'`{au.short(s, 50)}` in the body of class '
                        f'{cname} creates ONE object for all instances, '
                        f'and {sorted(set(writers))} write into it '
                        f'through `self.{name}`: entries made for one '
                        f'{cname} are read by every other one',
                        unit=u.rel, line=s.lineno)
    R.holds('R-ALIAS', f'classes behind {R.prop}',
            f'{n} mutable class-level attribute(s) written through self',
            nontrivial=False)
r_classstate.NAME = 'R-ALIAS(class-level state)'


def r_owned(P, R):
    """A manager's tables are its own objects: a table attribute is not
    bound to an argument (the caller, and every other object built from
    the same argument, would share it)."""
    n = 0
    for f in sorted(P.all_funcs(MODS), key=lambda f: f.qualname):
        if not in_scope(P, R, f):
            continue
        params = set(f.params) - {'self', 'cls'}
        for s in au.walk_no_defs(f.node):
            if isinstance(s, ast.Assign) and len(s.targets) == 1:
                t = au.chain(s.targets[0])
            elif isinstance(s, ast.AnnAssign) and s.value is not None:
                t = au.chain(s.target)
            else:
                continue
            if not t or len(t) != 2 or t[0] != 'self' or \
                    t[1] not in TABLES | {'roots'}:
                continue
            n += 1
            if isinstance(s.value, ast.Name) and s.value.id in params:
                R.violation(
                    'R-ALIAS', 'caller-owned-table', f.qualname, t[1],
                    f'`{au.short(s, 50)}` keeps the caller\'s object as '
                    f'the manager\'s `{t[1]}` table: another manager '
                    'built from the same object, or the caller editing '
                    'it, changes this manager without moving its nodes',
                    unit=f.unit.rel, line=s.lineno)
    R.holds('R-ALIAS', f'table bindings behind {R.prop}',
            f'{n} binding(s) of a table attribute, none to an argument',
            nontrivial=False)
r_owned.NAME = 'R-ALIAS(owned tables)'


def r_unused(P, R):
    """An argument that a function accepts and never looks at is an
    argument that a wrapper forgot to pass on."""
    n = 0
    accepted = {
        ('__exit__', 'ex_value'), ('__exit__', 'tb'),
        ('_assert_valid_rename', 'u'), ('decref', 'kw'), ('dump', 'kw'),
        ('__init__', 'node'), ('__init__', 'bdd'), ('_add_node', 'index'),
        ('p_algebraic_dd', 'p'), ('t_comment', 't'),
        ('t_trailing_comment', 'token'),
        ('t_doubly_delimited_comment', 'token'),
    }
    for f in sorted(P.all_funcs(MODS), key=lambda f: f.qualname):
        if not in_scope(P, R, f):
            continue
        a = f.node.args
        ps = [p.arg for p in a.posonlyargs + a.args + a.kwonlyargs
              if p.arg not in ('self', 'cls')]
        if a.vararg:
            ps.append(a.vararg.arg)
        if a.kwarg:
            ps.append(a.kwarg.arg)
        body = [s for s in f.node.body if not (
            isinstance(s, ast.Expr) and isinstance(s.value, ast.Constant))]
        if not body or all(isinstance(s, (ast.Pass, ast.Raise))
                           for s in body):
            continue
        used = {x.id for s in body for x in ast.walk(s)
                if isinstance(x, ast.Name)}
        n += 1
        for p in ps:
            if p in used or (f.name, p) in accepted:
                continue
            R.violation(
                'R-UNUSED', 'argument-dropped', f.qualname, p,
                f'{f.qualname} accepts `{p}` and never uses it: the '
                'caller\'s choice is silently replaced by the default of '
                'whatever the function calls', unit=f.unit.rel,
                line=f.lineno)
    R.holds('R-UNUSED', f'functions behind {R.prop}',
            f'{n} function(s): every parameter is used (12 reviewed '
            'exceptions: context-manager and PLY signatures, `**kw` of '
            'wrappers that take no options)', nontrivial=False)
r_unused.NAME = 'R-UNUSED'


def r_signblind(P, R):
    """References are signed.  `abs(p) == q` identifies a function with
    its negation; a set of `abs(r)` counts nodes, not references; neither
    occurs on the pinned tree outside terminal tests (`abs(u) == 1`)."""
    n = 0
    for f in sorted(P.all_funcs(MODS), key=lambda f: f.qualname):
        if not in_scope(P, R, f):
            continue
        abs_sets = dict()
        for node in au.walk_no_defs(f.node):
            if isinstance(node, ast.Compare) and len(node.ops) == 1 and \
                    isinstance(node.ops[0], (ast.Eq, ast.NotEq)):
                n += 1
                a, b = node.left, node.comparators[0]
                for x, y in ((a, b), (b, a)):
                    if isinstance(x, ast.Call) and au.call_name(
                            x) == 'abs' and au.const_int(y) is None and \
                            not (isinstance(y, ast.Call) and au.call_name(
                                y) == 'abs') and not isinstance(
                                    y, ast.Constant):
                        R.violation(
                            'R-LOSSY', 'equality-modulo-complement',
                            f.qualname, au.short(node, 40),
                            f'`{au.short(node, 60)}` compares a reference '
                            'with the sign removed from one side only: '
                            'it holds for `p == q` and for `p == -q`, so '
                            'a function is taken for its negation',
                            unit=f.unit.rel, line=node.lineno)
                        break
            if isinstance(node, ast.Assign) and len(
                    node.targets) == 1 and isinstance(
                        node.targets[0], ast.Name) and isinstance(
                            node.value, ast.SetComp) and au.is_abs_of(
                                node.value.elt):
                abs_sets[node.targets[0].id] = node
        for node in au.walk_no_defs(f.node):
            if isinstance(node, ast.Compare) and any(
                    isinstance(x, ast.Call) and au.call_name(x) == 'len'
                    and x.args and isinstance(x.args[0], ast.Name)
                    and x.args[0].id in abs_sets
                    for x in [node.left] + list(node.comparators)):
                s = [x for x in [node.left] + list(node.comparators)
                     if isinstance(x, ast.Call) and x.args and isinstance(
                         x.args[0], ast.Name)
                     and x.args[0].id in abs_sets][0]
                R.violation(
                    'R-LOSSY', 'references-counted-as-nodes', f.qualname,
                    s.args[0].id,
                    f'`{au.short(node, 60)}` counts the elements of '
                    f'`{au.short(abs_sets[s.args[0].id].value, 50)}`: a '
                    'function and its negation are two references to one '
                    'node, so the count is one short whenever both are '
                    'present', unit=f.unit.rel, line=node.lineno)
    R.holds('R-LOSSY', f'comparisons behind {R.prop}',
            f'{n} equality test(s): none compares abs() of a reference '
            'with a reference', nontrivial=False)
r_signblind.NAME = 'R-LOSSY(sign-blind)'


def r_zip(P, R):
    """`zip` pairs its arguments by position: an argument that is sorted,
    reversed or turned into a set on the spot is no longer in the order
    in which the other argument lists its partners."""
    n = 0
    for f in sorted(P.all_funcs(MODS), key=lambda f: f.qualname):
        if not in_scope(P, R, f):
            continue
        for c in au.calls_in(f.node, 'zip'):
            n += 1
            re_ordered = [a for a in c.args if isinstance(
                a, ast.Call) and au.call_name(a) in (
                    'sorted', 'reversed', 'set', 'frozenset')]
            plain = [a for a in c.args if a not in re_ordered]
            if re_ordered and plain:
                R.violation(
                    'R-ARGS', 'misaligned-zip', f.qualname,
                    au.short(c, 40),
                    f'`{au.short(c, 70)}` pairs '
                    f'`{au.short(re_ordered[0], 30)}` (re-ordered on the '
                    f'spot) with `{au.short(plain[0], 30)}` (as given): '
                    'the pairs are right only if the second was listed '
                    'in that order already', unit=f.unit.rel,
                    line=c.lineno)
    R.holds('R-ARGS', f'zip() calls behind {R.prop}',
            f'{n} call(s): arguments are paired as given',
            nontrivial=False)
r_zip.NAME = 'R-ARGS(zip)'


UNDECLARED_OK = {
    ('dd.dddmp', 'Lexer', 'lexer'): 'created by build(), the PLY idiom',
    ('dd.dddmp', 'Parser', 'bdd_name'): 'optional header field',
}


def r_attrs(P, R):
    """State lives in the attributes that `__init__` (or `reset`) creates.
    An assignment to `self.<name>` for a name nobody declared creates a new
    attribute and leaves the intended one as it was (`self.last_len = None`
    for `self._last_len`)."""
    n = 0
    for mod in sorted(MODS):
        u = P.units.get(mod)
        if u is None:
            continue
        for cname, cls in sorted(u.classes.items()):
            methods = P.methods(mod, cname)
            if not any(in_scope(P, R, m) for m in methods):
                continue
            decl = set()
            for s in cls.body:
                if isinstance(s, ast.Assign):
                    decl |= {t.id for t in s.targets
                             if isinstance(t, ast.Name)}
                elif isinstance(s, ast.AnnAssign) and isinstance(
                        s.target, ast.Name):
                    decl.add(s.target.id)
                elif isinstance(s, (ast.FunctionDef,
                                    ast.AsyncFunctionDef)):
                    decl.add(s.name)
            # inherited declarations (one level, same package)
            for b in cls.bases:
                ch = au.chain(b) or []
                for m2 in sorted(MODS):
                    u2 = P.units.get(m2)
                    if u2 is not None and ch and ch[-1] in u2.classes:
                        for mm in P.methods(m2, ch[-1]):
                            if mm.name in ('__init__', 'reset',
                                           '_reset_state'):
                                decl |= _self_stores(mm.node)
            for m in methods:
                if m.name in ('__init__', 'reset', '_reset_state',
                              '__new__'):
                    decl |= _self_stores(m.node)
            for m in methods:
                for x in au.walk_no_defs(m.node):
                    if isinstance(x, ast.Attribute) and isinstance(
                            x.ctx, ast.Store) and au.chain(x) and \
                            au.chain(x)[0] == 'self' and len(
                                au.chain(x)) == 2:
                        n += 1
                        if x.attr in decl or (mod, cname, x.attr) in \
                                UNDECLARED_OK:
                            continue
                        near = sorted(d for d in decl if d.strip(
                            '_') == x.attr.strip('_'))
                        R.violation(
                            'R-WRITERS', 'undeclared-attribute',
                            m.qualname, x.attr,
                            f'`self.{x.attr} = ...` in {m.name}: no '
                            f'`__init__` / `reset` of {cname} creates '
                            f'`{x.attr}`' + (
                                f' (it creates `{near[0]}`)' if near
                                else '') + ': the assignment makes a new '
                            'attribute and the state it was meant to '
                            'change stays as it was', unit=m.unit.rel,
                            line=x.lineno)
    R.holds('R-WRITERS', f'classes behind {R.prop}',
            f'{n} assignment(s) to attributes of self, each to a declared '
            'attribute', nontrivial=False)
r_attrs.NAME = 'R-WRITERS(declared attributes)'


def _self_stores(fn):
    return {x.attr for x in au.walk_no_defs(fn)
            if isinstance(x, ast.Attribute) and isinstance(
                x.ctx, ast.Store) and au.chain(x)
            and au.chain(x)[0] == 'self' and len(au.chain(x)) == 2}


def _free_loads(node):
    """Name loads in `node` that are not bound by a comprehension or a
    lambda inside it."""
    out = []

    def visit(n, bound):
        if isinstance(n, (ast.ListComp, ast.SetComp, ast.DictComp,
                          ast.GeneratorExp)):
            b = set(bound)
            for g in n.generators:
                visit(g.iter, b)
                b |= {x.id for x in ast.walk(g.target)
                      if isinstance(x, ast.Name)}
                for c in g.ifs:
                    visit(c, b)
            for part in ([n.key, n.value] if isinstance(
                    n, ast.DictComp) else [n.elt]):
                visit(part, b)
            return
        if isinstance(n, ast.Lambda):
            b = set(bound) | {p.arg for p in n.args.args}
            visit(n.body, b)
            return
        if isinstance(n, (ast.FunctionDef, ast.AsyncFunctionDef,
                          ast.ClassDef)):
            return
        if isinstance(n, ast.Name) and isinstance(
                n.ctx, ast.Load) and n.id not in bound:
            out.append(n)
        for c in ast.iter_child_nodes(n):
            visit(c, bound)
    visit(node, set())
    return out


def r_unbound(P, R):
    """A local that is assigned only inside a loop and read after it does
    not exist when the loop runs zero times (no variables, no roots, an
    empty file): the read raises UnboundLocalError."""
    n = 0
    for f in sorted(P.all_funcs(MODS), key=lambda f: f.qualname):
        if not in_scope(P, R, f):
            continue
        fn = f.node
        params = set(f.params)
        if fn.args.vararg:
            params.add(fn.args.vararg.arg)
        if fn.args.kwarg:
            params.add(fn.args.kwarg.arg)
        pos = au.positions(fn)
        for blk in au.blocks_of(fn):
            for k, lp in enumerate(blk):
                if not isinstance(lp, (ast.For, ast.While)):
                    continue
                n += 1
                # `for ...: if c: break` / `else: return|raise`: what
                # follows the loop is reached through the `break` only
                if lp.orelse and isinstance(
                        lp.orelse[-1], (ast.Return, ast.Raise)):
                    continue
                # a loop over a non-empty literal always runs
                if isinstance(lp, ast.For) and isinstance(
                        lp.iter, (ast.Tuple, ast.List)) and lp.iter.elts:
                    continue
                inside = {x.id for s in lp.body for x in ast.walk(s)
                          if isinstance(x, ast.Name)
                          and isinstance(x.ctx, ast.Store)}
                if isinstance(lp, ast.For):
                    inside |= {x.id for x in ast.walk(lp.target)
                               if isinstance(x, ast.Name)}
                before = set(params)
                for x in ast.walk(fn):
                    if isinstance(x, ast.Name) and isinstance(
                            x.ctx, ast.Store) and pos[id(x)] < pos[id(lp)]:
                        before.add(x.id)
                    if isinstance(x, (ast.FunctionDef, ast.ClassDef)) \
                            and x is not fn and pos[id(x)] < pos[id(lp)]:
                        before.add(x.name)
                rebound = set()
                later_stores = [
                    (y.id, pos[id(y)]) for s2 in blk[k + 1:]
                    for y in ast.walk(s2) if isinstance(y, ast.Name)
                    and isinstance(y.ctx, ast.Store)]
                for s in blk[k + 1:]:
                    val = s.value if isinstance(s, (
                        ast.Assign, ast.AnnAssign, ast.AugAssign)) and \
                        getattr(s, 'value', None) is not None else s
                    for x in _free_loads(val):
                        if any(nm == x.id and ps < pos[id(x)]
                               for nm, ps in later_stores):
                            continue
                        if x.id in inside and x.id not in before and \
                                x.id not in rebound:
                            R.violation(
                                'R-UNBOUND', 'assigned-in-loop-only',
                                f.qualname, x.id,
                                f'`{x.id}` (read at line {x.lineno}) is '
                                'assigned only inside the loop at line '
                                f'{lp.lineno} (`{au.short(lp.iter if isinstance(lp, ast.For) else lp.test, 40)}`): '
                                'when the loop does not run - an empty '
                                'collection - the read raises '
                                'UnboundLocalError', unit=f.unit.rel,
                                line=x.lineno)
                            rebound.add(x.id)
                    rebound |= {x.id for x in ast.walk(s)
                                if isinstance(x, ast.Name)
                                and isinstance(x.ctx, ast.Store)}
    R.holds('R-UNBOUND', f'loops behind {R.prop}',
            f'{n} loop(s): nothing assigned only inside a loop is read '
            'after it', nontrivial=False)
r_unbound.NAME = 'R-UNBOUND'
