"""R-CYTS: reference typestate on node pointers in the Cython wrappers.

A counter per pointer-valued local (or attribute expression) is carried
along every enumerated path of the lowered Cython function:

    cuddRef / Cudd_Ref / sylvan_ref / bdd_addref            +1
    Cudd_RecursiveDeref[Zdd] / cuddDeref / Cudd_Deref ...   -1
    store into the recursion's table / vector               -1 (transfer)

At every exit (`return`, `return NULL`, end of body, user-facing `raise`)
all counters must be zero; a counter must never become negative; a
referenced local must not be overwritten.  Branches on `x is NULL` give
nullness facts that prune contradictory paths.
"""
import ast

from .. import astutil as au
from .. import paths as pa
from ..frontend import AnalysisError

REF = {'cuddRef', 'Cudd_Ref', 'sylvan_ref', 'bdd_addref'}
DEREF = {'Cudd_RecursiveDerefZdd', 'Cudd_RecursiveDeref', 'cuddDeref',
         'Cudd_Deref', 'Cudd_IterDerefBdd', 'sylvan_deref', 'bdd_delref',
         'Cudd_DelayedDerefBdd'}
# library calls whose result is handed over already referenced
PRE_REFERENCED = {'Dddmp_cuddBddLoad'}
COLLECTIONS = {'table', 'vector'}
# functions of the wrapper that read or fill a memo table / vector
RECURSIONS = {'_compose', '_compose_root', '_c_compose'}


def strip_cast(e):
    while isinstance(e, ast.Call) and au.call_name(e) == '__cast__' and \
            len(e.args) == 2:
        e = e.args[1]
    return e


def key_of(e):
    e = strip_cast(e)
    return au.src(e).replace(' ', '')


def null_test(e):
    """`x is NULL` -> (key, True); `x is not NULL` -> (key, False)."""
    if isinstance(e, ast.Compare) and len(e.ops) == 1 and au.is_name(
            e.comparators[0], 'NULL'):
        if isinstance(e.ops[0], (ast.Is, ast.Eq)):
            return key_of(e.left), True
        if isinstance(e.ops[0], (ast.IsNot, ast.NotEq)):
            return key_of(e.left), False
    return None


class Infeasible(Exception):
    pass


class State:
    def __init__(self, params):
        self.cnt = dict()
        self.facts = dict()
        self.owned = dict()       # collection -> statement that filled it
        self.released = set()
        self.dead = dict()        # key -> node of the killing deref
        self.params = set(params)
        self.problems = []

    def fact(self, key, is_null):
        old = self.facts.get(key)
        if old is not None and old != is_null:
            raise Infeasible()
        self.facts[key] = is_null

    def add(self, key, d, node):
        if self.facts.get(key) is True:
            return      # NULL pointer: nothing to count
        self.cnt[key] = self.cnt.get(key, 0) + d
        if self.cnt[key] < 0:
            self.problems.append((
                'over-release', key, node,
                f'`{key}` is dereferenced more often than it was '
                'referenced on this path'))
            self.cnt[key] = 0


def collection_of(e):
    """`vector[i]` / `table[t]` / loop variable over table.values()."""
    e = strip_cast(e)
    if isinstance(e, ast.Subscript) and isinstance(e.value, ast.Name) and \
            e.value.id in COLLECTIONS:
        return e.value.id
    return None


def walk_path(path, params):
    st = State(params)
    loopvars = dict()      # name -> collection it iterates over
    for it in path:
        kind = it[0]
        if kind == 'test':
            nt = null_test(it[1])
            if nt:
                st.fact(nt[0], nt[1] if it[2] else not nt[1])
        elif kind == 'guard':
            # `if x is NULL: raise AssertionError` -> x is not NULL
            node = it[1]
            t = getattr(node, 'test', None)
            nt = null_test(t) if t is not None else None
            if nt and nt[1] is True:
                st.fact(nt[0], False)
        elif kind == 'loop':
            node = it[1]
            if isinstance(node, ast.For):
                src_it = au.src(node.iter).replace(' ', '')
                for c in COLLECTIONS:
                    if src_it.startswith(f'{c}.values()') and isinstance(
                            node.target, ast.Name):
                        loopvars[node.target.id] = c
                # a release loop is matched against its collection, not
                # counted per iteration
                for c in au.calls_in(node):
                    if au.call_name(c) in DEREF and c.args:
                        a = strip_cast(c.args[-1])
                        col = collection_of(a)
                        if col is None and isinstance(a, ast.Name):
                            col = loopvars.get(a.id)
                        if col:
                            st.released.add(col)
        elif kind == 'stmt':
            s = it[1]
            events(st, s, loopvars)
        elif kind == 'exit':
            if it[2] in ('abort',):
                return st, None
            node = it[1]
            if isinstance(node, ast.Return) and node.value is not None:
                for n2 in ast.walk(node.value):
                    if isinstance(n2, ast.Name) and n2.id in st.dead:
                        st.problems.append((
                            'use-after-release', n2.id, node,
                            f'`{n2.id}` is returned after its last '
                            'reference was given back'))
            return st, it
    return st, None


def events(st, s, loopvars):
    # calls in evaluation order
    calls = sorted(au.calls_in(s), key=lambda c: (
        getattr(c, 'end_lineno', c.lineno), getattr(
            c, 'end_col_offset', c.col_offset)))
    for c in calls:
        name = au.call_name(c)
        # uses of a node after its last reference was given back
        if name not in DEREF:
            for a in c.args:
                k = key_of(a)
                if k in st.dead and name != '__cast__':
                    st.problems.append((
                        'use-after-release', k, c,
                        f'`{au.short(c, 60)}` uses `{k}` after '
                        f'`{au.short(st.dead[k], 50)}` gave back its last '
                        'reference: the node (and, recursively, its '
                        'successors) may already be dead'))
                    st.dead.pop(k, None)
                if isinstance(a, ast.Name) and a.id in st.released and \
                        a.id in COLLECTIONS and name in RECURSIONS:
                    st.problems.append((
                        'use-after-release', a.id, c,
                        f'`{au.short(c, 60)}` re-uses the memo `{a.id}` '
                        'after its entries were dereferenced: a hit '
                        'returns a node whose reference was already '
                        'given back, and it is released a second time '
                        'later'))
        if name in REF and c.args:
            st.add(key_of(c.args[0]), +1, c)
        elif name in DEREF and c.args:
            a = strip_cast(c.args[-1])
            col = collection_of(a)
            if col is None and isinstance(a, ast.Name):
                col = loopvars.get(a.id)
            if col:
                st.released.add(col)
            else:
                k = key_of(a)
                before = st.cnt.get(k, 0)
                st.add(k, -1, c)
                if name.startswith('Cudd_RecursiveDeref') and \
                        before == 1 and st.cnt.get(k, 0) == 0:
                    st.dead[k] = c
    if isinstance(s, ast.Assign) and len(s.targets) == 1:
        t = s.targets[0]
        col = collection_of(t)
        if col:
            # ownership transfer into the collection
            st.add(key_of(s.value), -1, s)
            st.owned.setdefault(col, s)
            return
        targets = t.elts if isinstance(t, ast.Tuple) else [t]
        for x in targets:
            if isinstance(x, ast.Name):
                k = x.id
                if st.cnt.get(k, 0) > 0:
                    st.problems.append((
                        'overwritten', k, s,
                        f'`{k}` is overwritten while it still holds '
                        f'{st.cnt[k]} reference(s): the old node leaks'))
                st.cnt[k] = 0
                st.dead.pop(k, None)
                st.facts.pop(k, None)
                if x.id in COLLECTIONS:
                    st.owned.pop(x.id, None)
                    st.released.discard(x.id)
        v = s.value
        if isinstance(v, ast.Call) and au.call_name(v) in PRE_REFERENCED \
                and isinstance(t, ast.Name):
            st.cnt[t.id] = 1
        # a local table handed to the recursion may come back owning nodes
        if isinstance(v, ast.Call):
            for a in v.args:
                if isinstance(a, ast.Name) and a.id in COLLECTIONS and \
                        a.id not in st.params:
                    st.owned.setdefault(a.id, s)
                    st.released.discard(a.id)


def check_function(R, f, rule='R-CYTS'):
    """Decide one function; returns number of exits examined."""
    fn = f.node
    has_while = any(isinstance(n, ast.While)
                    for n in au.walk_no_defs(fn))
    try:
        plist = pa.function_paths(fn, limit=6000, loop_twice=has_while)
    except pa.PathExplosion:
        R.undecided(rule, f.qualname, 'typestate', 'path explosion')
        return 0
    R.count('paths', len(plist))
    exits = 0
    reported = set()
    for path in plist:
        try:
            st, ex = walk_path(path, f.params)
        except Infeasible:
            continue
        if ex is None:
            continue
        exits += 1
        probs = list(st.problems)
        for k, n in st.cnt.items():
            if n > 0 and st.facts.get(k) is not True:
                probs.append((
                    'leak', k, ex[1],
                    f'`{k}` still holds {n} reference(s) at the '
                    f'{ex[2]} exit at line '
                    f'{getattr(ex[1], "lineno", "?")}: the temporary '
                    'reference is never released on this path'))
        for col, where in st.owned.items():
            if col not in st.params and col not in st.released:
                probs.append((
                    'collection', col, ex[1],
                    f'the nodes owned by `{col}` are not released before '
                    f'the {ex[2]} exit at line '
                    f'{getattr(ex[1], "lineno", "?")}'))
        for kind, key, node, msg in probs:
            kk = (kind, key)
            if kk in reported:
                continue
            reported.add(kk)
            R.violation(
                rule, kind, f.qualname, key, msg, unit=f.unit.rel,
                line=getattr(node, 'lineno', f.lineno),
                path=pa.describe(path))
    if not reported:
        R.holds(rule, f.qualname,
                f'{exits} exit(s) on {len(plist)} path(s): every '
                'temporary reference is released, none released twice')
    return exits


INSTANCES = {
    'dd.cudd.BDD._load_dddmp', 'dd.cudd_zdd.ZDD.add_var',
    'dd.cudd_zdd._c_compose', 'dd.cudd_zdd._compose',
    'dd.cudd_zdd._compose_root', 'dd.cudd_zdd._conjoin',
    'dd.cudd_zdd._disjoin', 'dd.cudd_zdd._exist', 'dd.cudd_zdd._forall',
}
NOT_INSTANCES = {
    'dd.cudd._test_call_dealloc':
        'test helper that replays __dealloc__ on a live handle',
    'dd.cudd_zdd._test_call_dealloc':
        'test helper that replays __dealloc__ on a live handle',
    'dd.cudd_zdd.cuddHashTableQuitZdd':
        'port of a CUDD internal: releases values that the hash table '
        'referenced when they were inserted',
}


def temporaries(P, R):
    mods = ['dd.cudd', 'dd.cudd_zdd']
    n = 0
    skip = {'init', '__dealloc__', '__cinit__', 'incref', 'decref',
            '_incref', '_decref'}
    for m in mods:
        for f in sorted(P.all_funcs({m}), key=lambda f: f.qualname):
            if f.name in skip:
                continue
            has = any(au.call_name(c) in REF | DEREF | PRE_REFERENCED
                      for c in au.calls_in(f.node))
            if not has:
                continue
            if f.qualname not in INSTANCES:
                R.unreviewed_site(
                    'R-CYTS', f.qualname,
                    'uses reference / dereference calls but is not a '
                    'confirmed instance (' + NOT_INSTANCES.get(
                        f.qualname, 'new code') + ')')
                continue
            if check_function(R, f) > 0:
                n += 1
    R.floor('R-CYTS functions with temporary references', n, 9)


HANDLES = [
    ('dd.cudd', 'init', 'Cudd_Ref', 'Cudd_RecursiveDeref'),
    ('dd.cudd_zdd', 'init', 'Cudd_Ref', 'Cudd_RecursiveDerefZdd'),
    ('dd.sylvan', 'init', 'sylvan_ref', 'sylvan_deref'),
    ('dd.buddy', '__cinit__', 'bdd_addref', 'bdd_delref'),
]


def handles(P, R):
    for mod, ctor, ref, deref in HANDLES:
        c = P.func(f'{mod}.Function.{ctor}')
        d = P.func(f'{mod}.Function.__dealloc__')
        # constructor: exactly one library reference on every normal path,
        # none before a rejection
        bad = None
        n = 0
        for path in pa.function_paths(c.node):
            k = sum(1 for it in path if it[0] == 'stmt'
                    for x in au.calls_in(it[1]) if au.call_name(x) == ref)
            kind = pa.exit_kind(path)
            if kind in ('fall', 'return'):
                n += 1
                if k != 1:
                    bad = f'takes {k} library reference(s) instead of one'
            elif kind == 'raise' and k:
                bad = 'takes a reference and then rejects the node'
        if bad:
            R.violation('R-CYTS', 'handle-acquire', c.qualname, ref,
                        f'{c.qualname} {bad}', unit=c.unit.rel,
                        line=c.lineno)
        else:
            R.holds('R-CYTS', c.qualname,
                    f'one {ref} on each of {n} normal path(s)')
        # the referenced node is the one stored on the handle
        refs = [x for x in au.calls_in(c.node) if au.call_name(x) == ref]
        stores = [s for s in au.walk_no_defs(c.node)
                  if isinstance(s, ast.Assign) and au.chain(
                      s.targets[0]) == ['self', 'node']]
        if refs and stores and au.src(refs[0].args[0]) == au.src(
                stores[0].value):
            R.holds('R-CYTS', c.qualname, 'the referenced node is the one '
                    'stored on the handle', nontrivial=False)
        else:
            R.violation('R-CYTS', 'handle-acquire', c.qualname, 'node',
                        'the node stored on the handle is not the node '
                        'that was referenced', unit=c.unit.rel,
                        line=c.lineno)
        # finaliser: exactly one release of the node held, decided on a
        # recording model of the library call
        from . import models
        models.cy_release_model(P, R, mod, deref)
    # wrap(): builds a handle and initialises it with the given node
    for mod in ('dd.cudd', 'dd.cudd_zdd', 'dd.sylvan'):
        w = P.func(f'{mod}.wrap')
        params = w.params
        calls = [c for c in au.calls_in(w.node, 'init')]
        ok = len(calls) == 1 and len(calls[0].args) == 2 and au.is_name(
            calls[0].args[0], params[1]) and au.is_name(
                calls[0].args[1], params[0])
        rets = [n for n in au.walk_no_defs(w.node)
                if isinstance(n, ast.Return)]
        recv = au.call_recv(calls[0]) if calls else None
        ok = ok and len(rets) == 1 and recv and au.is_name(
            rets[0].value, recv[0])
        if ok:
            R.holds('R-CYTS', w.qualname, 'wrap(manager, node) returns a '
                    'handle initialised with that node')
        else:
            R.violation('R-CYTS', 'wrap', w.qualname, 'init',
                        'wrap() no longer initialises and returns a handle '
                        'for the given node', unit=w.unit.rel,
                        line=w.lineno)


def r_cyts(P, R):
    handles(P, R)
    temporaries(P, R)
r_cyts.NAME = 'R-CYTS'


def r_cache_tags(P, R):
    """The CUDD computed table is shared by all operators and keyed by
    (tag, operands): an operator must look up and insert under its own
    tag and the same operands, and no two operators share a tag."""
    owners = dict()
    n = 0
    for f in sorted(P.all_funcs({'dd.cudd_zdd', 'dd.cudd'}),
                    key=lambda f: f.qualname):
        look = [c for c in au.calls_in(f.node)
                if (au.call_name(c) or '').startswith('cuddCacheLookup')]
        ins = [c for c in au.calls_in(f.node)
               if (au.call_name(c) or '').startswith('cuddCacheInsert')]
        if not look and not ins:
            continue
        n += 1
        keys_l = {tuple(au.src(a) for a in c.args[1:4]) for c in look}
        keys_i = {tuple(au.src(a) for a in c.args[1:4]) for c in ins}
        if not look or not ins:
            R.violation(
                'R-MEMO', 'cudd-cache-pair', f.qualname,
                'lookup' if not look else 'insert',
                f'{f.qualname} uses the CUDD computed table but '
                + ('never looks a result up' if not look else
                   'never inserts a result'), unit=f.unit.rel,
                line=f.lineno)
            continue
        if keys_l != keys_i or len(keys_l) != 1:
            c = ins[0]
            R.violation(
                'R-MEMO', 'cudd-cache-key', f.qualname,
                'tag-and-operands',
                f'{f.qualname} looks results up under {sorted(keys_l)} '
                f'but inserts them under {sorted(keys_i)}: the result is '
                'filed under the key of another operator (or other '
                'operands), which later returns it as its own',
                unit=f.unit.rel, line=c.lineno)
            continue
        tag = next(iter(keys_l))[0]
        owners.setdefault(tag, []).append(f.qualname)
        R.holds('R-MEMO', f.qualname,
                f'CUDD cache: lookup and insert under {next(iter(keys_l))}')
    for tag, fs in sorted(owners.items()):
        if len(fs) > 1:
            R.violation(
                'R-MEMO', 'cudd-cache-tag-shared', fs[1], tag,
                f'{fs} file their results under the same tag `{tag}`: '
                'one operator returns the results of the other',
                unit=P.func(fs[1]).unit.rel, line=P.func(fs[1]).lineno)
    if n < 4:
        raise AnalysisError(
            f'R-MEMO/cudd-cache: {n} function(s) use the CUDD computed '
            'table, 4 confirmed on the reference tree')
r_cache_tags.NAME = 'R-MEMO-CUDD'


def r_loader_release(P, R):
    """dd._copy serves the C back ends as well.  Its JSON loader takes one
    reference per loaded node through one Function object (`_make_node`:
    `bdd.incref(u)`) and gives it back through ANOTHER, fresh one
    (`_load_json`: `u = _node_from_int(...)`, `bdd.decref(u, ...)`).  In
    dd.cudd / dd.cudd_zdd a plain `decref(u)` spends the handle's own
    reference (`u._ref -= 1`, `u.node = NULL` at zero), after which
    `u.__dealloc__` releases nothing: the temporary reference is never
    returned.  Only `_direct=True` goes to the library without touching
    the handle.  Checked on both sides: the release call passes
    `_direct=True`, and the back ends' `decref` has the direct branch that
    returns before the handle is touched."""
    f = P.func('dd._copy._load_json')
    n = 0
    for blk in au.blocks_of(f.node):
        fresh = set()
        for s in blk:
            if isinstance(s, ast.Assign) and isinstance(
                    s.value, ast.Call) and au.call_name(s.value) in (
                        '_node_from_int', '_add_int') and isinstance(
                            s.targets[0], ast.Name):
                fresh.add(s.targets[0].id)
            for c in au.calls_in(s, 'decref'):
                if not (c.args and isinstance(c.args[0], ast.Name)
                        and c.args[0].id in fresh):
                    continue
                n += 1
                direct = [k for k in c.keywords if k.arg == '_direct']
                if direct and isinstance(
                        direct[0].value, ast.Constant) and \
                        direct[0].value.value is True:
                    R.holds('R-CYTS', f.qualname,
                            f'`{au.short(c, 50)}` releases the loader\'s '
                            'temporary reference directly')
                else:
                    R.violation(
                        'R-CYTS', 'loader-release-not-direct', f.qualname,
                        'decref',
                        f'`{au.short(c, 50)}` releases the reference that '
                        '_make_node took through another Function object '
                        'without `_direct=True`: in dd.cudd and '
                        'dd.cudd_zdd this spends the fresh handle\'s own '
                        'reference instead (the handle then releases '
                        'nothing when it dies), so every loaded node '
                        'keeps one reference for ever', unit=f.unit.rel,
                        line=c.lineno)
    if n == 0:
        raise AnalysisError(
            'R-CYTS/loader-release: the release of the loader\'s '
            'temporaries in dd._copy._load_json was not found')
    # the other side of the agreement
    for mod, cls in (('dd.cudd', 'BDD'), ('dd.cudd_zdd', 'ZDD')):
        g = P.func(f'{mod}.{cls}.decref', required=False)
        if g is None:
            continue
        ok = False
        for s in g.node.body:
            if isinstance(s, ast.If) and au.is_name(s.test, '_direct') \
                    and s.body and isinstance(s.body[-1], ast.Return):
                touches = any(
                    isinstance(x, ast.Attribute) and x.attr in (
                        '_ref', 'node') and isinstance(
                            x.ctx, ast.Store) for st in s.body
                    for x in ast.walk(st))
                ok = not touches
        if ok:
            R.holds('R-CYTS', g.qualname, 'the `_direct` branch returns '
                    'before the handle is touched')
        else:
            R.violation(
                'R-CYTS', 'direct-branch', g.qualname, '_direct',
                f'{g.qualname} no longer has a `_direct` branch that '
                'leaves the handle alone: the JSON loader relies on it',
                unit=g.unit.rel, line=g.lineno)
r_loader_release.NAME = 'R-CYTS(loader release)'
