"""Normalisation of the parsed source before any rule looks at it.

The rules recognise constructs by their shape.  Four families of edits
change the shape of a function without changing what it does, and are
undone here so that every rule sees one canonical form:

N1  local aliases        `succ = self._succ` ... `succ[u]`   ->  `self._succ[u]`
                         `n = len(self.vars)` ... `i >= n`   ->  `i >= len(self.vars)`
N2  loops over literals  `for name, e in (('v', v), ('w', w)): S`
                                                  ->  S[v]; S[w]   (a leading
                         `if c: continue` becomes `if not c: <rest>`)
N3  new private helpers  a function that is NOT in the inventory of the
                         reference tree (ddverif/inventory.json) and is
                         called as a statement (or as `x = helper(...)`
                         with one final `return`) is expanded at its call
                         sites: the rules were written against the
                         functions of the inventory, and a helper extracted
                         from one of them is part of it.

N4  recursive closures   a function whose whole body is a nested recursive
                         function over some of its parameters and
                         `return nested(args)` is rewritten to the plain
                         recursion it abbreviates (the nested function's
                         body, recursive calls re-addressed to the outer
                         function with the captured parameters passed on).

Every transformation keeps the line numbers of the statements it moves
(reports still point into the file).  A construct that does not fit the
stated forms is left alone.
"""
import ast
import copy
import json
import os

from . import astutil as au

HERE = os.path.dirname(os.path.abspath(__file__))
INVENTORY_FILE = os.path.join(HERE, 'inventory.json')


def load_inventory():
    try:
        with open(INVENTORY_FILE) as f:
            return set(json.load(f)['functions'])
    except (OSError, ValueError, KeyError):
        return None


# --------------------------------------------------------------------- N1
def _pure_chain(e):
    """self.a, bdd._succ, len(self.vars): no side effect, no call but len."""
    if isinstance(e, ast.Attribute):
        ch = au.chain(e)
        return ch is not None and len(ch) >= 2
    if isinstance(e, ast.Call) and au.call_name(e) == 'len' and len(
            e.args) == 1 and not e.keywords and isinstance(
                e.func, ast.Name):
        return _pure_chain(e.args[0])
    return False


class _Subst(ast.NodeTransformer):
    def __init__(self, mapping, after=None):
        self.mapping = mapping
        self.after = after or {}

    def visit_Name(self, node):
        if isinstance(node.ctx, ast.Load) and node.id in self.mapping:
            lim = self.after.get(node.id)
            if lim is None or (node.lineno, node.col_offset) > lim:
                new = copy.deepcopy(self.mapping[node.id])
                for x in ast.walk(new):
                    if hasattr(x, 'lineno'):
                        x.lineno = node.lineno
                        x.col_offset = node.col_offset
                        x.end_lineno = getattr(node, 'end_lineno', None)
                        x.end_col_offset = getattr(
                            node, 'end_col_offset', None)
                return new
        return node

    # nested scopes keep their own names
    def visit_Lambda(self, node):
        shadow = {a.arg for a in node.args.args}
        inner = _Subst({k: v for k, v in self.mapping.items()
                        if k not in shadow}, self.after)
        node.body = inner.visit(node.body)
        return node


def _stores(fn, name):
    out = []
    for x in ast.walk(fn):
        if isinstance(x, ast.Name) and x.id == name and isinstance(
                x.ctx, (ast.Store, ast.Del)):
            out.append(x)
        if isinstance(x, ast.arg) and x.arg == name:
            out.append(x)
        if isinstance(x, (ast.FunctionDef, ast.ClassDef)) and \
                x is not fn and x.name == name:
            out.append(x)
    return out


DATA_ATTRS = {'_succ', '_pred', '_ref', 'vars', '_level_to_var',
              '_ite_table', '_min_free', '_bdd', 'manager', 'bdd', 'node',
              'roots', 'max_nodes', '_last_len', '_reordering_context',
              '_free', '_max'}


def eliminate_aliases(fn, data_attrs=DATA_ATTRS):
    """N1 on one function (in place).  Returns the number removed.
    Only plain data attributes are aliases; `bdd.var_levels` (a property
    that returns a copy) is a snapshot."""
    params = {a.arg for a in fn.args.posonlyargs + fn.args.args
              + fn.args.kwonlyargs}
    n = 0
    changed = True
    while changed:
        changed = False
        for blk in au.blocks_of(fn):
            for k, s in enumerate(blk):
                if not (isinstance(s, (ast.Assign, ast.AnnAssign))
                        and getattr(s, 'value', None) is not None):
                    continue
                tgt = s.targets[0] if isinstance(s, ast.Assign) and len(
                    s.targets) == 1 else (
                        s.target if isinstance(s, ast.AnnAssign) else None)
                if not isinstance(tgt, ast.Name) or tgt.id in params:
                    continue
                if not _pure_chain(s.value):
                    continue
                if len(_stores(fn, tgt.id)) != 1:
                    continue
                # the aliased object's base must not be rebound, and the
                # attribute itself not re-assigned, inside the function
                ch = au.chain(s.value if isinstance(
                    s.value, ast.Attribute) else s.value.args[0])
                if ch[-1] not in data_attrs:
                    continue
                base_stores = [x for x in _stores(fn, ch[0])
                               if not isinstance(x, ast.arg)]
                if base_stores:
                    continue
                attr_rebound = any(
                    isinstance(x, ast.Attribute) and isinstance(
                        x.ctx, ast.Store) and au.chain(x) == ch
                    for x in ast.walk(fn))
                if attr_rebound:
                    continue
                # `len(...)` of a container that this function grows or
                # shrinks is a snapshot, not an alias
                if isinstance(s.value, ast.Call):
                    mutated = any(
                        isinstance(x, ast.Subscript) and isinstance(
                            x.ctx, (ast.Store, ast.Del)) and au.chain(
                                x.value) == ch for x in ast.walk(fn)) or \
                        any(isinstance(c, ast.Call) and isinstance(
                            c.func, ast.Attribute) and au.chain(
                                c.func.value) == ch and c.func.attr in (
                                    'pop', 'add', 'update', 'clear',
                                    'remove', 'discard', 'setdefault',
                                    'append')
                            for c in ast.walk(fn)) or any(
                                isinstance(c, ast.Call) and au.call_name(
                                    c) in ('add_var', 'declare',
                                           'undeclare_vars')
                                for c in ast.walk(fn))
                    if mutated:
                        continue
                lim = (s.lineno, s.col_offset)
                sub = _Subst({tgt.id: s.value}, {tgt.id: lim})
                for blk2 in au.blocks_of(fn):
                    for j, st in enumerate(blk2):
                        if st is s:
                            continue
                        blk2[j] = sub.visit(st)
                p = ast.Pass()
                ast.copy_location(p, s)
                blk[k] = p
                n += 1
                changed = True
                break
            if changed:
                break
    return n


# --------------------------------------------------------------------- N2
def _literal_items(it):
    """Elements of a literal iterable, or None."""
    if isinstance(it, (ast.Tuple, ast.List)) and 1 <= len(it.elts) <= 4 \
            and not any(isinstance(e, ast.Starred) for e in it.elts):
        return list(it.elts)
    # dict(v=v, w=w).items()
    if isinstance(it, ast.Call) and isinstance(
            it.func, ast.Attribute) and it.func.attr == 'items' and \
            not it.args and isinstance(it.func.value, ast.Call) and \
            au.call_name(it.func.value) == 'dict' and \
            not it.func.value.args and 1 <= len(
                it.func.value.keywords) <= 4:
        out = []
        for k in it.func.value.keywords:
            if k.arg is None:
                return None
            t = ast.Tuple(elts=[ast.Constant(value=k.arg), k.value],
                          ctx=ast.Load())
            ast.copy_location(t, it)
            ast.fix_missing_locations(t)
            out.append(t)
        return out
    return None


def _fold_continue(stmts):
    """`S; if c: continue; T` -> `S; if not c: T` (top level of a loop
    body).  Returns None when a `continue`/`break` sits anywhere else."""
    out = []
    for k, s in enumerate(stmts):
        if isinstance(s, ast.If) and not s.orelse and len(
                s.body) == 1 and isinstance(s.body[0], ast.Continue):
            rest = _fold_continue(stmts[k + 1:])
            if rest is None:
                return None
            if not rest:
                return out
            neg = ast.UnaryOp(op=ast.Not(), operand=s.test)
            ast.copy_location(neg, s.test)
            new = ast.If(test=neg, body=rest, orelse=[])
            ast.copy_location(new, s)
            return out + [new]
        if any(isinstance(x, (ast.Continue, ast.Break))
               for x in ast.walk(s)
               if not isinstance(x, (ast.For, ast.While))) and not \
                isinstance(s, (ast.For, ast.While)):
            return None
        out.append(s)
    return out


def unroll_literal_loops(fn):
    n = 0
    changed = True
    while changed:
        changed = False
        for blk in au.blocks_of(fn):
            for k, s in enumerate(blk):
                if not (isinstance(s, ast.For) and not s.orelse):
                    continue
                it = s.iter
                # `pairs = dict(v=v, w=w)` ... `for k, x in pairs.items()`
                base = it.func.value if isinstance(
                    it, ast.Call) and isinstance(
                        it.func, ast.Attribute) and it.func.attr == \
                    'items' and not it.args else it
                if isinstance(base, ast.Name):
                    defs = [d for d in blk[:k] if isinstance(
                        d, ast.Assign) and len(d.targets) == 1
                        and au.is_name(d.targets[0], base.id)]
                    if len(defs) == 1 and len(_stores(fn, base.id)) == 1:
                        val = defs[0].value
                        if base is it:
                            it = val
                        else:
                            it = ast.Call(func=ast.Attribute(
                                value=val, attr='items', ctx=ast.Load()),
                                args=[], keywords=[])
                            ast.copy_location(it, s.iter)
                            ast.fix_missing_locations(it)
                items = _literal_items(it)
                if items is None:
                    continue
                body = _fold_continue(list(s.body))
                if body is None:
                    continue
                # the loop variable must not be used after the loop
                names = au.target_names(s.target)
                later = any(isinstance(x, ast.Name) and x.id in names
                            and isinstance(x.ctx, ast.Load)
                            for st in blk[k + 1:] for x in ast.walk(st))
                if later:
                    continue
                new = []
                ok = True
                for it in items:
                    if isinstance(s.target, ast.Name):
                        m = {s.target.id: it}
                    elif isinstance(s.target, ast.Tuple) and isinstance(
                            it, ast.Tuple) and len(it.elts) == len(
                                s.target.elts) and all(
                                    isinstance(t, ast.Name)
                                    for t in s.target.elts):
                        m = {t.id: e for t, e in zip(
                            s.target.elts, it.elts)}
                    else:
                        ok = False
                        break
                    # not when the body assigns the loop variable
                    if any(isinstance(x, ast.Name) and x.id in m
                           and isinstance(x.ctx, ast.Store)
                           for st in body for x in ast.walk(st)):
                        ok = False
                        break
                    for st in body:
                        new.append(_Subst(m).visit(copy.deepcopy(st)))
                if not ok:
                    continue
                blk[k:k + 1] = new
                n += 1
                changed = True
                break
            if changed:
                break
    return n


# --------------------------------------------------------------------- N3
def _helper_shape(h):
    """('proc', None) | ('value', return_expr) | None."""
    a = h.args
    if a.vararg or a.kwarg or a.kwonlyargs or h.decorator_list:
        return None
    rets = [r for r in au.walk_no_defs(h) if isinstance(r, ast.Return)]
    body = [s for s in h.body if not (isinstance(s, ast.Expr) and isinstance(
        s.value, ast.Constant) and isinstance(s.value.value, str))]
    if any(isinstance(x, (ast.Yield, ast.YieldFrom, ast.Global,
                          ast.Nonlocal)) for x in ast.walk(h)):
        return None
    if len(body) > 60:
        return None
    if not rets:
        return ('proc', None, body)
    if len(rets) == 1 and body and body[-1] is rets[0]:
        if rets[0].value is None:
            return ('proc', None, body[:-1])
        return ('value', rets[0].value, body[:-1])
    return None


def _simple_arg(e):
    return isinstance(e, (ast.Name, ast.Constant)) or _pure_chain(e) or (
        isinstance(e, ast.UnaryOp) and _simple_arg(e.operand))


def _relocate(nodes, call):
    """Expanded statements take the position of the call they replace:
    positions order the statements of a function (N1 substitutes an alias
    in what comes after its assignment), and the helper's own lines are
    somewhere else in the file."""
    for top in nodes:
        for n in ast.walk(top):
            if hasattr(n, 'lineno'):
                n.lineno = call.lineno
                n.end_lineno = getattr(call, 'end_lineno', call.lineno)
                n.col_offset = call.col_offset
                n.end_col_offset = getattr(call, 'end_col_offset',
                                           call.col_offset)


def inline_new_helpers(tree, modname, inventory):
    """N3 on a module (in place)."""
    if inventory is None:
        return 0
    helpers = dict()       # (class or None, name) -> FunctionDef
    for node in tree.body:
        if isinstance(node, ast.FunctionDef):
            if f'{modname}.{node.name}' not in inventory and \
                    node.name.startswith('_'):
                helpers[(None, node.name)] = node
        elif isinstance(node, ast.ClassDef):
            for m in node.body:
                if isinstance(m, ast.FunctionDef) and \
                        f'{modname}.{node.name}.{m.name}' not in \
                        inventory and m.name.startswith('_') and not (
                            m.name.startswith('__')):
                    helpers[(node.name, m.name)] = m
    if not helpers:
        return 0
    n = 0
    counter = [0]

    def expand(call, cls):
        """-> (statements, value expr or None) or None"""
        key = None
        args = list(call.args)
        if isinstance(call.func, ast.Name) and (
                None, call.func.id) in helpers:
            key = (None, call.func.id)
            h = helpers[key]
            params = [p.arg for p in h.args.posonlyargs + h.args.args]
        elif isinstance(call.func, ast.Attribute) and isinstance(
                call.func.value, ast.Name) and \
                call.func.value.id == 'self' and (
                    cls, call.func.attr) in helpers:
            key = (cls, call.func.attr)
            h = helpers[key]
            params = [p.arg for p in h.args.posonlyargs + h.args.args]
            if not params or params[0] != 'self':
                return None
            params = params[1:]
        else:
            return None
        shape = _helper_shape(h)
        if shape is None:
            return None
        kind, retval, body = shape
        if any(isinstance(a, ast.Starred) for a in args):
            return None
        bound = dict(zip(params, args))
        for k in call.keywords:
            if k.arg is None or k.arg not in params or k.arg in bound:
                return None
            bound[k.arg] = k.value
        defaults = h.args.defaults
        for p, d in zip(params[len(params) - len(defaults):], defaults):
            bound.setdefault(p, d)
        if set(bound) != set(params):
            return None
        if not all(_simple_arg(v) for v in bound.values()):
            return None
        # parameters that the helper assigns cannot be substituted
        assigned = {x.id for s in body for x in ast.walk(s)
                    if isinstance(x, ast.Name)
                    and isinstance(x.ctx, (ast.Store, ast.Del))}
        pre = []
        mapping = dict()
        counter[0] += 1
        tag = f'__h{counter[0]}'
        for p, v in bound.items():
            if p in assigned:
                nm = ast.Name(id=p + tag, ctx=ast.Store())
                st = ast.Assign(targets=[nm], value=copy.deepcopy(v))
                ast.copy_location(st, call)
                ast.fix_missing_locations(st)
                pre.append(st)
            else:
                mapping[p] = v
        local = assigned | {p for p in bound if p in assigned}

        class Ren(ast.NodeTransformer):
            def visit_Name(self, node):
                if node.id in local:
                    node.id = node.id + tag
                return node
        new = []
        for s in body:
            s2 = copy.deepcopy(s)
            s2 = Ren().visit(s2)
            s2 = _Subst(mapping).visit(s2)
            new.append(s2)
        val = None
        if retval is not None:
            val = copy.deepcopy(retval)
            val = Ren().visit(val)
            val = _Subst(mapping).visit(val)
        _relocate(pre + new + ([val] if val is not None else []), call)
        return pre + new, val

    def expand_tail(call, cls):
        """`return helper(args)` with a helper of any shape (several
        returns, raises): the statements of the helper, its parameters
        bound first; its returns become returns of the caller."""
        if isinstance(call.func, ast.Name) and (
                None, call.func.id) in helpers:
            h = helpers[(None, call.func.id)]
            params = [p.arg for p in h.args.posonlyargs + h.args.args]
        elif isinstance(call.func, ast.Attribute) and isinstance(
                call.func.value, ast.Name) and \
                call.func.value.id == 'self' and (
                    cls, call.func.attr) in helpers:
            h = helpers[(cls, call.func.attr)]
            params = [p.arg for p in h.args.posonlyargs + h.args.args]
            if not params or params[0] != 'self':
                return None
            params = params[1:]
        else:
            return None
        a = h.args
        if a.vararg or a.kwarg or a.kwonlyargs or h.decorator_list:
            return None
        if any(isinstance(x, (ast.Yield, ast.YieldFrom, ast.Global,
                              ast.Nonlocal, ast.FunctionDef, ast.Lambda,
                              ast.ClassDef))
               for st in h.body for x in ast.walk(st)):
            return None
        if any(isinstance(x, ast.Call) and (
                (isinstance(x.func, ast.Name) and x.func.id == h.name)
                or (isinstance(x.func, ast.Attribute)
                    and x.func.attr == h.name)) for x in ast.walk(h)):
            return None
        body = [st for st in h.body if not (
            isinstance(st, ast.Expr) and isinstance(
                st.value, ast.Constant))]
        if not body or len(body) > 60:
            return None
        args = list(call.args)
        if any(isinstance(x, ast.Starred) for x in args):
            return None
        bound = dict(zip(params, args))
        for k in call.keywords:
            if k.arg is None or k.arg not in params or k.arg in bound:
                return None
            bound[k.arg] = k.value
        for p, d in zip(params[len(params) - len(a.defaults):],
                        a.defaults):
            bound.setdefault(p, d)
        if set(bound) != set(params):
            return None
        if not all(_simple_arg(v) for v in bound.values()):
            return None
        assigned = {x.id for st in body for x in ast.walk(st)
                    if isinstance(x, ast.Name)
                    and isinstance(x.ctx, (ast.Store, ast.Del))}
        counter[0] += 1
        tag = f'__h{counter[0]}'
        pre, mapping = [], dict()
        for p, v in bound.items():
            if p in assigned:
                st = ast.Assign(
                    targets=[ast.Name(id=p + tag, ctx=ast.Store())],
                    value=copy.deepcopy(v))
                ast.copy_location(st, call)
                pre.append(st)
            else:
                mapping[p] = v
        local = set(assigned)

        class Ren(ast.NodeTransformer):
            def visit_Name(self, node):
                if node.id in local:
                    node.id = node.id + tag
                return node
        new = []
        for st in body:
            s2 = copy.deepcopy(st)
            s2 = Ren().visit(s2)
            s2 = _Subst(mapping).visit(s2)
            new.append(s2)
        if not isinstance(new[-1], (ast.Return, ast.Raise)):
            new.append(ast.copy_location(
                ast.Return(value=ast.Constant(value=None)), call))
        _relocate(pre + new, call)
        return pre + new

    def process(fn, cls):
        nonlocal n
        changed = True
        rounds = 0
        while changed and rounds < 8:
            changed = False
            rounds += 1
            for blk in au.blocks_of(fn):
                for k, s in enumerate(blk):
                    call = None
                    if isinstance(s, ast.Expr) and isinstance(
                            s.value, ast.Call):
                        call = s.value
                    elif isinstance(s, ast.Assign) and isinstance(
                            s.value, ast.Call):
                        call = s.value
                    elif isinstance(s, ast.Return) and isinstance(
                            s.value, ast.Call):
                        call = s.value
                    if call is None:
                        continue
                    r = expand(call, cls)
                    if r is None and isinstance(s, ast.Return):
                        tail = expand_tail(call, cls)
                        if tail is not None:
                            for x in tail:
                                ast.fix_missing_locations(x)
                            blk[k:k + 1] = tail
                            n += 1
                            changed = True
                            break
                    if r is None:
                        continue
                    stmts, val = r
                    if isinstance(s, ast.Expr):
                        if val is not None:
                            continue
                        repl = stmts or [ast.copy_location(ast.Pass(), s)]
                    else:
                        if val is None:
                            val = ast.copy_location(
                                ast.Constant(value=None), s)
                        s2 = copy.copy(s)
                        s2.value = val
                        repl = stmts + [s2]
                    for x in repl:
                        ast.fix_missing_locations(x)
                    blk[k:k + 1] = repl
                    n += 1
                    changed = True
                    break
                if changed:
                    break

    for node in tree.body:
        if isinstance(node, ast.FunctionDef) and (
                None, node.name) not in helpers:
            process(node, None)
        elif isinstance(node, ast.ClassDef):
            for m in node.body:
                if isinstance(m, ast.FunctionDef) and (
                        node.name, m.name) not in helpers:
                    process(m, node.name)
    # a helper with no call left is gone: it lives on inside its callers
    called = set()
    for x in ast.walk(tree):
        if isinstance(x, ast.FunctionDef) and any(
                x is h for h in helpers.values()):
            continue
    def calls_outside_helpers(node, inside):
        for c in ast.iter_child_nodes(node):
            if isinstance(c, ast.FunctionDef) and any(
                    c is h for h in helpers.values()):
                continue
            if isinstance(c, ast.Call):
                if isinstance(c.func, ast.Name):
                    called.add(c.func.id)
                elif isinstance(c.func, ast.Attribute):
                    called.add(c.func.attr)
            if isinstance(c, ast.Attribute):
                called.add(c.attr)
            if isinstance(c, ast.Name):
                called.add(c.id)
            calls_outside_helpers(c, inside)
    calls_outside_helpers(tree, False)
    for (cls, name), h in helpers.items():
        if name in called:
            continue
        if cls is None:
            tree.body = [x for x in tree.body if x is not h]
        else:
            for node in tree.body:
                if isinstance(node, ast.ClassDef) and node.name == cls:
                    node.body = [x for x in node.body if x is not h] or [
                        ast.Pass()]
    return n


# ------------------------------------------------------------------- driver
def unnest_recursive_closure(fn, is_method):
    """N4: a function whose whole body is a nested recursive function
    over some of its parameters and `return nested(args)`:

        def f(u, table, cache):
            def rec(x):
                ... rec(y) ... table ... cache ...
            return rec(u)

    is the closure-converted form of the recursion `f(u, table, cache)`
    with `f(y, table, cache)` inside.  It is rewritten to that form when
    the nested function does not rebind a variable of the outer one and
    the outer one does nothing else.  Returns 1 if rewritten."""
    body = [s for s in fn.body if not (
        isinstance(s, ast.Expr) and isinstance(s.value, ast.Constant))]
    if len(body) != 2 or not isinstance(body[0], ast.FunctionDef) or \
            not isinstance(body[1], ast.Return):
        return 0
    g, ret = body
    call = ret.value
    if not (isinstance(call, ast.Call) and isinstance(
            call.func, ast.Name) and call.func.id == g.name
            and not call.keywords):
        return 0
    ga = g.args
    if ga.vararg or ga.kwarg or ga.kwonlyargs or ga.defaults or \
            g.decorator_list:
        return 0
    gparams = [a.arg for a in ga.posonlyargs + ga.args]
    fa = fn.args
    if fa.vararg or fa.kwarg or fa.kwonlyargs:
        return 0
    fparams = [a.arg for a in fa.posonlyargs + fa.args]
    own = fparams[1:] if is_method else fparams
    if len(call.args) != len(gparams) or not all(
            isinstance(a, ast.Name) and a.id in own for a in call.args):
        return 0
    outer_for = {p: a.id for p, a in zip(gparams, call.args)}
    if len(set(outer_for.values())) != len(gparams):
        return 0
    # the nested function must be recursive, must not rebind a variable
    # of the outer function, and must not be used as a value
    recursive = False
    for n in ast.walk(g):
        if isinstance(n, (ast.Nonlocal, ast.Global, ast.Lambda)):
            return 0
        if isinstance(n, ast.FunctionDef) and n is not g:
            return 0
        if isinstance(n, ast.Name) and isinstance(n.ctx, ast.Store) and \
                n.id in fparams:
            return 0
        if isinstance(n, ast.Name) and n.id == g.name and not (
                isinstance(getattr(n, '_parent_call', None), ast.Call)):
            pass
    calls = []
    for n in ast.walk(g):
        if isinstance(n, ast.Call) and isinstance(
                n.func, ast.Name) and n.func.id == g.name:
            if n.keywords or len(n.args) != len(gparams) or any(
                    isinstance(a, ast.Starred) for a in n.args):
                return 0
            calls.append(n)
            recursive = True
    uses = [n for n in ast.walk(g) if isinstance(n, ast.Name)
            and n.id == g.name]
    if not recursive or len(uses) != len(calls):
        return 0
    # locals of the nested function that collide with outer parameters
    # they do not stand for
    glocals = {n.id for n in ast.walk(g) if isinstance(n, ast.Name)
               and isinstance(n.ctx, ast.Store)}
    if glocals & (set(fparams) - set(outer_for.values())):
        return 0
    # rename the nested parameters to the outer names
    for n in ast.walk(g):
        if isinstance(n, ast.Name) and n.id in outer_for:
            n.id = outer_for[n.id]
    # recursive calls become calls of the outer function
    for c in calls:
        given = dict(zip([outer_for[p] for p in gparams], c.args))
        args = [given.get(p, ast.Name(id=p, ctx=ast.Load())) for p in own]
        if is_method:
            c.func = ast.Attribute(
                value=ast.Name(id=fparams[0], ctx=ast.Load()),
                attr=fn.name, ctx=ast.Load())
        else:
            c.func = ast.Name(id=fn.name, ctx=ast.Load())
        c.args = args
    doc = [s for s in fn.body if isinstance(s, ast.Expr) and isinstance(
        s.value, ast.Constant)][:1]
    gbody = [s for s in g.body if not (
        isinstance(s, ast.Expr) and isinstance(s.value, ast.Constant))]
    fn.body = doc + gbody
    ast.fix_missing_locations(fn)
    return 1


def normalise_module(tree, modname, inventory=None):
    stats = dict(aliases=0, loops=0, helpers=0, closures=0)
    for owner in ast.walk(tree):
        if isinstance(owner, (ast.Module, ast.ClassDef)):
            for fn in owner.body:
                if isinstance(fn, ast.FunctionDef):
                    stats['closures'] += unnest_recursive_closure(
                        fn, isinstance(owner, ast.ClassDef))
    # data attributes: whatever some method stores through `self`
    data = set(DATA_ATTRS)
    callables = {x.name for x in ast.walk(tree)
                 if isinstance(x, (ast.FunctionDef, ast.AsyncFunctionDef))}
    for x in ast.walk(tree):
        if isinstance(x, ast.Attribute) and isinstance(
                x.ctx, ast.Store) and isinstance(
                    x.value, ast.Name) and x.value.id == 'self':
            data.add(x.attr)
    data -= callables
    stats['helpers'] = inline_new_helpers(tree, modname, inventory)
    for fn in [x for x in ast.walk(tree)
               if isinstance(x, (ast.FunctionDef, ast.AsyncFunctionDef))]:
        # nested functions are handled with their owner
        stats['loops'] += unroll_literal_loops(fn)
    for fn in [x for x in ast.walk(tree)
               if isinstance(x, (ast.FunctionDef, ast.AsyncFunctionDef))]:
        stats['aliases'] += eliminate_aliases(fn, data)
    ast.fix_missing_locations(tree)
    return stats
